#!/usr/bin/env python3
"""tools/keep_round.py <round-tag> <prop> [<prop> ...] : stores the confirmed seeded changes of /tmp/seed<tag>-<prop>-out
(confirmation log /tmp/confirm<tag>-<prop>.log written by tools/confirm_seed.sh) under seeded/<prop>-<n>/ with meta.json;
detection is filled in afterwards by tools/update_detection.py from a par_try log."""
import glob, json, os, re, shutil, sys
HERE = os.path.dirname(os.path.dirname(os.path.abspath(__file__)))
tag = sys.argv[1]
for prop in sys.argv[2:]:
    out = "/tmp/seed%s-%s-out" % (tag, prop)
    res = {}
    for ln in open("/tmp/confirm%s-%s.log" % (tag, prop)):
        m = re.match(r"RESULT patch(\d+): (.*)", ln)
        if m:
            res[int(m.group(1))] = m.group(2).strip()
    have = [int(os.path.basename(d).split("-")[1]) for d in glob.glob(os.path.join(HERE, "seeded", prop + "-*"))]
    nxt = max(have + [0]) + 1
    for i in sorted(res):
        r = res[i]
        ok = "demo_with_patch=1 demo_without=0" in r and not re.search(r"=\s*[1-9]\d*", r.split("tests:")[1])
        if not ok:
            print("NOT KEPT %s patch%d: %s" % (prop, i, r))
            continue
        sid = "%s-%d" % (prop, nxt)
        nxt += 1
        d = os.path.join(HERE, "seeded", sid)
        os.makedirs(d, exist_ok=True)
        shutil.copy(os.path.join(out, "patch%d.diff" % i), os.path.join(d, "patch.diff"))
        for ext in ("c", "sh"):
            src = os.path.join(out, "demo%d.%s" % (i, ext))
            if os.path.exists(src):
                txt = open(src).read().replace("demo%d.c" % i, "demo.c").replace("demo%d" % i, "demo")
                open(os.path.join(d, "demo." + ext), "w").write(txt)
        for extra in glob.glob(os.path.join(out, "demo_common.*")) + glob.glob(os.path.join(out, "ref.h")):
            shutil.copy(extra, d)
        notes = os.path.join(out, "notes%d.md" % i)
        first = ""
        if os.path.exists(notes):
            shutil.copy(notes, os.path.join(d, "notes.md"))
            for ln in open(notes):
                if ln.strip() and not ln.startswith("#"):
                    first = ln.strip()
                    break
                if ln.startswith("#") and not first:
                    first = ln.strip("# \n")
        meta = {"seed": sid, "property": prop.upper(), "round": int(tag), "source_patch": "patch%d.diff" % i, "breaks": first[:300],
                "needs_to_manifest": "see notes.md",
                "origin": "independent sub-agent given only the property text and a scratch worktree",
                "confirmed_by_me": "tools/confirm_seed.sh in the sub-agent's scratch worktree: applied, rebuilt relic_s, demo.sh fails with the patch / passes without; named test binaries exit 0 with the patch",
                "confirmation_result": "RESULT " + r, "detected_by": None, "missed": True}
        json.dump(meta, open(os.path.join(d, "meta.json"), "w"), indent=1)
        print("kept", sid, "<-", prop, "patch%d" % i)
