#!/usr/bin/env python3
"""Re-runs every stored seeded change against the check of its property (and the check named in detected_by): applies
seeded/<id>/patch.diff to /repo, runs bin/check, restores /repo.  Prints one line per seed and a summary; exit 1 if a
seed recorded as caught is no longer caught.  Never run while anything else uses /repo."""
import glob, json, os, re, subprocess, sys
HERE = os.path.dirname(os.path.dirname(os.path.abspath(__file__)))
REPO = os.environ.get("RELIC_REPO", "/repo")      # parallel workers re-test on private copies of the repository
only = sys.argv[1:]
res = []
for d in sorted(glob.glob(os.path.join(HERE, "seeded", "c[0-9]*-*"))):
    m = json.load(open(os.path.join(d, "meta.json")))
    sid = m["seed"]
    if only and not any(sid.startswith(o) for o in only):
        continue
    props = [m["property"]]
    det = m.get("detected_by") or ""
    for p in re.findall(r"\bC\d\d\b", det):
        if p not in props:
            props.append(p)
    patch = os.path.join(d, "patch.diff")
    ap = subprocess.run(["git", "-C", REPO, "apply", "--check", patch], capture_output=True)
    how = ["git", "-C", REPO, "apply", patch]
    if ap.returncode != 0:
        ap2 = subprocess.run(["patch", "-p1", "--dry-run", "--fuzz=3", "-d", REPO, "-i", patch], capture_output=True)
        if ap2.returncode != 0:
            res.append((sid, "does-not-apply", det))
            print(sid, "does-not-apply (the tree has moved on)", flush=True)
            continue
        how = ["patch", "-p1", "--fuzz=3", "-s", "-d", REPO, "-i", patch]
    subprocess.run(how, capture_output=True)
    fired = []
    try:
        for p in props:
            r = subprocess.run([os.path.join(HERE, "bin", "check"), p, "--tier", "quick"], capture_output=True, text=True, timeout=1800)
            if r.returncode == 1:
                rules = sorted(set(re.findall(r"\[([A-Z0-9-]+)\]", r.stdout)))
                fired.append("%s:%s" % (p, ",".join(rules)))
            elif r.returncode != 0:
                fired.append("%s:exit%d" % (p, r.returncode))
    finally:
        subprocess.run(["git", "-C", REPO, "checkout", "--", "."], capture_output=True)
        subprocess.run(["git", "-C", REPO, "clean", "-f", "-q", "--", "src", "include"], capture_output=True)
    status = "caught" if any(":exit" not in f for f in fired) else ("broken" if fired else "quiet")
    res.append((sid, status, " ".join(fired)))
    exp = "missed" if m.get("missed") else "caught"
    flag = "" if (status == "caught") == (exp == "caught") else "   <-- differs from meta.json (%s)" % exp
    print(sid, status, " ".join(fired), flag, flush=True)
bad = 0
for sid, status, info in res:
    m = json.load(open(os.path.join(HERE, "seeded", sid, "meta.json")))
    if not m.get("missed") and status not in ("caught", "does-not-apply"):
        bad += 1
print("%d seeds; caught %d, quiet %d, not applicable any more %d; regressions %d" % (
    len(res), sum(1 for r in res if r[1] == "caught"), sum(1 for r in res if r[1] == "quiet"), sum(1 for r in res if r[1] == "does-not-apply"), bad))
sys.exit(1 if bad else 0)
