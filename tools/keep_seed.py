#!/usr/bin/env python3
"""tools/keep_seed.py <outdir> <n> <seed-id> <property> <needs> <ran> <detected_by|MISSED> [note]
copies a confirmed seeded change into /verif/seeded/<seed-id>/ with meta.json"""
import json, os, shutil, sys
out, n, sid, prop, needs, ran, det = sys.argv[1:8]
note = sys.argv[8] if len(sys.argv) > 8 else ""
d = os.path.join("/verif/seeded", sid)
os.makedirs(d, exist_ok=True)
shutil.copy(os.path.join(out, "patch%s.diff" % n), os.path.join(d, "patch.diff"))
for ext in ("c", "sh"):
    src = os.path.join(out, "demo%s.%s" % (n, ext))
    if os.path.exists(src):
        shutil.copy(src, os.path.join(d, "demo." + ext))
        if ext == "sh":
            # the script refers to demo<n>.c next to it
            txt = open(os.path.join(d, "demo.sh")).read().replace("demo%s.c" % n, "demo.c").replace("demo%s" % n, "demo")
            open(os.path.join(d, "demo.sh"), "w").write(txt)
src = os.path.join(out, "notes%s.md" % n)
if os.path.exists(src):
    shutil.copy(src, os.path.join(d, "notes.md"))
res = ""
lg = os.path.join(out, "confirm%s.log" % n)
if os.path.exists(lg):
    for ln in open(lg):
        if ln.startswith("RESULT"):
            res = ln.strip()
meta = {"seed": sid, "property": prop, "breaks": note, "needs_to_manifest": needs,
        "origin": "independent sub-agent given only the property text and a scratch worktree",
        "confirmed_by_me": ran, "confirmation_result": res,
        "detected_by": None if det == "MISSED" else det, "missed": det == "MISSED"}
json.dump(meta, open(os.path.join(d, "meta.json"), "w"), indent=1)
print("kept", d)
