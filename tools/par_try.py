#!/usr/bin/env python3
"""tools/par_try.py [-j N] [--all] <label>=<patch.diff>[:Cxx,Cyy] ...
Applies each patch to a PRIVATE copy of /repo (never to /repo itself) and runs the named checks (or all of MANIFEST with
--all) from a private copy of /verif, N workers in parallel.  One line per (label, check): exit status and rules fired.
Copies live under /tmp/partry-<pid>/w<k> and are removed at the end."""
import json, os, re, shutil, subprocess, sys, threading, queue

HERE = os.path.dirname(os.path.dirname(os.path.abspath(__file__)))


def main():
    args = sys.argv[1:]
    nj = 4
    allc = False
    jobs = []
    while args:
        a = args.pop(0)
        if a == "-j":
            nj = int(args.pop(0))
        elif a == "--all":
            allc = True
        else:
            label, _, rest = a.partition("=")
            patch, _, props = rest.partition(":")
            jobs.append((label, os.path.abspath(patch), [p for p in props.split(",") if p]))
    every = [c["property_id"] for c in json.load(open(os.path.join(HERE, "MANIFEST.json")))["checks"]]
    root = "/tmp/partry-%d" % os.getpid()
    os.makedirs(root, exist_ok=True)
    q = queue.Queue()
    for j in jobs:
        q.put(j)
    lock = threading.Lock()
    results = []

    def worker(k):
        w = os.path.join(root, "w%d" % k)
        os.makedirs(w, exist_ok=True)
        subprocess.run(["rsync", "-a", "--delete", "--exclude", "_build", "/repo/", w + "/repo/"], check=True)
        subprocess.run(["rsync", "-a", "--delete", "--exclude", ".git", "--exclude", "out", HERE + "/", w + "/verif/"], check=True)
        repo = w + "/repo"
        env = dict(os.environ, RELIC_REPO=repo)
        while True:
            try:
                label, patch, props = q.get_nowait()
            except queue.Empty:
                return
            subprocess.run(["git", "-C", repo, "checkout", "-q", "--", "."])
            subprocess.run(["git", "-C", repo, "clean", "-f", "-q", "--", "src", "include"])
            ap = subprocess.run(["git", "-C", repo, "apply", patch], capture_output=True, text=True)
            if ap.returncode != 0:
                ap = subprocess.run(["patch", "-p1", "--fuzz=3", "-s", "-d", repo, "-i", patch], capture_output=True, text=True)
            if ap.returncode != 0:
                with lock:
                    print("%s does-not-apply %s" % (label, (ap.stderr or ap.stdout).strip().splitlines()[:1]), flush=True)
                continue
            for p in (every if (allc or not props) else props):
                r = subprocess.run([w + "/verif/bin/check", p, "--tier", "quick"], capture_output=True, text=True, env=env, timeout=3600)
                rules = sorted(set(re.findall(r"\[([A-Z0-9-]+)\]", r.stdout)))
                first = [l for l in r.stdout.splitlines() if re.search(r"\[[A-Z0-9-]+\]", l) or l.startswith("ANALYSIS-BROKEN")][:3]
                with lock:
                    results.append((label, p, r.returncode, rules))
                    if r.returncode != 0:
                        print("%s %s rc=%d %s" % (label, p, r.returncode, ",".join(rules)), flush=True)
                        for l in first:
                            print("    " + l[:300], flush=True)
            with lock:
                fired = [(p, rc) for (l, p, rc, _) in results if l == label and rc != 0]
                print("%s done: %s" % (label, "quiet" if not fired else " ".join("%s=%d" % f for f in fired)), flush=True)
            subprocess.run(["git", "-C", repo, "checkout", "-q", "--", "."])
            subprocess.run(["git", "-C", repo, "clean", "-f", "-q", "--", "src", "include"])

    ths = [threading.Thread(target=worker, args=(k,)) for k in range(min(nj, len(jobs)))]
    for t in ths:
        t.start()
    for t in ths:
        t.join()
    shutil.rmtree(root, ignore_errors=True)


if __name__ == "__main__":
    main()
