#!/bin/sh
# tools/try_seed.sh <patch.diff> <Cxx> [<Cxx>...] : apply a seeded change to /repo, run the checks, undo it.
P="$1"; shift
cd /verif || exit 2
git -C /repo apply "$P" 2>/dev/null || (cd /repo && patch -p1 --fuzz=3 -s < "$P") || { echo "patch does not apply"; git -C /repo checkout -- .; exit 2; }
for c in "$@"; do
  timeout 1800 bin/check "$c" --tier quick > /tmp/try_seed.$$.log 2>&1
  rc=$?
  echo "== $c rc=$rc"
  grep -v "^WARNING\|^\[facts\]\|^KNOWN-FINDING" /tmp/try_seed.$$.log | grep -v "^VIOLATION" | cut -c1-260 | head -12
done
rm -f /tmp/try_seed.$$.log
git -C /repo checkout -- . ; git -C /repo clean -f -q -- src include
git -C /repo status --short | grep -v "_build" | head -3
