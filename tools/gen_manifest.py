#!/usr/bin/env python3
"""Regenerates /verif/MANIFEST.json from the table below (single source of truth)."""
import json
import os

HERE = os.path.dirname(os.path.dirname(os.path.abspath(__file__)))

CHECKS = {
    "C07": dict(
        text="Static decision, on every path (exceptional edges included) of all 22 *_read_bin decoders, 25 *_write_bin/_write_str encoders and the *_size_bin functions, of the validation and length clauses: no decoder returns normally without error with a point not checked by *_on_curve after its last write (DEC-VALID), with an unmatched tag byte (DEC-TAG) or an unmatched length (DEC-LEN, evaluated per concrete length world); accepted tags are tags the encoder writes (TAG-AGREE); every accepted byte is consumed (DEC-COVER); advertised, accepted and written lengths agree (LEN-AGREE); stores through the caller's buffer are preceded by a sufficient length test (ENC-LEN); fp/fb elements are written only after the range test (RANGE-FP/-FB). Right level: these checks are present-but-never-triggered code that tests cannot distinguish from absent code; round-trip equality of values and radix arithmetic are not decided.",
        design_ref="DESIGN.md section 3 (C07)",
        note="Trusted: clang 14 parser/CFG/constant evaluator, the extractor, forward must-dataflow with branch atoms (path-insensitive except for the concrete value of `len`), parameter-write summaries; aliasing between distinct locals ignored. Floors: 22 decoders, 7 point decoders, 22 encoders. Rules validated on every run by violating/conforming miniatures (sa/selftest/c07.c).",
        technique="forward must-dataflow (guard dominance) over the exploded clang CFG + sibling/table agreement (size/read/write constants)",
    ),
    "C08": dict(
        text="Static decision of structural necessary conditions of memory safety, each of which when violated yields a concrete out-of-bounds access: at all 155 call sites of the scalar recoders the length handed in (times the row factor) provably fits the buffer handed in (BUF-LEN: forward dataflow of constants/allocation sizes + a symbolic extent prover with loop-index bounds and bit-length bounds of reduced scalars), and inside every recoder each write through the caller's buffer is dominated by a lower-bound test of *len whose failing side leaves (REC-GUARD). Right level: buffer/length mismatches only manifest for operand sizes or configurations the suite never generates. Not decided: absence of all undefined behaviour; loops bounded by ->used of operands.",
        design_ref="DESIGN.md section 3 (C08)",
        note="Trusted: clang 14 parser/CFG/constant evaluator (array extents folded under the active configuration), the extractor, the extent prover's assumption that symbols are non-negative sizes, the table of bit-length-preserving bn operations (bn_mod, bn_abs, bn_rec_glv, order getters), and that lengths of built-in curve parameters (not API inputs) are outside the rule. Validated on every run by miniatures in sa/selftest/c08.c.",
        technique="forward must-dataflow (reaching constants, allocation sizes, guard dominance) + symbolic extent comparison over the clang CFG",
    ),
    "C19": dict(
        text="Static decision, on all paths of all library functions under the BASE, DYNAMIC-allocation and MULTI(pthread) configuration headers, of the structural clauses of the error-handling/context state machine: handler chain restored (TRY-BALANCE, REGION-DEPTH), finaliser exactly once and before the handler (FINALLY-ONCE/-EXIT), nothing in a finaliser can clear the pending exception (FINALLY-PURE), sticky code stored first and a throw with a handler never falls through (THROW-CODE), protocol fields written only by the protocol (CTX-WRITERS), no writable shared state besides the (thread-local under MULTI) context pointer (NO-SHARED-STATE), and every normal return of a parameter setter has passed the installation sequence, a skip keyed on the identifier being admissible only if every public installer of that state writes the identifier (INSTALL-MUST: 'after any sequence of parameter selections'). This is the right level because these clauses are visible in the shape of the code on every path and the suite runs one nesting shape in one configuration; value-level equality after re-parameterisation is not decided.",
        design_ref="DESIGN.md section 3 (C19)",
        note="Trusted: clang 14 parser/CFG/constant evaluator, the extractor, the semantic interpretation of the TRY/CATCH/THROW macro expansion in sa/py/relic_sa/xcfg.py (checked on every run by violating and conforming miniatures in sa/selftest/c19.c), cmake's relic_conf.h. Assumes callees reached through function pointers may throw.",
        technique="exploded-CFG typestate/balance analysis of the setjmp protocol + call-graph effect analysis + who-may-write rule over the clang AST/CFG",
    ),
}

CHECKS["C20"] = dict(
    text="Static taint analysis (forward may-analysis of explicit flows over the exploded CFG; callee output summaries computed by analysing callees to depth 2, context-sensitive on literal arguments, with implicit flows into callee return values) of the 17 *_sec copy/swap/compare primitives and 31 ladder / regular-recoding multiplication and exponentiation bodies (ep, ep2..ep8, ed, eb, bn_mxp, fp_exp, fb_exp, gt_exp_sec and their static helpers). Decides that no branch condition, no subscript of a table of group elements and no delegation to a non-regular routine depends on the selection bit, the compared data or the content of the secret scalar. Right level: such dependences compute the right value, so no functional test can see them. Machine-level timing is not decided.",
    design_ref="DESIGN.md section 3 (C20)",
    note="Trusted: clang parser/CFG, extractor, the table of constant-time entry points with their secret parameter (a vanished parameter name is analysis-broken), the declassification of bit length / sign / zero-ness of the input scalar and of the shape fields used/sign (the property's own 'public bit length'), arithmetic callees treated as atomic operations. Validated on every run by miniatures in sa/selftest/c20.c.",
    technique="interprocedural taint (information-flow) analysis over the clang CFG",
)

CHECKS["C05"] = dict(
    text="Static decision of the well-formedness / soundness-guard clauses over all 27 cp_*_ver verifiers and the RSA padding checker: every statement that can turn the verdict to accept is dominated (forward must-dataflow with branch atoms over the exploded CFG) by the guard predicates recorded per verifier in sa/tables/c05_guards.json (range, sign, non-zero, on-curve, not-identity, subgroup, padding-status tests over parameters and the group order; semantic entailment, not text); no path through a catch-body returns a possibly-accepting verdict (may-analysis incl. the fall-through of a rethrow outside any handler); verdicts are only narrowed inside loops; statuses of checking operations are consumed. Right level: guards that are present but never triggered are indistinguishable from absent ones for the suite. Completeness and the verification equations themselves are not decided.",
    design_ref="DESIGN.md section 3 (C05)",
    note="Trusted: clang parser/CFG, extractor, the guard table (inferred from the tree with tools/infer_c05_guards.py, read against the source for ECDSA, EC-Schnorr, BLS, BBS, PSS, RSA, pad_pkcs2; a row whose verifier or accept-event group vanished is analysis-broken; a new accept statement outside the recorded groups is a violation). Verifiers whose recorded guard list is empty are covered by VER-CATCH/VER-AGG only. Validated on every run by miniatures in sa/selftest/c05.c.",
    technique="forward must-dataflow (guard dominance at accept events) + may-analysis over exceptional edges on the clang CFG",
)

CHECKS["C06"] = dict(
    text="Static decision of the rejection clause ('invalid padding, wrong length or failed authentication are rejected with an error rather than returning data') over the nine cp_*_dec functions and all 14 writes through (out, *out_len) parameter pairs: unsigned arithmetic on untrusted lengths cannot wrap (LEN-SUB, extent prover over dataflow facts), writes through the output fit the announced capacity (OUT-CAP) and are dominated by the recorded authentication / padding gates (OUT-GATE, table sa/tables/c06_gates.json: ECIES tag comparison, RSA padding status), and after a failed check no path returns RLC_OK (FAIL-ERR, may-analysis incl. exceptional edges). A check whose outcome is stored in a local and overwritten before anything reads it is reported (CHECK-DEAD, liveness over src/cp). Decryption-inverts-encryption, homomorphisms, key agreement and share reconstruction are value properties and are not decided.",
    design_ref="DESIGN.md section 3 (C06)",
    note="Trusted: clang parser/CFG, extractor, extent prover (non-negative symbols), the gate table (inferred with tools/infer_c06_gates.py and read against cp_ecies_dec and cp_rsa_dec). Decryption functions with no byte output (bdpe, bgn, ghpe, phpe, shpe) have no output events; rabin/ibe have no recorded gate. Validated on every run by miniatures in sa/selftest/c06.c.",
    technique="forward must-dataflow (gate dominance, extent proofs) + may-analysis of failure-to-status flow on the clang CFG",
)

CHECKS["C18"] = dict(
    text="Static decision of the consistency of every parameter table compiled under the parsed configuration headers (quick: 256-, 255- and 381-bit prime fields, GF(2^283); thorough: 28 further field sizes, i.e. parameter sets no test configuration instantiates): the switch cases of fp_param_set / fp_prime_set_pairf / fb_param_set / ep_param_set / eb_param_set / ed_param_set are interpreted as constant-building code over the clang CFG (CONSTEVAL; an unmodelled statement is analysis-broken, never skipped) and the integers are checked with independent arithmetic: prime modulus or irreducible polynomial, generator on the curve, prime order annihilating the generator, Hasse bound with the tabulated cofactor, GLV constants against their defining equations and the generator, embedding degree and security level advertised by ep_param_embed / ep_param_level. For pairing families the GLV eigenvalue that ep_param_set derives from the family parameter after the table switch is computed by interpreting that arm and checked against lambda^2 + lambda + 1 = 0 resp. lambda^2 + 1 = 0 modulo r and [lambda]G = (beta*x, .). This property quantifies over a finite set whose data are in the source, so static evaluation decides these clauses outright. Run-time derived constants (Montgomery, lattice basis, Frobenius, map constants, twist generators) are not decided.",
    design_ref="DESIGN.md section 3 (C18)",
    note="Trusted: clang parser/constant evaluator (macro-expanded string literals, enum values), the extractor, sa/py/relic_sa/consteval.py (interpreter of ~40 bn/fp statement forms) and sa/py/relic_sa/nt.py (Miller-Rabin + strong Lucas, affine point arithmetic over F_p, GF(2^m) and Edwards form, Rabin irreducibility). Validated on every run by miniatures (mistyped generator digit, copied order, wrong cofactor) in sa/selftest/c18.c.",
    technique="constant evaluation (abstract interpretation with concrete integers) of the parameter tables over the clang CFG + independent arithmetic",
)

CHECKS["C03"] = dict(
    text="Static decision of two structural clauses over all 35 scalar-multiplication bodies of the prime-curve module (variable base, fixed base, simultaneous, incl. static helpers): on every path to a normal return the result is last written by a normalisation, ep_set_infty, a delegation to another routine of the family, or a form-preserving step (SM-NORM; forward must-dataflow over the exploded CFG, evaluated per world of the configuration queries such as ep_curve_is_endom()), and every scalar reaching a recoder that writes a fixed-size array was reduced modulo the group order or decomposed from such a value (SM-RED; bit-length bounds propagated through bn_mod / bn_abs / bn_rec_glv; also the scalar handed to the GLV decomposition), every sibling honours the sign of each scalar parameter (SM-SIGN), and no coordinate of an output point is read before it was written on every path (OUT-RBW). No coordinate of an input point is read in a later statement than a write of that coordinate of an output point (ALIAS-RW for single points, per world of the configuration queries); OUT-RBW also covers arrays of outputs (simultaneous normalisation) and whole-object reads. Right level: the suite compares with ep_cmp, which cross-multiplies by Z, so a dropped normalisation passes it; long scalars are never generated. The group law, the meaning of recodings and exceptional-case dispatch are value properties and are not decided.",
    design_ref="DESIGN.md section 3 (C03)",
    note="Trusted: clang parser/CFG, extractor, the tables of normalisers / form-preserving steps and of bit-length-preserving bn operations; configuration queries are assumed to return the same value at every test within one call. Validated on every run by miniatures in sa/selftest/c03.c.",
    technique="forward must-dataflow (must-pass-through with delegation closure) over the clang CFG",
)

CHECKS["C13"] = dict(
    text="Static decision of the structural clauses of C13 over all complete hash-to-curve implementations (prime, extension-field, binary, Edwards; under the 256-, 255- and 381-bit configuration headers, i.e. incl. maps no test configuration hashes to) and the cofactor routines: the cofactor is cleared, or the work delegated to a map that clears it, after the last write of the point on every path to a normal return (MAP-COF, forward must-dataflow); the cofactor routines write their result on every path (OUT-DEF), return the input unchanged only where the cofactor is known to be 1 (COF-ID) and multiply by a value of the right origin in each arm (COF-PARAM: curve parameter in family arms, tabulated cofactor in the generic arm); no map can reach the random generator other than through representation blinding, nor keeps writable static data (MAP-PURE, call graph). Equality with the documented construction, exceptional-input handling and termination of retry loops are not decided.",
    design_ref="DESIGN.md section 3 (C13)",
    note="Trusted: clang parser/CFG, extractor, the name pattern of complete maps, the table of clearing idioms per family and of cofactor-one pairing families (EP_BN). Validated on every run by miniatures in sa/selftest/c13.c.",
    technique="forward must-dataflow (must-pass-through with delegation closure, origin tracking) + call-graph reachability over the clang CFG",
)

CHECKS["C12"] = dict(
    text="Static decision of the structural clauses of C12 over g1_is_valid, g2_is_valid, gt_is_valid and the exponentiation front ends of src/pc/relic_pc_exp.c under the 256-bit (BN, SM9) and 381-bit (BLS12) configuration headers (thorough: eight further family configurations, i.e. family arms no test configuration reaches): on every path a truthy verdict implies the identity test, the on-curve resp. cyclotomic-subgroup test (or the exact order check) and an order-relation comparison, in every arm of the family switch and the default arm (VALID-ID/-CURVE/-REL, forward must-dataflow with a 'verdict implies' fact set); the element under test is not multiplied by routines that presuppose membership, and the order itself never goes through an order-reducing exponentiation (VALID-MUL); identifier-keyed shortcuts are live only for the reviewed curve, identifier values resolved through the enum of relic_ep.h (VALID-SHORTCUT); exponents are reduced modulo the order before the Frobenius decomposition (EXP-RED) and digit fast paths consult the sign (EXP-SIGN). Every front end honours the sign of its exponent on every path (SM-SIGN: sign test, reduction modulo the order or delegation). Right level: non-members, long and negative exponents are never generated by the suite, and a missing conjunct in one family arm only shows in that family's configuration. That each family's relation is equivalent to multiplication by r, and the values of exponentiations, are not decided.",
    design_ref="DESIGN.md section 3 (C12)",
    note="Trusted: clang parser/CFG/constant evaluator (enumerator values), extractor, the tables of plain multiplication routines, of order getters and of the reviewed shortcut curve (B12_P383); the a^(r-1) == a^-1 idiom of the default arm is accepted as found (replayed on SG18-P638: rejects cyclotomic non-members). Validated on every run by miniatures in sa/selftest/c12.c.",
    technique="forward must-dataflow (verdict-implication facts, origin tracking of exponents) over the clang CFG + enum-table resolution",
)

CHECKS["C15"] = dict(
    text="Static decision of structural necessary conditions of C15 over the Hash_DRBG unit and the integer samplers: an interval analysis with C integer semantics (types, promotions, wrap-around; interprocedural over the static helpers; the reseed counter bounded only by its type because every write of it is a constant or an increment) shows that every carry-propagating big-endian addition accumulates its sum exactly and is not a hand-rolled ripple through a fixed number of bytes (DRBG-CARRY) and that no length sizing an allocation or copy was narrowed (DRBG-LEN) - both quantify over call histories and seed lengths the two-call vectors never reach; forward must-dataflow over the exploded CFG shows that output is produced only within the 2^16-byte request limit (DRBG-LIMIT), that every normal return of generate performed output, H = Hash(03||V), V += C, V += H with carry, V += counter and then counter++ (DRBG-UPDATE), that (re)seeding derives V from seed resp. 01||V||seed, then C from 00||V, and resets counter and flag (DRBG-SEED), that bn_rand_mod returns reduced and non-zero values (RAND-RANGE), that bn_rand masks and normalises (RAND-BITS), and the call graph shows no other source of randomness (RAND-SOURCE). Byte-for-byte equality with SP 800-90A (hash function, hash_df arithmetic) is a value property and is not decided.",
    design_ref="DESIGN.md section 3 (C15)",
    note="Trusted: clang parser/CFG/constant evaluator, extractor, sa/py/relic_sa/intervals.py (flow-insensitive intervals with widening; branch facts only refine arguments at call sites), the recognition of the update steps by callee name and argument shape (a generate/seed function without the helpers is analysis-broken, not a verdict). Validated on every run by miniatures in sa/selftest/c15.c.",
    technique="interval abstract interpretation (C integer semantics, interprocedural) + forward must-dataflow (ordered must-pass-through events) + call-graph who-may-call rule over the clang CFG",
)

CHECKS["C02"] = dict(
    text="Static decision of structural necessary conditions of C02 over the prime-field module under the 256-, 255- and 381-bit configuration headers: every one of the seven selectable inversion algorithms returns normally only where fp_is_zero(a) was tested false, the zero side leaving by the error (INV0, forward must-dataflow with branch atoms - the default build selects one variant, the suite runs one); every exponentiation sibling answers 1 for the zero exponent and consults the sign of the exponent on every path returning a power (EXP-SIB); a truthy verdict of fp_srt implies a squareness test of the argument in every arm of the p mod 4 switch (SRT-VERDICT, the suite runs one prime per build); the five low-level routines whose raw result lies in [0, 2p) return only after a comparison with the modulus or its subtraction, not the carry test alone (CANON: the unreduced window [p, 2^k) is hit with probability about 2^-32..2^-2 depending on the prime and never checked by the suite, which has no canonical-form oracle); where a raw carry-returning addition is followed by the comparison with the modulus the carry-out is consulted (CANON-CARRY, analysed also under FP_RDC=QUICK where the small-constant forms use the idiom); no function of the module stores through a const parameter (CONST-IN, parameter-write summaries over the call graph); no input element is read in a later statement than a write of an output element that may be the same object (ALIAS-RW: 'out==in aliasing'). A bit scan of an exponent is bounded by that exponent's length (LOOP-BITS). Range checks of conversions are decided under C07 (RANGE-FP). Residues, Montgomery arithmetic, roots' values and agreement of algorithm variants are value properties and are not decided.",
    design_ref="DESIGN.md section 3 (C02)",
    note="Trusted: clang parser/CFG, extractor, the family tables (names of the inversion/exponentiation variants computed by pattern; the CANON family of five routines frozen from the tree, a vanished member is analysis-broken), parameter-write summaries (stores through casts are seen; stores through pointers kept inside const structs are not). Validated on every run by miniatures in sa/selftest/c02.c.",
    technique="forward must-dataflow (guard dominance at normal returns, verdict-implication facts) + sibling agreement + parameter-write summaries over the clang CFG/call graph",
)

CHECKS["C09"] = dict(
    text="Static decision of structural necessary conditions of C09 over src/bn: every normal return of the three prime generators is reached with bn_is_prime(a) tested true after the last write of the result and, for the basic and strong generators, with bn_bits(a) == bits established by a loop condition (GEN-POST; forward must-dataflow with branch atoms and flag-conditioned facts for the found/retry idiom - the suite asserts primality only, never the length); every modular-exponentiation sibling (basic, sliding window, Montgomery ladder; the build selects one) consults the sign of the exponent on every path returning a power, and answers 1 where it tells the zero exponent apart (MXP-SIB); integer square root and Legendre/Jacobi symbols return normally only outside their excluded arguments (ARG-GUARD); bn_is_prime accepts only after trial division and a probabilistic test, or below a bound that constant evaluation of the trial-prime table shows to be at most the square of the last trial prime (PRIME-PIPE). A bit scan of an exponent is bounded by that exponent's length (LOOP-BITS). Scalar-recoding buffer contracts (digits/length promised) are decided under C08 (REC-GUARD, BUF-LEN). Values of reductions, exponentiations, inverses, gcd cofactors, symbols, interpolation, the soundness of the primality tests and that a recoding denotes its input are value properties and are not decided.",
    design_ref="DESIGN.md section 3 (C09)",
    note="Trusted: clang parser/CFG, extractor, the sibling sets computed by name pattern (floors 3+3), the table of argument guards read from the functions' documentation. The exact-length claim is made only for the generators whose construction establishes it; bn_gen_prime_safep restores a from (a-1)/2 and is held to primality only. Validated on every run by miniatures in sa/selftest/c09.c.",
    technique="forward must-dataflow (post-condition facts at normal returns, flag-conditioned facts) + sibling agreement over the clang CFG",
)

CHECKS["C04"] = dict(
    text="Static decision of the identity clause of C04 ('a pairing with the identity element in either slot is the identity of the target group', also at arbitrary positions inside a multi-pairing) over all pairing entry points pp_map_{tatep,weilp,oatep}_k{1,2,8,12,16,18,24,48,54} and their multi-pairing forms, which compile under every configuration header but of which the suite runs only the default curve's: forward must-dataflow with branch atoms over the exploded CFG shows that every Miller-loop call of a single pairing is dominated by the not-identity tests of both operands or of the points they were normalised from (MIL-GUARD), that multi-pairings increment the compaction counter and fill the compacted arrays only under both tests and hand exactly those local arrays and that counter to the loop (MIL-COMPACT), that the local operand arrays the loops read as affine coordinates are written by normalisers only (MIL-NORM: projective inputs), that under each selectable pairing (optimal ate, Tate, Weil configuration headers) pc_map and pc_map_sim expand to the same variant (MAP-DISPATCH), and that on every normal return where no loop ran the result was last set to one, through copies, products, squares, inverses and final exponentiations of one (ID-ONE). Bilinearity, non-degeneracy, the order of pairing values and equality of a multi-pairing with the product of pairings are algebraic and are not decided.",
    design_ref="DESIGN.md section 3 (C04)",
    note="Trusted: clang parser/CFG, extractor, the name patterns of pairing entry points, Miller loops, normalisers and unit-preserving field operations; that rewriting only the affine coordinates x, y of a point keeps it finite (the Frobenius twist inside the Weil pairings). Entry points that only delegate have no obligations. Validated on every run by miniatures in sa/selftest/c04.c.",
    technique="forward must-dataflow (guard dominance at Miller-loop call sites, unit-value tokens) + sibling agreement over the clang CFG",
)

CHECKS["C01"] = dict(
    text="Static decision of the representation clauses of C01 ('in a normalised representation (no leading zero digits, zero is non-negative), and leaves its inputs unchanged') over every function of src/bn - public operations and static helpers, all algorithm variants, since none is stripped from the build: forward must-dataflow over the exploded CFG with a 'normalised' token per integer parameter, voided by stores to ->used and to digits (directly or through a low-level routine handed ->dp) and restored by bn_trim or any bn_* operation writing the integer, shows that every normal return hands back normalised outputs (NF); the same with stores of a possibly negative sign shows that a zero result is never left negative (NF-SIGN: the suite tests zero with bn_is_zero, which ignores the sign); where the digit count of an integer that keeps its value is raised, the digits brought into use are cleared under the growth test (GROW-CLEAR: digits beyond the count are unspecified); parameter-write summaries over the call graph show that const inputs are never stored through, also via casts (CONST-IN); a field-sensitive may-analysis shows that no field of an input integer is read in a later statement than a write of that field of an output integer of the same type, i.e. the clause 'also when the output object is one of the inputs' as far as it is visible in statement order (ALIAS-RW; three reviewed exceptions with reasons). That the digits are the mathematical result - carry chains, Knuth D quotient correction, Comba columns, Karatsuba splits, aliasing inside one low-level call - quantifies over operand values and is not decided.",
    design_ref="DESIGN.md section 3 (C01)",
    note="Trusted: clang parser/CFG, extractor, the assumption that integer parameters are normalised on entry, the table of outputs that are normal by construction (bn_zero, bn_set_dig, bn_set_2b, bn_dbl, bn_set_bit; one reason each in rules/c01.py), the table of bn_* functions that do not give their first argument a value. NF-SIGN is decided in the anchored files only (a constant negative sign stored into a provably non-zero recoding limb in bn_rec_frb is outside what the rule can see). Validated on every run by miniatures in sa/selftest/c01.c.",
    technique="forward must-dataflow (must-pass-through of a normaliser after the last raw write) + parameter-write summaries over the clang CFG/call graph",
)

CHECKS["C10"] = dict(
    text="Static decision of three structural clauses of C10 over src/fpx under the 256- and 381-bit configuration headers (every tower compiles in every configuration; the suite runs those of one curve): every one of the 40 exponentiation siblings (generic, cyclotomic, sparse, simultaneous forms of fp2 ... fp54) consults the sign of each of its exponent parameters on every path returning a power or hands that exponent to a sibling, and answers one for a zero exponent it tells apart (EXP-SIB, forward must-dataflow; 'all exponents incl. 0, negative'); no component of an input element is read in a later statement than a write of an overlapping component of an output element of the same tower type (ALIAS-RW, may-analysis over component paths with symbolic loop indices; 376 output/input pairs); no const input is stored through (CONST-IN). Bit scans of exponents are bounded by the exponent's length (LOOP-BITS); ALIAS-RW also covers the low-level fpx routines (src/low/easy), where non-const parameters that are never written count as inputs. Right level: the suite draws positive exponents and never passes an output that is an input to most of these functions. Every value clause - agreement with polynomial arithmetic modulo the defining polynomials, lazy reduction, sparse and compressed forms, Frobenius constants, square roots - is not decided.",
    design_ref="DESIGN.md section 10.6 (C10)",
    note="Trusted: clang parser/CFG, extractor, the name pattern of the siblings (floor 35), the assumption that loops step their index monotonically (an element written in an earlier iteration is a different element), one reviewed ALIAS-RW exception (fp3_srt default arm). Validated on every run by miniatures in sa/selftest/c10.c.",
    technique="forward must-dataflow (sibling agreement on exponent handling) + field/component-sensitive may-alias read-after-write analysis + parameter-write summaries over the clang CFG",
)

CHECKS["C16"] = dict(
    text="Static decision of four structural clauses of C16 over src/fb and src/fbx: all eight selectable inversion algorithms return normally only where fb_is_zero(a) was tested false, the zero side leaving by the error (INV0, sibling agreement; the build selects one variant); the three exponentiation siblings consult the sign of the exponent on every path returning a power and answer one for a zero exponent they tell apart (EXP-SIB); no input element is read in a later statement than a write of an output element that may be the same object (ALIAS-RW); no const input is stored through (CONST-IN); every binary-curve scalar-multiplication sibling honours the sign of each scalar parameter (SM-SIGN, 30 scalar parameters) and no coordinate of an output point is read before it was written (OUT-RBW, 51 outputs). Bit scans of exponents and scalars are bounded by their length (LOOP-BITS); ALIAS-RW also covers single binary-curve points. Polynomial arithmetic over GF(2), reduction modulo the configured polynomial, trace/half-trace, the binary-curve group law, halving, Frobenius and every scalar-multiplication value are value properties and are not decided; the binary-curve decoders, recoding buffers and ladders are decided under C07, C08 and C20.",
    design_ref="DESIGN.md section 10.6 (C16)",
    note="Trusted: clang parser/CFG, extractor, the sibling name patterns (floors 8 and 3), two reviewed ALIAS-RW exceptions (in-place batch inversion reads element i before writing it). Validated on every run by miniatures in sa/selftest/c16.c.",
    technique="forward must-dataflow (guard dominance at normal returns, sibling agreement) + may-alias read-after-write analysis + parameter-write summaries over the clang CFG",
)

CHECKS["C11"] = dict(
    text="Static decision of three structural clauses of C11 over src/epx (curves over quadratic, cubic, quartic and octic extensions; the ep3/ep4/ep8 code compiles in every configuration and is run by none of the suite's) under the 256- and 381-bit configuration headers: every scalar-multiplication sibling - variable base, fixed base, simultaneous and GLS forms, 114 scalar parameters - honours the sign of each scalar on every path that returns a point computed from it, by a sign test (also of a copy or of the sub-scalars of a decomposition), a reduction modulo the order or delegation to a sibling, paths on which the term is moot or the result is the identity excepted (SM-SIGN: forward must-dataflow per world of the configuration queries; 'all scalars as in C03 ... negative'); no coordinate of an output point is read before it was written on every path (OUT-RBW, must-definition analysis over 231 outputs; the suite calls these routines in place, where such a slip is invisible); no const input is stored through (CONST-IN). ALIAS-RW for single points, LOOP-BITS for bit scans of scalars and PAR-SIGN (the signed curve parameter's low digit is never used as a whole multiplier without its sign being consulted; expected count zero, kept alive by its miniature) are decided as well. The cofactor routines are decided under C13, decoders/buffers/regular recodings under C07/C08/C20. The group law, [k]Q as a value, the Frobenius eigenvalue and the cofactor image are algebraic and are not decided; scalars longer than the group order are not reduced by these siblings today and that clause is not claimed (DESIGN.md 10.6).",
    design_ref="DESIGN.md section 10.6 (C11)",
    note="Trusted: clang parser/CFG, extractor, the sibling name pattern (floor 100 scalar parameters), the convention that the point a scalar multiplies is the parameter just before it, that bn_rec_frb/bn_rec_glv give their sub-scalars signs that denote the scalar's. Validated on every run by miniatures in sa/selftest/c11.c.",
    technique="forward must-dataflow (sibling agreement on scalar sign handling) + must-definition analysis of output fields + parameter-write summaries over the clang CFG",
)

CHECKS["C17"] = dict(
    text="Static decision of three structural clauses of C17 over src/ed under the 256-bit configuration header - where no Edwards curve is selectable, so the suite runs none of this module while the analyser parses all of it - and the 255-bit one: every scalar-multiplication sibling honours the sign of each scalar parameter on every path that returns a point computed from it (SM-SIGN, 27 scalar parameters); no coordinate of an output point is read before it was written on every path (OUT-RBW, 44 outputs); no const input is stored through (CONST-IN). ALIAS-RW for single points and LOOP-BITS for bit scans of scalars are decided as well. Hashing to the curve and cofactor clearing are decided under C13, the decoder under C07, recoding buffers under C08 (where the module's one-short buffer was found), the ladder under C20. The Edwards group law in each coordinate system, [k]P as a value and the compression round trip are value properties and are not decided; scalars longer than the group order are not reduced by these siblings today and that clause is not claimed (DESIGN.md 10.6).",
    design_ref="DESIGN.md section 10.6 (C17)",
    note="Trusted: clang parser/CFG, extractor, the sibling name pattern (floor 20 scalar parameters), the convention that the point a scalar multiplies is the parameter just before it. Validated on every run by miniatures in sa/selftest/c17.c.",
    technique="forward must-dataflow (sibling agreement on scalar sign handling) + must-definition analysis of output fields + parameter-write summaries over the clang CFG",
)

NOT_APPLICABLE = {
    "C14": "conformance of output bytes to FIPS/RFC for every input length is a value property of padding arithmetic; the one structural clause (invalid PKCS#7 padding rejected and the status propagated) is decided under C06",
}

ALL = ["C%02d" % i for i in range(1, 21)]


def main():
    checks = []
    for pid in sorted(CHECKS):
        c = CHECKS[pid]
        checks.append({
            "property_id": pid,
            "quick_cmd": "bin/check %s --tier quick" % pid,
            "thorough_cmd": "bin/check %s --tier thorough" % pid,
            "evidence_file": "evidence/%s.json" % pid,
            "replay_cmd_template": "bin/check --replay {path}",
            "engine": "relic_sa",
            "level_claimed": {"category": "other", "text": c["text"], "design_ref": c["design_ref"]},
            "level_note": c["note"],
            "technique": c["technique"],
        })
    na = []
    for pid in ALL:
        if pid in CHECKS:
            continue
        reason = NOT_APPLICABLE.get(pid, "static rules for this property are designed (DESIGN.md section 3) but not yet implemented; not claimed until the check exists")
        na.append({"property_id": pid, "reason": reason})
    m = {
        "version": 1,
        "setup_cmd": "bin/setup",
        "hooks": {
            "guard": "RELIC_VERIF",
            "enable": "no source hooks are needed: every check parses /repo's working tree with clang under cmake-generated configuration headers; the guard is declared and unused",
            "baseline_off_cmd": "cmake -S /repo -B /repo/_build -G Ninja && cmake --build /repo/_build && ctest --test-dir /repo/_build -j8 --timeout 900",
            "source_commits": [],
            "add_only": True,
        },
        "engines": [
            {"name": "relic_sa", "path": "sa/", "serves_properties": sorted(CHECKS),
             "kind_free_text": "custom static analyser: libTooling fact extractor (sa/extract/relic_facts.cc: clang CFG + expression trees + macro provenance per element) and Python rule engines (exploded CFG of the TRY/CATCH protocol, forward must-dataflow with branch atoms, call graph, parameter-write summaries); no code of RELIC is executed"},
        ],
        "checks": checks,
        "not_applicable": na,
        "notes": "Technique family: static analysis only. exit 0 = held (known findings printed as KNOWN-FINDING lines), exit 1 = VIOLATION, exit 2 = analysis broken (self-test failed, anchor vanished or rule matched fewer instances than its floor). known_findings.txt lists genuine defects by (property, rule, file, function, object).",
    }
    with open(os.path.join(HERE, "MANIFEST.json"), "w") as fh:
        json.dump(m, fh, indent=1)
        fh.write("\n")
    print("MANIFEST.json written: %d checks, %d not applicable/not yet claimed" % (len(checks), len(na)))


if __name__ == "__main__":
    main()
