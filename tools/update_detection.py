#!/usr/bin/env python3
"""tools/update_detection.py <par_try log> ... : labels of the log are seed ids; sets detected_by / missed in seeded/<id>/meta.json
from the lines `<id> <Cxx> rc=1 RULES` (rc=2 is not a detection)."""
import json, os, re, sys
HERE = os.path.dirname(os.path.dirname(os.path.abspath(__file__)))
det, done = {}, set()
for f in sys.argv[1:]:
    for ln in open(f):
        m = re.match(r"(c\d\d-\d+) (C\d\d) rc=1 (\S*)", ln)
        if m:
            rules = ",".join(r for r in m.group(3).split(",") if re.match(r"[A-Z]", r) and not r.isdigit())
            det.setdefault(m.group(1), []).append("%s %s" % (m.group(2), rules))
        m = re.match(r"(c\d\d-\d+) done:", ln)
        if m:
            done.add(m.group(1))
for sid in sorted(done):
    p = os.path.join(HERE, "seeded", sid, "meta.json")
    if not os.path.exists(p):
        continue
    m = json.load(open(p))
    if sid in det:
        m["detected_by"] = "; ".join(det[sid])
        m["missed"] = False
    else:
        m["detected_by"] = None
        m["missed"] = True
    json.dump(m, open(p, "w"), indent=1)
    print(sid, m["detected_by"] or "MISSED")
