#!/bin/bash
# tools/retest_benign.sh : applies each behaviour-preserving refactoring batch of seeded/benign/ to /repo and runs ALL checks:
# every one must stay quiet (exit 0).  Never run while anything else uses /repo.
HERE="$(cd "$(dirname "$0")/.." && pwd)"
bad=0
for d in "$HERE"/seeded/benign/*.diff; do
  git -C /repo apply "$d" || { echo "$(basename $d): does not apply any more"; continue; }
  for p in $(python3 -c "import json;print(' '.join(c['property_id'] for c in json.load(open('$HERE/MANIFEST.json'))['checks']))"); do
    "$HERE/bin/check" $p --tier quick > /tmp/benign_$p.log 2>&1; rc=$?
    if [ $rc -ne 0 ]; then echo "$(basename $d) $p rc=$rc  <-- alarm on behaviour-preserving code"; grep -v "^WARNING\|^\[facts\|KNOWN" /tmp/benign_$p.log | head -3; bad=1; fi
  done
  git -C /repo checkout -- . ; git -C /repo clean -f -q -- src include
  echo "$(basename $d): done"
done
exit $bad
