#!/usr/bin/env python3
"""Proposes sa/tables/c05_guards.json from the current tree: for every verifier the guard predicates (over parameters
and the group order) that hold at *every* accept event.  The output is a proposal to be read against the source and
then committed; the check never runs this."""
import json, os, sys
sys.path.insert(0, os.path.join(os.path.dirname(os.path.dirname(os.path.abspath(__file__))), "sa", "py"))
from relic_sa.driver import Ctx
from relic_sa.rules import c05

ctx = Ctx("quick")
prog = ctx.program("BASE")
table = {}
for fn in sorted(c05.verifiers(prog), key=lambda f: f.name):
    vv, evs = c05.guards_at_accepts(ctx, prog, fn)
    if vv is None or not evs:
        print("# %s: no verdict variable / accept events" % fn.name)
        continue
    groups = {}
    for nd, txt, descs, grp in evs:
        groups.setdefault(grp, []).append((txt, descs))
    for grp, items in sorted(groups.items()):
        common = None
        for txt, descs in items:
            common = set(descs) if common is None else (common & descs)
        guards = sorted([list(d) for d in common])
        table[fn.name + grp] = {"file": fn.rfile, "accept_events": [txt for txt, _ in items], "guards": guards}
        print(fn.name + grp, len(items), "accept events;", len(guards), "common guards")
        for g in guards:
            print("     ", g)
json.dump(table, open(c05.TABLE, "w"), indent=1, sort_keys=True)
