#!/usr/bin/env python3
"""Proposes sa/tables/c06_gates.json: for every cp_*_dec the authentication / padding gates that dominate every
output event on today's tree.  A proposal to be read against the source; the check never runs this."""
import json, os, sys
sys.path.insert(0, os.path.join(os.path.dirname(os.path.dirname(os.path.abspath(__file__))), "sa", "py"))
from relic_sa.driver import Ctx
from relic_sa.rules import c06
from relic_sa.engines import Facts
ctx = Ctx("quick")
prog = ctx.program("BASE")
table = {}
for fn in sorted(c06.dec_functions(prog), key=lambda f: f.name):
    g = ctx.xcfg(prog, fn)
    F = Facts(prog, g, mark_thrown=False, edge_gen=c06.gate_edge_gen(fn))
    evs = c06.output_events(prog, fn, g, F)
    common = None
    for nd, txt, descs in evs:
        common = set(descs) if common is None else (common & descs)
    gates = sorted(list(d) for d in (common or ()))
    table[fn.name] = {"file": fn.rfile, "output_events": len(evs), "gates": gates}
    print(fn.name, len(evs), "output events;", gates)
json.dump(table, open(c06.TABLE, "w"), indent=1, sort_keys=True)
