#!/bin/bash
# tools/confirm_seed.sh <outdir> <n> <worktree> "<tests>" : confirm a seeded change independently:
#  demo fails with the patch, passes without; library builds; named test binaries pass with the patch.
OUT="$1"; N="$2"; WT="$3"; TESTS="$4"
LOG="$OUT/confirm$N.log"
: > "$LOG"
cd "$WT" || exit 2
git checkout -q -- . 
if ! git apply "$OUT/patch$N.diff" >> "$LOG" 2>&1; then echo "RESULT patch$N: does-not-apply" | tee -a "$LOG"; exit 1; fi
if ! ninja -C _build relic_s >> "$LOG" 2>&1; then echo "RESULT patch$N: does-not-build" | tee -a "$LOG"; git checkout -q -- .; exit 1; fi
bash "$OUT/demo$N.sh" "$WT" >> "$LOG" 2>&1; with=$?
tres=""
for t in $TESTS; do
  ninja -C _build test_$t >> "$LOG" 2>&1
  (cd _build && timeout 3000 ./bin/test_$t > "$OUT/confirm$N.test_$t.log" 2>&1); rc=$?
  tres="$tres $t=$rc"
done
git checkout -q -- .
ninja -C _build relic_s >> "$LOG" 2>&1
bash "$OUT/demo$N.sh" "$WT" >> "$LOG" 2>&1; without=$?
echo "RESULT patch$N: demo_with_patch=$with demo_without=$without tests:$tres" | tee -a "$LOG"
