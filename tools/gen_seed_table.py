#!/usr/bin/env python3
"""Regenerates the table of seeded changes in DESIGN.md (between the seed-table markers) from seeded/*/meta.json."""
import glob, json, os
HERE = os.path.dirname(os.path.dirname(os.path.abspath(__file__)))
rows = [json.load(open(os.path.join(d, "meta.json"))) for d in sorted(glob.glob(os.path.join(HERE, "seeded", "c[0-9]*-*")))]
out = ["| seed | change | outcome |", "|---|---|---|"]
caught = 0
for m in rows:
    det = m.get("detected_by")
    caught += 1 if det else 0
    out.append("| %s | %s | %s |" % (m["seed"], (m.get("breaks") or "").replace("|", "/"), ("caught: " + det.replace("|", "/")) if det else "**missed**"))
out.append("")
out.append("%d seeded changes stored, %d caught, %d missed." % (len(rows), caught, len(rows) - caught))
p = os.path.join(HERE, "DESIGN.md")
s = open(p).read()
b, e = s.index("<!-- seed-table-begin -->"), s.index("<!-- seed-table-end -->")
s = s[:b] + "<!-- seed-table-begin -->\n" + "\n".join(out) + "\n" + s[e:]
open(p, "w").write(s)
print("seed table: %d rows" % len(rows))
