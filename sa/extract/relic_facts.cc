// relic_facts: libTooling fact extractor for the /verif static analysis of RELIC.
//
// usage: relic_facts <source.c> <out.json> -- <compile flags>
//
// Emits, for every function definition outside system headers, the clang CFG
// with one compact expression tree per CFG element, macro-expansion provenance
// per element, the enclosing TRY/CATCH/FINALLY construct regions, variable and
// callee tables, and file-scope variables.  It contains no rules.
//
// Exit status: 0 ok, 2 on any parse error or internal failure.

#include "clang/AST/ASTConsumer.h"
#include "clang/AST/ASTContext.h"
#include "clang/AST/Decl.h"
#include "clang/AST/Expr.h"
#include "clang/AST/Stmt.h"
#include "clang/Analysis/CFG.h"
#include "clang/Basic/SourceManager.h"
#include "clang/Frontend/CompilerInstance.h"
#include "clang/Frontend/FrontendActions.h"
#include "clang/Lex/Lexer.h"
#include "clang/Tooling/CompilationDatabase.h"
#include "clang/Tooling/Tooling.h"
#include "llvm/ADT/SmallString.h"
#include "llvm/Support/JSON.h"
#include "llvm/Support/raw_ostream.h"

#include <map>
#include <string>
#include <vector>

using namespace clang;
namespace json = llvm::json;

static std::string OutPath;
static bool HadError = false;

namespace {

struct Interner {
  std::map<std::string, int> idx;
  std::vector<std::string> items;
  int get(const std::string &s) {
    auto it = idx.find(s);
    if (it != idx.end()) return it->second;
    int n = items.size();
    idx[s] = n;
    items.push_back(s);
    return n;
  }
  json::Array toJSON() const {
    json::Array a;
    for (auto &s : items) a.push_back(s);
    return a;
  }
};

class Extractor {
public:
  ASTContext &Ctx;
  SourceManager &SM;
  const LangOptions &LO;
  Interner Files, MStacks, Regions;
  json::Object Callees;
  json::Array Functions, Globals, Enums;

  Extractor(ASTContext &C) : Ctx(C), SM(C.getSourceManager()), LO(C.getLangOpts()) {}

  // ---------------------------------------------------------------- locations
  std::string fileOf(SourceLocation L) {
    SourceLocation E = SM.getExpansionLoc(L);
    PresumedLoc P = SM.getPresumedLoc(E);
    if (P.isInvalid()) return "?";
    return P.getFilename();
  }
  unsigned lineOf(SourceLocation L) {
    SourceLocation E = SM.getExpansionLoc(L);
    PresumedLoc P = SM.getPresumedLoc(E);
    if (P.isInvalid()) return 0;
    return P.getLine();
  }

  // Macro stack: names (innermost first) of the macros in whose *body* the
  // token at L is spelled, each with the raw encoding of its expansion point,
  // e.g. "RLC_ERR_THROW@1234;RLC_THROW@1200;bn_new@99".  Macro-argument levels
  // are skipped (the token then belongs to whoever wrote the argument).
  std::string macroStack(SourceLocation L) {
    std::string out;
    int guard = 0;
    while (L.isMacroID() && guard++ < 64) {
      if (SM.isMacroArgExpansion(L)) {
        L = SM.getImmediateSpellingLoc(L);
        // the spelling of an argument may itself be inside another macro body
        continue;
      }
      // macro body expansion
      StringRef Name = Lexer::getImmediateMacroName(L, SM, LO);
      SourceLocation ExpBegin = SM.getImmediateExpansionRange(L).getBegin();
      if (!out.empty()) out += ";";
      out += Name.str();
      out += "@";
      // identify the expansion instance by file offset of its outermost point
      SourceLocation Outer = SM.getExpansionLoc(ExpBegin);
      out += std::to_string(SM.getFileOffset(Outer));
      out += ":";
      out += std::to_string(ExpBegin.getRawEncoding());
      L = ExpBegin;
    }
    return out;
  }
  // innermost macro body name + its instance key, or "" if not in a macro body
  std::pair<std::string, unsigned> innermostBody(SourceLocation L) {
    int guard = 0;
    while (L.isMacroID() && guard++ < 64) {
      if (SM.isMacroArgExpansion(L)) {
        L = SM.getImmediateSpellingLoc(L);
        continue;
      }
      StringRef Name = Lexer::getImmediateMacroName(L, SM, LO);
      SourceLocation ExpBegin = SM.getImmediateExpansionRange(L).getBegin();
      return {Name.str(), ExpBegin.getRawEncoding()};
    }
    return {"", 0};
  }

  // Raw encoding of the expansion point of the RLC_ERR_THROW expansion that
  // contains the token at L (through macro bodies *and* arguments), or 0.
  unsigned throwKey(SourceLocation L, int depth = 0) {
    while (L.isMacroID() && depth++ < 64) {
      if (SM.isMacroArgExpansion(L)) {
        unsigned k = throwKey(SM.getImmediateSpellingLoc(L), depth + 8);
        if (k) return k;
        L = SM.getImmediateExpansionRange(L).getBegin();
        continue;
      }
      StringRef Name = Lexer::getImmediateMacroName(L, SM, LO);
      SourceLocation ExpBegin = SM.getImmediateExpansionRange(L).getBegin();
      if (Name == "RLC_ERR_THROW") return ExpBegin.getRawEncoding();
      L = ExpBegin;
    }
    return 0;
  }

  std::string clip(std::string s) {
    if (s.size() > 80) s = s.substr(0, 80);
    for (auto &c : s)
      if (c == '\n' || c == '\t' || c == '\r') c = ' ';
    return s;
  }
  // Text of an expression as the user wrote it: the file text if the range is
  // plain text, a complete macro invocation or a macro argument; else the
  // tokens as spelled inside the macro definition.
  std::string srcText(SourceRange R) {
    if (R.isInvalid()) return "";
    CharSourceRange FR = Lexer::makeFileCharRange(CharSourceRange::getTokenRange(R), SM, LO);
    bool Invalid = false;
    if (FR.isValid()) {
      StringRef T = Lexer::getSourceText(FR, SM, LO, &Invalid);
      if (!Invalid) return clip(T.str());
    }
    SourceLocation B = SM.getSpellingLoc(R.getBegin()), E = SM.getSpellingLoc(R.getEnd());
    if (B.isValid() && E.isValid() && SM.isWrittenInSameFile(B, E) &&
        SM.getFileOffset(B) <= SM.getFileOffset(E)) {
      StringRef T = Lexer::getSourceText(CharSourceRange::getTokenRange(B, E), SM, LO, &Invalid);
      if (!Invalid) return clip(T.str());
    }
    return "";
  }

  // ---------------------------------------------------------------- per function state
  struct FnState {
    std::map<const VarDecl *, int> varIdx;
    json::Array vars;
    std::map<const Stmt *, int> elemId; // CFG element stmt -> global element id
    std::map<const Stmt *, int> regionOf; // stmt -> region list id
    const Stmt *curRoot = nullptr;
  };
  FnState *FS = nullptr;

  static std::string typeStr(QualType T) { return T.getAsString(); }
  std::string recName(const RecordDecl *RD) {
    std::string n = RD->getNameAsString();
    if (!n.empty()) return n;
    if (const TypedefNameDecl *TD = RD->getTypedefNameForAnonDecl()) return TD->getNameAsString();
    return "<anon>";
  }

  // handle typedef name as written, e.g. "bn_t", "const fp_t"
  json::Object typeInfo(QualType T) {
    json::Object o;
    o["t"] = typeStr(T);
    QualType C = T.getCanonicalType();
    o["c"] = typeStr(C);
    QualType P;
    if (C->isPointerType())
      P = C->getPointeeType();
    else if (C->isArrayType())
      P = Ctx.getAsArrayType(C)->getElementType();
    if (!P.isNull()) {
      o["pc"] = P.isConstQualified() ? 1 : 0;
      // pointer to pointer: constness of innermost pointee as well
      QualType PP = P;
      int depth = 0;
      while ((PP->isPointerType() || PP->isArrayType()) && depth++ < 4) {
        if (PP->isPointerType())
          PP = PP->getPointeeType();
        else
          PP = Ctx.getAsArrayType(PP)->getElementType();
      }
      if (depth) o["ipc"] = PP.isConstQualified() ? 1 : 0;
      if (const RecordType *RT = PP->getAs<RecordType>())
        o["rec"] = recName(RT->getDecl());
    }
    if (const ConstantArrayType *CAT = Ctx.getAsConstantArrayType(C)) {
      json::Array dims;
      QualType Q = C;
      int guard = 0;
      while (const ConstantArrayType *A = Ctx.getAsConstantArrayType(Q)) {
        dims.push_back((int64_t)A->getSize().getZExtValue());
        Q = A->getElementType();
        if (++guard > 6) break;
      }
      o["dims"] = std::move(dims);
      o["esz"] = (int64_t)Ctx.getTypeSizeInChars(Q).getQuantity();
    } else if (C->isVariableArrayType()) {
      o["vla"] = 1;
    }
    if (C.isConstQualified()) o["const"] = 1;
    if (!C->isIncompleteType() && !C->isVariableArrayType() && !C->isFunctionType())
      o["sz"] = (int64_t)Ctx.getTypeSizeInChars(C).getQuantity();
    return o;
  }

  // values of an initialiser list of integer constants (nested lists flattened in order); false if not such a list
  bool flattenInit(const Expr *E, json::Array &vals, unsigned &budget) {
    E = E->IgnoreParenImpCasts();
    if (const InitListExpr *IL = dyn_cast<InitListExpr>(E)) {
      for (const Expr *X : IL->inits()) if (!flattenInit(X, vals, budget)) return false;
      return true;
    }
    if (isa<ImplicitValueInitExpr>(E)) return false;
    if (budget == 0) return false;
    budget--;
    Expr::EvalResult R;
    if (!E->EvaluateAsInt(R, Ctx, Expr::SE_NoSideEffects)) return false;
    llvm::APSInt I = R.Val.getInt();
    if (I.isSigned() || I.getActiveBits() < 63) vals.push_back((int64_t)I.getExtValue());
    else { llvm::SmallString<32> buf; I.toString(buf, 10); vals.push_back(buf.str().str()); }
    return true;
  }
  bool constVals(const VarDecl *V, json::Array &vals) {
    if (!V->hasInit()) return false;
    const InitListExpr *IL = dyn_cast<InitListExpr>(V->getInit()->IgnoreParenImpCasts());
    if (!IL || IL->getNumInits() == 0) return false;
    if (!V->getType().isConstQualified() && !V->hasGlobalStorage()) return false;
    unsigned budget = 4096;
    if (!flattenInit(IL, vals, budget)) { vals.clear(); return false; }
    return !vals.empty();
  }

  int varId(const VarDecl *V) {
    auto it = FS->varIdx.find(V);
    if (it != FS->varIdx.end()) return it->second;
    int id = FS->vars.size();
    FS->varIdx[V] = id;
    json::Object o = typeInfo(V->getType());
    o["n"] = V->getNameAsString();
    const char *kind = "l";
    if (isa<ParmVarDecl>(V))
      kind = "p";
    else if (V->isStaticLocal())
      kind = "s";
    else if (V->hasGlobalStorage())
      kind = "g";
    o["k"] = kind;
    if (const ParmVarDecl *P = dyn_cast<ParmVarDecl>(V)) {
      o["pi"] = (int)P->getFunctionScopeIndex();
      // the type as written (arrays not yet decayed), e.g. "const bn_t"
      o["ot"] = typeStr(P->getOriginalType());
    }
    if (V->getTLSKind() != VarDecl::TLS_None) o["tls"] = 1;
    auto ib = innermostBody(V->getLocation());
    if (!ib.first.empty()) o["mb"] = ib.first;
    o["l"] = (int)lineOf(V->getLocation());
    if (V->isStaticLocal()) { json::Array vals; if (constVals(V, vals)) o["vals"] = std::move(vals); }
    FS->vars.push_back(std::move(o));
    return id;
  }

  void noteCallee(const FunctionDecl *FD) {
    std::string N = FD->getNameAsString();
    if (Callees.get(N)) return;
    json::Object o;
    json::Array ps;
    for (const ParmVarDecl *P : FD->parameters()) {
      json::Object po = typeInfo(P->getType());
      po["ot"] = typeStr(P->getOriginalType());
      po["n"] = P->getNameAsString();
      ps.push_back(std::move(po));
    }
    o["params"] = std::move(ps);
    o["ret"] = typeStr(FD->getReturnType());
    if (FD->isVariadic()) o["va"] = 1;
    if (FD->isNoReturn()) o["nr"] = 1;
    if (SM.isInSystemHeader(SM.getExpansionLoc(FD->getLocation()))) o["sys"] = 1;
    Callees[N] = std::move(o);
  }

  // ---------------------------------------------------------------- expressions
  json::Value J(const Stmt *S) {
    if (!S) return nullptr;
    if (S != FS->curRoot) {
      auto it = FS->elemId.find(S);
      if (it != FS->elemId.end()) return json::Array{"r", it->second};
    }
    if (const Expr *E = dyn_cast<Expr>(S)) return JE(E);
    if (const DeclStmt *DS = dyn_cast<DeclStmt>(S)) {
      json::Array out{"ds"};
      for (const Decl *D : DS->decls()) {
        if (const VarDecl *V = dyn_cast<VarDecl>(D)) {
          json::Array d{"d", varId(V)};
          if (V->hasInit())
            d.push_back(J(V->getInit()));
          else
            d.push_back(nullptr);
          out.push_back(std::move(d));
        }
      }
      if (out.size() == 2) return std::move(*out[1].getAsArray());
      return std::move(out);
    }
    if (const ReturnStmt *RS = dyn_cast<ReturnStmt>(S)) {
      return json::Array{"ret", J(RS->getRetValue())};
    }
    return json::Array{"?", S->getStmtClassName()};
  }

  json::Value JE(const Expr *E0) {
    const Expr *E = E0;
    // strip parens and implicit casts, checking the element map at each level
    for (;;) {
      if (E != FS->curRoot) {
        auto it = FS->elemId.find(E);
        if (it != FS->elemId.end()) return json::Array{"r", it->second};
      }
      if (const ParenExpr *P = dyn_cast<ParenExpr>(E)) {
        E = P->getSubExpr();
        continue;
      }
      if (const ImplicitCastExpr *IC = dyn_cast<ImplicitCastExpr>(E)) {
        E = IC->getSubExpr();
        continue;
      }
      if (const ConstantExpr *CE = dyn_cast<ConstantExpr>(E)) {
        E = CE->getSubExpr();
        continue;
      }
      break;
    }
    // integer constants (folded under the active configuration)
    if (!E->isValueDependent() && E->getType()->isIntegralOrEnumerationType() && E->isPRValue() &&
        !isa<CallExpr>(E)) {
      Expr::EvalResult R;
      if (E->EvaluateAsInt(R, Ctx, Expr::SE_NoSideEffects)) {
        llvm::APSInt V = R.Val.getInt();
        json::Array a{"i"};
        if (V.isSigned() || V.getActiveBits() < 63)
          a.push_back((int64_t)V.getExtValue());
        else {
          llvm::SmallString<32> buf;
          V.toString(buf, 10);
          a.push_back(buf.str().str());
        }
        std::string sp;
        if (const DeclRefExpr *DR = dyn_cast<DeclRefExpr>(E)) {
          sp = DR->getDecl()->getNameAsString();
        } else if (!isa<IntegerLiteral>(E) || E->getBeginLoc().isMacroID()) {
          sp = srcText(E0->getSourceRange());
        }
        if (!sp.empty()) a.push_back(sp);
        return std::move(a);
      }
    }
    if (const DeclRefExpr *DR = dyn_cast<DeclRefExpr>(E)) {
      const ValueDecl *D = DR->getDecl();
      if (const VarDecl *V = dyn_cast<VarDecl>(D)) return json::Array{"v", varId(V)};
      if (const FunctionDecl *F = dyn_cast<FunctionDecl>(D)) {
        noteCallee(F);
        return json::Array{"f", F->getNameAsString()};
      }
      return json::Array{"n", D->getNameAsString()};
    }
    if (const MemberExpr *M = dyn_cast<MemberExpr>(E)) {
      std::string rec;
      if (const FieldDecl *FD = dyn_cast<FieldDecl>(M->getMemberDecl()))
        rec = recName(FD->getParent());
      return json::Array{"m", JE(M->getBase()), M->getMemberDecl()->getNameAsString(), M->isArrow() ? 1 : 0,
                         rec};
    }
    if (const ArraySubscriptExpr *A = dyn_cast<ArraySubscriptExpr>(E)) {
      return json::Array{"x", JE(A->getBase()), JE(A->getIdx())};
    }
    if (const UnaryOperator *U = dyn_cast<UnaryOperator>(E)) {
      std::string op = UnaryOperator::getOpcodeStr(U->getOpcode()).str();
      if (U->isPostfix()) op = "p" + op;
      return json::Array{"u", op, JE(U->getSubExpr())};
    }
    if (const CompoundAssignOperator *CA = dyn_cast<CompoundAssignOperator>(E)) {
      std::string op = BinaryOperator::getOpcodeStr(CA->getOpcode()).str();
      return json::Array{"o=", op, JE(CA->getLHS()), JE(CA->getRHS())};
    }
    if (const BinaryOperator *B = dyn_cast<BinaryOperator>(E)) {
      if (B->getOpcode() == BO_Assign) return json::Array{"=", JE(B->getLHS()), JE(B->getRHS())};
      if (B->getOpcode() == BO_Sub) {
        // signedness of the subtraction after the usual arithmetic conversions
        QualType RT = B->getType();
        const char *sg = RT->isPointerType() ? "p" : (RT->isUnsignedIntegerOrEnumerationType() ? "u" : "s");
        return json::Array{"b", "-", JE(B->getLHS()), JE(B->getRHS()), sg};
      }
      return json::Array{"b", BinaryOperator::getOpcodeStr(B->getOpcode()).str(), JE(B->getLHS()),
                         JE(B->getRHS())};
    }
    if (const CallExpr *C = dyn_cast<CallExpr>(E)) {
      json::Array args;
      std::string pflags; // per argument: '1' if it is a pointer (can be stored through), else '0'
      for (const Expr *A : C->arguments()) {
        args.push_back(JE(A));
        QualType AT = A->getType();
        pflags += (AT->isPointerType() || AT->isArrayType() || AT->isFunctionPointerType()) ? '1' : '0';
      }
      if (const FunctionDecl *FD = C->getDirectCallee()) {
        noteCallee(FD);
        return json::Array{"c", FD->getNameAsString(), std::move(args), nullptr, nullptr, pflags};
      }
      return json::Array{"c", nullptr, std::move(args), JE(C->getCallee()),
                         typeStr(C->getCallee()->getType().getCanonicalType()), pflags};
    }
    if (const ConditionalOperator *CO = dyn_cast<ConditionalOperator>(E)) {
      return json::Array{"?", JE(CO->getCond()), JE(CO->getTrueExpr()), JE(CO->getFalseExpr())};
    }
    if (const CStyleCastExpr *CC = dyn_cast<CStyleCastExpr>(E)) {
      json::Object ti = typeInfo(CC->getType());
      return json::Array{"k", std::move(ti), JE(CC->getSubExpr())};
    }
    if (const StringLiteral *SL = dyn_cast<StringLiteral>(E)) {
      if (SL->getCharByteWidth() == 1) return json::Array{"s", SL->getString().str()};
      return json::Array{"s", "<wide>"};
    }
    if (const IntegerLiteral *IL = dyn_cast<IntegerLiteral>(E)) {
      llvm::SmallString<32> buf;
      IL->getValue().toStringUnsigned(buf, 10);
      return json::Array{"i", buf.str().str()};
    }
    if (const CharacterLiteral *CL = dyn_cast<CharacterLiteral>(E)) {
      return json::Array{"i", (int64_t)CL->getValue()};
    }
    if (const FloatingLiteral *FL = dyn_cast<FloatingLiteral>(E)) {
      (void)FL;
      return json::Array{"fl"};
    }
    if (const InitListExpr *IL = dyn_cast<InitListExpr>(E)) {
      json::Array xs;
      for (const Expr *X : IL->inits()) xs.push_back(JE(X));
      return json::Array{"l", std::move(xs)};
    }
    if (const CompoundLiteralExpr *CL = dyn_cast<CompoundLiteralExpr>(E)) {
      return json::Array{"cl", JE(CL->getInitializer())};
    }
    if (const UnaryExprOrTypeTraitExpr *UE = dyn_cast<UnaryExprOrTypeTraitExpr>(E)) {
      // non-constant sizeof (VLA)
      if (!UE->isArgumentType()) return json::Array{"sizeof", JE(UE->getArgumentExpr())};
      return json::Array{"sizeof", typeStr(UE->getArgumentType())};
    }
    if (const StmtExpr *SE = dyn_cast<StmtExpr>(E)) {
      (void)SE;
      return json::Array{"?", "StmtExpr"};
    }
    if (isa<ImplicitValueInitExpr>(E)) return json::Array{"i", 0};
    if (const PredefinedExpr *PE = dyn_cast<PredefinedExpr>(E)) {
      (void)PE;
      return json::Array{"s", "__func__"};
    }
    if (const OpaqueValueExpr *OV = dyn_cast<OpaqueValueExpr>(E)) {
      if (OV->getSourceExpr()) return JE(OV->getSourceExpr());
    }
    if (const BinaryConditionalOperator *BC = dyn_cast<BinaryConditionalOperator>(E)) {
      return json::Array{"?", JE(BC->getCommon()), JE(BC->getCommon()), JE(BC->getFalseExpr())};
    }
    return json::Array{"?", E->getStmtClassName()};
  }

  // ---------------------------------------------------------------- regions
  // Walk the AST assigning to every statement the list of enclosing
  // TRY/CATCH/FINALLY bodies ("T<k>", "C<k>", "F<k>", outermost first), where a
  // body is the then-branch of an `if` whose keyword is spelled in the body of
  // RLC_ERR_TRY / RLC_ERR_CATCH / RLC_FINALLY and which itself is not spelled in
  // the same macro body instance.
  int constructCounter = 0;
  json::Array constructs; // per function

  void walkRegions(const Stmt *S, const std::string &cur, int curTry) {
    if (!S) return;
    FS->regionOf[S] = Regions.get(cur);
    if (const IfStmt *I = dyn_cast<IfStmt>(S)) {
      auto ib = innermostBody(I->getIfLoc());
      const Stmt *Then = I->getThen();
      char role = 0;
      if (ib.first == "RLC_ERR_TRY")
        role = 'T';
      else if (ib.first == "RLC_ERR_CATCH")
        role = 'C';
      else if (ib.first == "RLC_FINALLY")
        role = 'F';
      if (role && Then) {
        auto tb = innermostBody(Then->getBeginLoc());
        bool userThen = !(tb.first == ib.first && tb.second == ib.second);
        if (userThen) {
          int k;
          if (role == 'T') {
            k = constructCounter++;
            json::Object co;
            co["id"] = k;
            co["l"] = (int)lineOf(I->getIfLoc());
            co["ms"] = MStacks.get(macroStack(I->getIfLoc()));
            constructs.push_back(std::move(co));
          } else {
            k = pendingTry;
          }
          // condition and the if itself belong to the current region
          if (I->getCond()) walkRegions(I->getCond(), cur, curTry);
          std::string inner = cur + (cur.empty() ? "" : ",") + std::string(1, role) + std::to_string(k);
          walkRegions(Then, inner, role == 'T' ? k : curTry);
          if (I->getElse()) walkRegions(I->getElse(), cur, curTry);
          return;
        }
      }
    }
    // A catch/finally pair belongs to the TRY that textually precedes it at the
    // same nesting level: the TRY compound statement is immediately followed by
    // the `for (_z...)` statement spelled in RLC_ERR_CATCH.
    if (const CompoundStmt *CS = dyn_cast<CompoundStmt>(S)) {
      int savedPending = pendingTry;
      for (const Stmt *C : CS->body()) {
        int before = constructCounter;
        bool isCatchFor = false;
        if (const ForStmt *F = dyn_cast<ForStmt>(C)) {
          auto ib = innermostBody(F->getForLoc());
          if (ib.first == "RLC_ERR_CATCH") isCatchFor = true;
        }
        if (isCatchFor) {
          pendingTry = lastTopTry;
          walkRegions(C, cur, curTry);
        } else {
          walkRegions(C, cur, curTry);
          // a TRY construct opened directly by this child (outermost new one)
          if (constructCounter > before) lastTopTry = before;
        }
      }
      pendingTry = savedPending;
      return;
    }
    for (const Stmt *C : S->children()) walkRegions(C, cur, curTry);
  }
  int pendingTry = -1, lastTopTry = -1;

  // ---------------------------------------------------------------- functions
  void handleFunction(const FunctionDecl *FD) {
    const Stmt *Body = FD->getBody();
    if (!Body) return;
    FnState St;
    FS = &St;
    constructCounter = 0;
    constructs = json::Array();
    pendingTry = lastTopTry = -1;

    json::Object fo;
    fo["name"] = FD->getNameAsString();
    fo["file"] = Files.get(fileOf(FD->getLocation()));
    fo["line"] = (int)lineOf(FD->getLocation());
    fo["endline"] = (int)lineOf(Body->getEndLoc());
    fo["static"] = FD->getStorageClass() == SC_Static ? 1 : 0;
    fo["inline"] = FD->isInlineSpecified() ? 1 : 0;
    fo["ret"] = typeStr(FD->getReturnType());
    fo["ms"] = MStacks.get(macroStack(FD->getLocation()));
    json::Array params;
    for (const ParmVarDecl *P : FD->parameters()) params.push_back(varId(P));
    fo["params"] = std::move(params);

    walkRegions(Body, "", -1);

    CFG::BuildOptions BO;
    BO.PruneTriviallyFalseEdges = true;
    BO.AddEHEdges = false;
    BO.AddInitializers = false;
    BO.AddImplicitDtors = false;
    BO.AddTemporaryDtors = false;
    // default alwaysAdd mask: only statements, calls and control-flow
    // operators become elements; other sub-expressions stay inline
    std::unique_ptr<CFG> G = CFG::buildCFG(FD, const_cast<Stmt *>(Body), &Ctx, BO);
    if (!G) {
      llvm::errs() << "relic_facts: cannot build CFG for " << FD->getNameAsString() << "\n";
      HadError = true;
      FS = nullptr;
      return;
    }
    // synthetic single-declaration DeclStmts inherit the region of the original
    for (auto I = G->synthetic_stmt_begin(); I != G->synthetic_stmt_end(); ++I) {
      auto rit = St.regionOf.find(I->second);
      if (rit != St.regionOf.end()) St.regionOf[I->first] = rit->second;
    }
    // pass 1: number the elements
    int nextId = 0;
    for (const CFGBlock *B : *G) {
      for (const CFGElement &El : *B) {
        if (auto CS = El.getAs<CFGStmt>()) {
          St.elemId[CS->getStmt()] = nextId++;
        }
      }
    }
    // pass 2: emit
    json::Array blocks;
    for (const CFGBlock *B : *G) {
      json::Object bo;
      bo["id"] = (int)B->getBlockID();
      json::Array els;
      for (const CFGElement &El : *B) {
        if (auto CS = El.getAs<CFGStmt>()) {
          const Stmt *S = CS->getStmt();
          St.curRoot = S;
          json::Object eo;
          eo["id"] = St.elemId[S];
          eo["e"] = J(S);
          eo["l"] = (int)lineOf(S->getBeginLoc());
          eo["f"] = Files.get(fileOf(S->getBeginLoc()));
          eo["ms"] = MStacks.get(macroStack(S->getBeginLoc()));
          if (unsigned tk = throwKey(S->getBeginLoc())) eo["tk"] = (int64_t)tk;
          auto rit = St.regionOf.find(S);
          eo["rg"] = rit != St.regionOf.end() ? rit->second : Regions.get("");
          els.push_back(std::move(eo));
          St.curRoot = nullptr;
        }
      }
      bo["els"] = std::move(els);
      json::Array succ;
      for (auto I = B->succ_begin(); I != B->succ_end(); ++I) {
        if (const CFGBlock *SB = I->getReachableBlock())
          succ.push_back((int)SB->getBlockID());
        else
          succ.push_back(nullptr);
      }
      bo["succ"] = std::move(succ);
      if (B->hasNoReturnElement()) bo["nr"] = 1;
      if (const Stmt *L = B->getLabel()) {
        if (const CaseStmt *CS = dyn_cast<CaseStmt>(L)) {
          St.curRoot = nullptr;
          bo["label"] = json::Array{"case", JE(CS->getLHS())};
        } else if (isa<DefaultStmt>(L)) {
          bo["label"] = json::Array{"default"};
        } else if (const LabelStmt *LS = dyn_cast<LabelStmt>(L)) {
          bo["label"] = json::Array{"label", LS->getName()};
        }
      }
      if (const Stmt *T = B->getTerminatorStmt()) {
        json::Object to;
        std::string k = T->getStmtClassName();
        if (const BinaryOperator *BOp = dyn_cast<BinaryOperator>(T))
          k = BinaryOperator::getOpcodeStr(BOp->getOpcode()).str();
        to["k"] = k;
        St.curRoot = nullptr;
        // the condition that decides this branch: the last expression
        // evaluated in the block (for `if (a && b)` that is `b`, not `a && b`)
        if (const Expr *LC = B->getLastCondition())
          to["c"] = J(LC);
        else if (const Stmt *C = B->getTerminatorCondition())
          to["c"] = J(C);
        SourceLocation TL = T->getBeginLoc();
        if (const IfStmt *I = dyn_cast<IfStmt>(T)) TL = I->getIfLoc();
        to["l"] = (int)lineOf(TL);
        to["ms"] = MStacks.get(macroStack(TL));
        if (unsigned tk = throwKey(TL)) to["tk"] = (int64_t)tk;
        auto rit = St.regionOf.find(T);
        to["rg"] = rit != St.regionOf.end() ? rit->second : Regions.get("");
        if (const GotoStmt *GS = dyn_cast<GotoStmt>(T)) to["goto"] = GS->getLabel()->getNameAsString();
        bo["term"] = std::move(to);
      }
      blocks.push_back(std::move(bo));
    }
    fo["entry"] = (int)G->getEntry().getBlockID();
    fo["exit"] = (int)G->getExit().getBlockID();
    fo["blocks"] = std::move(blocks);
    fo["vars"] = std::move(St.vars);
    fo["constructs"] = std::move(constructs);
    Functions.push_back(std::move(fo));
    FS = nullptr;
  }

  void handleGlobal(const VarDecl *V) {
    json::Object o = typeInfo(V->getType());
    o["n"] = V->getNameAsString();
    o["file"] = Files.get(fileOf(V->getLocation()));
    o["l"] = (int)lineOf(V->getLocation());
    o["def"] = V->isThisDeclarationADefinition() != VarDecl::DeclarationOnly ? 1 : 0;
    o["static"] = V->getStorageClass() == SC_Static ? 1 : 0;
    o["extern"] = V->getStorageClass() == SC_Extern ? 1 : 0;
    if (V->getTLSKind() != VarDecl::TLS_None) o["tls"] = 1;
    o["init"] = V->hasInit() ? 1 : 0;
    // constant tables of integers (trial-division primes, round constants, S-boxes): the values, nested lists flattened
    { json::Array vals; if (constVals(V, vals)) o["vals"] = std::move(vals); }
    Globals.push_back(std::move(o));
  }

  void run(TranslationUnitDecl *TU) {
    for (Decl *D : TU->decls()) {
      SourceLocation L = SM.getExpansionLoc(D->getLocation());
      if (L.isInvalid() || SM.isInSystemHeader(L)) continue;
      if (FunctionDecl *FD = dyn_cast<FunctionDecl>(D)) {
        if (FD->doesThisDeclarationHaveABody()) handleFunction(FD);
      } else if (VarDecl *V = dyn_cast<VarDecl>(D)) {
        handleGlobal(V);
      } else if (EnumDecl *ED = dyn_cast<EnumDecl>(D)) {
        // enumerators with their values (identifier tables of curves / primes / errors)
        int f = Files.get(fileOf(ED->getLocation()));
        for (const EnumConstantDecl *EC : ED->enumerators()) {
          Enums.push_back(json::Array{EC->getNameAsString(), (int64_t)EC->getInitVal().getExtValue(), f,
                                      (int)lineOf(ED->getLocation())});
        }
      }
    }
  }
};

class Consumer : public ASTConsumer {
public:
  void HandleTranslationUnit(ASTContext &Ctx) override {
    if (Ctx.getDiagnostics().hasErrorOccurred()) {
      HadError = true;
      return;
    }
    Extractor X(Ctx);
    X.run(Ctx.getTranslationUnitDecl());
    json::Object root;
    SourceManager &SM = Ctx.getSourceManager();
    if (const FileEntry *FE = SM.getFileEntryForID(SM.getMainFileID())) root["main"] = FE->getName().str();
    root["files"] = X.Files.toJSON();
    root["mstacks"] = X.MStacks.toJSON();
    root["regions"] = X.Regions.toJSON();
    root["callees"] = std::move(X.Callees);
    root["functions"] = std::move(X.Functions);
    root["globals"] = std::move(X.Globals);
    root["enums"] = std::move(X.Enums);
    std::error_code EC;
    llvm::raw_fd_ostream OS(OutPath, EC);
    if (EC) {
      llvm::errs() << "relic_facts: cannot write " << OutPath << ": " << EC.message() << "\n";
      HadError = true;
      return;
    }
    OS << json::Value(std::move(root));
    OS << "\n";
  }
};

class Action : public ASTFrontendAction {
public:
  std::unique_ptr<ASTConsumer> CreateASTConsumer(CompilerInstance &, StringRef) override {
    return std::make_unique<Consumer>();
  }
};

} // namespace

int main(int argc, const char **argv) {
  if (argc < 4) {
    llvm::errs() << "usage: relic_facts <source.c> <out.json> -- <flags>\n";
    return 2;
  }
  std::string Src = argv[1];
  OutPath = argv[2];
  std::string Err;
  int Argc = argc;
  std::unique_ptr<tooling::CompilationDatabase> DB =
      tooling::FixedCompilationDatabase::loadFromCommandLine(Argc, argv, Err);
  if (!DB) {
    llvm::errs() << "relic_facts: " << Err << "\n";
    return 2;
  }
  tooling::ClangTool Tool(*DB, {Src});
  int rc = Tool.run(tooling::newFrontendActionFactory<Action>().get());
  if (rc != 0 || HadError) return 2;
  return 0;
}
