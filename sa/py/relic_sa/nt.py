"""Independent number theory for C18: primality, short-Weierstrass / binary / twisted-Edwards point
arithmetic, GF(2)[x] irreducibility, quadratic extension arithmetic."""


def is_prime(n):
    """Baillie-PSW-strength test: trial division, Miller-Rabin to 24 fixed bases (deterministic below 3.3e24), then a
    strong Lucas test"""
    if n < 2:
        return False
    small = [2, 3, 5, 7, 11, 13, 17, 19, 23, 29, 31, 37, 41, 43, 47, 53, 59, 61, 67, 71, 73, 79, 83, 89, 97]
    for p in small:
        if n == p:
            return True
        if n % p == 0:
            return False
    d, s = n - 1, 0
    while d % 2 == 0:
        d //= 2
        s += 1
    for a in small[:24]:
        x = pow(a, d, n)
        if x in (1, n - 1):
            continue
        for _ in range(s - 1):
            x = x * x % n
            if x == n - 1:
                break
        else:
            return False
    return lucas_strong(n)


def jacobi(a, n):
    a %= n
    r = 1
    while a:
        while a % 2 == 0:
            a //= 2
            if n % 8 in (3, 5):
                r = -r
        a, n = n, a
        if a % 4 == 3 and n % 4 == 3:
            r = -r
        a %= n
    return r if n == 1 else 0


def isqrt(n):
    if n < 0:
        raise ValueError
    x = int(n ** 0.5) if n < (1 << 100) else 1 << ((n.bit_length() + 1) // 2)
    while True:
        y = (x + n // x) // 2 if x else 0
        if abs(y - x) <= 1:
            break
        x = y
    while x * x > n:
        x -= 1
    while (x + 1) * (x + 1) <= n:
        x += 1
    return x


def lucas_strong(n):
    r = isqrt(n)
    if r * r == n:
        return False
    D = 5
    while True:
        j = jacobi(D, n)
        if j == -1:
            break
        if j == 0 and abs(D) != n:
            return False
        D = -D - 2 if D > 0 else -D + 2
        if abs(D) > 10000:
            return True
    P, Q = 1, (1 - D) // 4
    d, s = n + 1, 0
    while d % 2 == 0:
        d //= 2
        s += 1
    U, V, Qk = 1, P, Q
    inv2 = (n + 1) // 2
    for bit in bin(d)[3:]:
        U, V = U * V % n, (V * V - 2 * Qk) % n
        Qk = Qk * Qk % n
        if bit == "1":
            U, V = (P * U + V) * inv2 % n, (D * U + P * V) * inv2 % n
            Qk = Qk * Q % n
    if U == 0 or V == 0:
        return True
    for _ in range(s - 1):
        V = (V * V - 2 * Qk) % n
        if V == 0:
            return True
        Qk = Qk * Qk % n
    return False


# ---------------------------------------------------------------------- y^2 = x^3 + ax + b over F_p
class Curve:
    def __init__(self, p, a, b):
        self.p, self.a, self.b = p, a % p, b % p

    def on(self, P):
        if P is None:
            return True
        x, y = P
        return (y * y - (x * x * x + self.a * x + self.b)) % self.p == 0

    def add(self, P, Q):
        p = self.p
        if P is None:
            return Q
        if Q is None:
            return P
        x1, y1 = P
        x2, y2 = Q
        if x1 == x2:
            if (y1 + y2) % p == 0:
                return None
            l = (3 * x1 * x1 + self.a) * pow(2 * y1, -1, p) % p
        else:
            l = (y2 - y1) * pow(x2 - x1, -1, p) % p
        x3 = (l * l - x1 - x2) % p
        return (x3, (l * (x1 - x3) - y1) % p)

    def mul(self, k, P):
        if k < 0:
            return self.mul(-k, self.neg(P))
        R = None
        while k:
            if k & 1:
                R = self.add(R, P)
            P = self.add(P, P)
            k >>= 1
        return R

    def neg(self, P):
        return None if P is None else (P[0], (-P[1]) % self.p)


# ---------------------------------------------------------------------- GF(2)[x]
def gf2_mulmod(a, b, f):
    r = 0
    deg = f.bit_length() - 1
    while b:
        if b & 1:
            r ^= a
        b >>= 1
        a <<= 1
        if a >> deg:
            a ^= f
    return r


def gf2_mod(a, f):
    deg = f.bit_length() - 1
    while a.bit_length() - 1 >= deg and a:
        a ^= f << (a.bit_length() - 1 - deg)
    return a


def gf2_gcd(a, b):
    while b:
        a, b = b, gf2_mod(a, b)
    return a


def gf2_irreducible(f):
    """Rabin's test"""
    m = f.bit_length() - 1
    if m < 1:
        return False

    def xpow2k(k):
        x = 2
        for _ in range(k):
            x = gf2_mulmod(x, x, f)
        return x
    if xpow2k(m) != 2:
        return False
    q = m
    primes = []
    d = 2
    while d * d <= q:
        if q % d == 0:
            primes.append(d)
            while q % d == 0:
                q //= d
        d += 1
    if q > 1:
        primes.append(q)
    for pr in primes:
        h = xpow2k(m // pr) ^ 2
        if gf2_gcd(f, h) != 1:
            return False
    return True


class BinCurve:
    """y^2 + xy = x^3 + a x^2 + b over GF(2^m) = GF(2)[x]/f"""

    def __init__(self, f, a, b):
        self.f, self.a, self.b = f, a, b

    def mulf(self, x, y):
        return gf2_mulmod(x, y, self.f)

    def inv(self, x):
        # extended Euclid in GF(2)[x]
        u, v = x, self.f
        g1, g2 = 1, 0
        while u != 1:
            if u == 0:
                raise ZeroDivisionError
            j = u.bit_length() - v.bit_length()
            if j < 0:
                u, v = v, u
                g1, g2 = g2, g1
                j = -j
            u ^= v << j
            g1 ^= g2 << j
        return gf2_mod(g1, self.f)

    def on(self, P):
        if P is None:
            return True
        x, y = P
        m = self.mulf
        return (m(y, y) ^ m(x, y)) == (m(m(x, x), x) ^ m(self.a, m(x, x)) ^ self.b)

    def add(self, P, Q):
        if P is None:
            return Q
        if Q is None:
            return P
        x1, y1 = P
        x2, y2 = Q
        m = self.mulf
        if x1 == x2:
            if y1 != y2 or x1 == 0:
                return None         # P + (-P), or a point of order two doubled
            l = x1 ^ m(y1, self.inv(x1))
            x3 = m(l, l) ^ l ^ self.a
            y3 = m(x1, x1) ^ m(l ^ 1, x3)
            return (x3, y3)
        l = m(y1 ^ y2, self.inv(x1 ^ x2))
        x3 = m(l, l) ^ l ^ x1 ^ x2 ^ self.a
        y3 = m(l, x1 ^ x3) ^ x3 ^ y1
        return (x3, y3)

    def mul(self, k, P):
        R = None
        while k:
            if k & 1:
                R = self.add(R, P)
            P = self.add(P, P)
            k >>= 1
        return R


class EdCurve:
    """a x^2 + y^2 = 1 + d x^2 y^2 over F_p"""

    def __init__(self, p, a, d):
        self.p, self.a, self.d = p, a % p, d % p

    def on(self, P):
        x, y = P
        p = self.p
        return (self.a * x * x + y * y - 1 - self.d * x * x * y * y) % p == 0

    def add(self, P, Q):
        p = self.p
        x1, y1 = P
        x2, y2 = Q
        t = self.d * x1 * x2 * y1 * y2 % p
        x3 = (x1 * y2 + y1 * x2) * pow(1 + t, -1, p) % p
        y3 = (y1 * y2 - self.a * x1 * x2) * pow(1 - t, -1, p) % p
        return (x3, y3)

    def mul(self, k, P):
        R = (0, 1)
        while k:
            if k & 1:
                R = self.add(R, P)
            P = self.add(P, P)
            k >>= 1
        return R
