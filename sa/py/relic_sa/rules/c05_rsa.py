"""RSA-PSS sibling agreement (C05, "a signature produced by the signer verifies", "verdicts agree with an independent
implementation of the standard"):

  PSS-BITS   inside the PSS padding routine, the loop that clears the leftmost bits of the encoded message when signing
             and the loops that test / clear them when verifying start at the same bit (RFC 8017 9.1.1 step 11 and
             9.1.2 steps 6 and 9 speak of the same 8 emLen - emBits bits)
  PSS-EMLEN  cp_rsa_sig and cp_rsa_ver hand the padding routine the same encoded-message length for every modulus
             length: the two length computations are compared as integer functions of the bit length of the modulus
             (evaluated over the expression trees for every bit length from 16 to 4200; no library code is run)
"""
from .. import ir, engines
from ..engines import key
from ..facts import AnalysisBroken

PAD = "pad_pkcs2"
FIN_OPS = {"RSA_SIG_FIN"}


def loops_over_leftmost_bits(fn):
    """[(init key, line, what)] for loops `for (i = INIT; i < 8 * k_len; i++)` whose body reads or clears bit i (+ offset) of the
    encoded message"""
    out = []
    g = None
    # loop heads: branch nodes of ForStmt whose condition is i < 8 * k_len
    for el in fn.all_elements():
        pass
    return out


def _loop_sites(ctx, prog, fn):
    g = ctx.xcfg(prog, fn)
    sites = []
    kl = None
    for pv in fn.params:
        if fn.vars[pv]["n"] == "k_len":
            kl = pv
    if kl is None:
        raise AnalysisBroken("PSS-BITS: %s has no parameter k_len any more" % fn.name)
    for nd in g.nodes:
        if nd.kind != "br" or nd.proto:
            continue
        t = nd.info.get("term") or {}
        if t.get("k") != "ForStmt" or t.get("c") is None:
            continue
        c = ir.peel(fn, t["c"])
        if not (isinstance(c, list) and c[0] == "b" and c[1] == "<"):
            continue
        iv = ir.strip_casts(fn.resolve(c[2]))
        if not (isinstance(iv, list) and iv[0] == "v"):
            continue
        if kl not in engines.key_vars(key(fn, c[3])):
            continue
        # body: a bn_get_bit / bn_set_bit whose bit number mentions the loop variable
        what = None
        body = engines.reachable_from(g, [m for m, l in nd.succ if l == "T"], lambda a, b, lab: b is not nd)
        for b in body:
            if b.kind == "el" and not b.proto:
                for cc in ir.calls_in(fn, b.el.e):
                    if cc[1] in ("bn_get_bit", "bn_set_bit") and len(cc[2]) >= 2 and iv[1] in engines.key_vars(key(fn, cc[2][1])):
                        what = cc[1]
        if what is None:
            continue
        # the initialisation of the loop variable: the assignment / declaration that reaches the head from outside the loop
        inits = []
        heads = [nd]
        # the condition is evaluated in an element of its own in front of the branch
        if len(nd.pred) == 1 and nd.pred[0][0].kind == "el":
            heads = [nd.pred[0][0]]
        for p, l in [x for h in heads for x in h.pred]:
            if p in body:
                continue
            q = p
            guard = 0
            while q is not None and guard < 6:
                guard += 1
                if q.kind == "el":
                    e = q.el.e
                    if e[0] == "d" and e[1] == iv[1] and e[2] is not None:
                        inits.append(key(fn, e[2]))
                        break
                    if e[0] == "=" and ir.strip_casts(e[1]) == ["v", iv[1]]:
                        inits.append(key(fn, e[2]))
                        break
                    if e[0] == "ds":
                        found = False
                        for a in e[1:]:
                            if a[0] == "d" and a[1] == iv[1] and a[2] is not None:
                                inits.append(key(fn, a[2]))
                                found = True
                        if found:
                            break
                q = q.pred[0][0] if len(q.pred) == 1 else None
        if len(inits) == 1:
            sites.append((inits[0], nd.line(), what))
    return sites


def by_base(prog, base):
    return [f for f in prog.all if f.name.split("__")[-1] == base]


def rule_pss_bits(ctx, prog, chk):
    n = 0
    for fn in by_base(prog, PAD):
        n += _pss_bits(ctx, prog, chk, fn)
    return n


def _pss_bits(ctx, prog, chk, fn):
    sites = _loop_sites(ctx, prog, fn)
    if len(sites) < 3:
        raise AnalysisBroken("PSS-BITS: only %d loop(s) over the leftmost bits of the encoded message recognised in %s (3 confirmed by reading: "
                             "one clearing when signing, one testing and one clearing when verifying)" % (len(sites), fn.name))
    ref = None
    for k, line, what in sites:
        if what == "bn_set_bit" and ref is None:
            ref = (k, line)
    if ref is None:
        raise AnalysisBroken("PSS-BITS: no clearing loop found in %s" % fn.name)
    n = 0
    for k, line, what in sites:
        n += 1
        obj = "%s@%s" % (what, "test" if what == "bn_get_bit" else "clear")
        if k == ref[0]:
            chk.ok("PSS-BITS", fn, obj, "starts at bit %s like the clearing loop of the signer" % engines.fmt_key(fn, k), line=line)
        else:
            chk.fail("PSS-BITS", fn, obj, "the loop over the leftmost bits of the encoded message starts at bit %s, the signer clears from bit %s on: the bits in between "
                     "are not the ones the standard requires to be zero" % (engines.fmt_key(fn, k), engines.fmt_key(fn, ref[0])), line=line)
    return n


# ---------------------------------------------------------------------- PSS-EMLEN
class Undecided(Exception):
    pass


def ev(fn, e, env, b):
    """integer value of expression tree e for a modulus of b bits (size_t arithmetic modulo 2^64)"""
    M = 1 << 64
    e = ir.strip_casts(fn.resolve(e))
    if not isinstance(e, list) or not e:
        raise Undecided()
    t = e[0]
    if t == "i" and isinstance(e[1], int):
        return e[1] % M
    if t == "v":
        if e[1] in env:
            return env[e[1]]
        raise Undecided()
    if t == "c" and e[1] == "bn_bits":
        return b
    if t == "c" and e[1] == "bn_size_bin":
        return (b + 7) // 8
    if t == "b":
        op = e[1]
        x, y = ev(fn, e[2], env, b), ev(fn, e[3], env, b)
        if op == "+":
            return (x + y) % M
        if op == "-":
            return (x - y) % M
        if op == "*":
            return (x * y) % M
        if op == "/":
            if y == 0:
                raise Undecided()
            return x // y
        if op == "%":
            if y == 0:
                raise Undecided()
            return x % y
        if op == ">>":
            return x >> y
        if op == "<<":
            return (x << y) % M
        if op in ("<", "<=", ">", ">=", "==", "!="):
            return int({"<": x < y, "<=": x <= y, ">": x > y, ">=": x >= y, "==": x == y, "!=": x != y}[op])
        if op == "&&":
            return int(bool(x) and bool(y))
        if op == "||":
            return int(bool(x) or bool(y))
        raise Undecided()
    if t == "?" and len(e) == 4:
        return ev(fn, e[2], env, b) if ev(fn, e[1], env, b) else ev(fn, e[3], env, b)
    if t == "u" and e[1] == "!":
        return int(not ev(fn, e[2], env, b))
    raise Undecided()


def emlen_at_calls(ctx, prog, fn, want_op, b):
    """set of values the k_len argument of the padding call (with the given operation, or any if None) can take for a b-bit modulus"""
    g = ctx.xcfg(prog, fn)
    tracked = set()
    # the variable handed in as k_len
    calls = []
    for nd in g.nodes:
        if nd.kind == "el" and not nd.proto:
            for c in ir.calls_in(fn, nd.el.e):
                if c[1] and c[1].split("__")[-1] == PAD and len(c[2]) == 5:
                    opn = fn.fmt(c[2][4])
                    if want_op is None or any(o in opn for o in want_op):
                        calls.append((nd, c))
                        a = ir.strip_casts(fn.resolve(c[2][3]))
                        if isinstance(a, list) and a[0] == "v":
                            tracked.add(a[1])
    if not calls or not tracked:
        raise AnalysisBroken("PSS-EMLEN: no call of %s with a variable as encoded-message length found in %s" % (PAD, fn.name))
    callnodes = dict((nd.id, c) for nd, c in calls)
    results = set()
    seen = set()
    work = [(g.entry, ())]
    steps = 0
    while work:
        nd, envt = work.pop()
        if (nd.id, envt) in seen:
            continue
        seen.add((nd.id, envt))
        steps += 1
        if steps > 20000:
            raise Undecided()
        env = dict(envt)
        if nd.id in callnodes:
            results.add(ev(fn, callnodes[nd.id][2][3], env, b))
        if nd.kind == "el" and not nd.proto:
            for sub in ir.walk(fn, nd.el.e):
                tgt = rhs = None
                if sub[0] == "d" and sub[2] is not None:
                    tgt, rhs = sub[1], sub[2]
                elif sub[0] == "=" and ir.strip_casts(sub[1])[0] == "v":
                    tgt, rhs = ir.strip_casts(sub[1])[1], sub[2]
                elif sub[0] == "o=" and ir.strip_casts(sub[2])[0] == "v" and ir.strip_casts(sub[2])[1] in tracked:
                    raise Undecided()
                if tgt in tracked:
                    try:
                        env[tgt] = ev(fn, rhs, env, b)
                    except Undecided:
                        env.pop(tgt, None)
        nxt = list(nd.succ)
        if nd.kind == "br" and not nd.proto:
            t = nd.info.get("term") or {}
            if t.get("c") is not None and any(l in ("T", "F") for _, l in nxt):
                try:
                    v = ev(fn, t["c"], env, b)
                    nxt = [(m, l) for m, l in nxt if l not in ("T", "F") or (l == "T") == bool(v)]
                except Undecided:
                    pass
        et = tuple(sorted(env.items()))
        for m, l in nxt:
            work.append((m, et))
    return results


def rule_pss_emlen(ctx, prog, chk):
    sigs = [f for f in by_base(prog, "cp_rsa_sig") if not f.name.startswith("bad_")]
    n = 0
    for ver in by_base(prog, "cp_rsa_ver"):
        if not sigs:
            raise AnalysisBroken("PSS-EMLEN: cp_rsa_sig not found")
        if not any(c[1] and c[1].split("__")[-1] == PAD for el in ver.all_elements() for c in ir.calls_in(ver, el.e)):
            continue        # another padding is configured
        n += _pss_emlen(ctx, prog, chk, sigs[0], ver)
    return n


def _pss_emlen(ctx, prog, chk, sig, ver):
    bad = None
    n = 0
    try:
        for b in range(16, 4201):
            s = emlen_at_calls(ctx, prog, sig, FIN_OPS, b)
            v = emlen_at_calls(ctx, prog, ver, None, b)
            n += 1
            if len(s) != 1 or len(v) != 1:
                raise Undecided()
            if s != v and bad is None:
                bad = (b, sorted(s)[0], sorted(v)[0])
    except Undecided:
        chk.note("PSS-EMLEN: the encoded-message lengths of cp_rsa_sig / cp_rsa_ver are no longer plain integer functions of the modulus length; no claim")
        return 0
    if bad is None:
        chk.ok("PSS-EMLEN", ver, "size", "cp_rsa_sig and cp_rsa_ver derive the same encoded-message length for every modulus length from 16 to 4200 bits", line=ver.line)
    else:
        chk.fail("PSS-EMLEN", ver, "size", "for a modulus of %d bits cp_rsa_sig pads to %d bytes but cp_rsa_ver unpads %d: the library rejects its own signatures for such keys" % bad, line=ver.line)
    return 1


def analyse(ctx, prog, chk):
    return {"bits": rule_pss_bits(ctx, prog, chk), "emlen": rule_pss_emlen(ctx, prog, chk)}
