"""C05 — signature verifiers accept only well-formed, checked inputs.

  VER-GUARD   every event that can turn the verdict of a verifier (or the padding checker it relies on) to "accept"
              is dominated by the guard predicates recorded for that verifier in sa/tables/c05_guards.json
              (range, sign, non-zero, on-curve, subgroup, comparison and padding tests, over parameters and the group order)
  VER-CATCH   on no path through a catch-body does a verifier return a verdict that may be "accept"
  VER-AGG     inside a loop a verdict is only ever narrowed (&=, &&, guarded reset), never overwritten
  STATUS-USE  the status returned by padding / cipher / protocol functions is consumed at every call site
"""
import json
import os
import re

from .. import ir, engines
from ..engines import Facts, key
from ..facts import AnalysisBroken, VERIF

EXPLANATION = (
    "Static decision of the encoding/range-check clauses of C05 over all 27 cp_*_ver verifiers and the three RSA padding "
    "checkers: forward must-dataflow with branch atoms over the exploded CFG shows that every statement that can turn the "
    "verdict to accept is dominated by the guard predicates recorded per verifier (range, sign, non-zero, on-curve, "
    "subgroup, equality and padding tests over parameters and the group order: a reviewed table, semantic not textual); "
    "a may-analysis over the exceptional edges shows that no path through a catch-body returns a possibly-accepting "
    "verdict; verdicts are only narrowed inside loops; status results are consumed. Does not decide completeness nor that "
    "the verification equations are the scheme's. Nothing of RELIC is executed.")

TABLE = os.path.join(VERIF, "sa", "tables", "c05_guards.json")
PADS = {"pad_basic", "pad_pkcs1", "pad_pkcs2"}
ORD_GETTERS = re.compile(r"^(ec|ep|ep2|ed|eb|g1|g2|gt|pc)_(curve_)?get_ord$")
# predicate vocabulary that may be recorded as a guard
PRED_CALLS = re.compile(r"^(bn_is_zero|bn_cmp|bn_cmp_dig|bn_cmp_abs|bn_sign|bn_is_prime|\w+_on_curve|\w+_is_valid|\w+_is_infty|gt_is_unity|"
                        r"gt_cmp|gt_cmp_dig|g1_cmp|g2_cmp|ec_cmp|ep_cmp|ep2_cmp|fp_cmp|fp2_cmp|fp12_cmp|util_cmp_sec|util_cmp_const|dv_cmp_sec|"
                        r"pad_basic|pad_pkcs1|pad_pkcs2|cp_\w+_ver|memcmp)$")


STAR_CALLS = re.compile(r"^(pad_basic|pad_pkcs1|pad_pkcs2|cp_\w+_ver)$")


def verifiers(prog):
    out = []
    for fn in prog.all:
        base = fn.name.split("__")[-1]
        if re.match(r"^cp_\w+_(ver|onv)$", base) or base in PADS:
            out.append(fn)
    return out


def accept_is_zero(fn):
    return fn.name.split("__")[-1] in PADS      # RLC_OK == 0 is the accepting status of the padding checkers


def is_status_only(fn, g, vv):
    """the returned integer is never made accepting outside a catch-body: it is a status, not a verdict
    (cp_mpss_ver / cp_mpsb_ver hand the verification result back through a parameter)"""
    for n, txt in accept_events(fn, g, vv, False):
        rg = n.el.rg if n.el is not None else ()
        if not any(r == "C" for r, _ in rg):
            return False
    return True


def verdict_var(fn):
    vs = set()
    for el in fn.all_elements():
        if el.e[0] == "ret" and el.e[1] is not None:
            r = ir.peel(fn, el.e[1])
            if isinstance(r, list) and r[0] == "v":
                vs.add(r[1])
    return next(iter(vs)) if len(vs) == 1 else None


def may_accept(fn, rhs, vv, zero_accepts):
    """can assigning rhs make the verdict accepting?  (None: monotone narrowing, never raises the verdict)"""
    r = ir.peel(fn, rhs)
    if not isinstance(r, list):
        return True
    if r[0] == "i" and isinstance(r[1], int):
        return (r[1] == 0) if zero_accepts else (r[1] != 0)
    if zero_accepts:
        return True
    # v & x, v && x: narrowing
    if r[0] == "b" and r[1] in ("&", "&&"):
        l, rr = ir.peel(fn, r[2]), ir.peel(fn, r[3])
        if l == ["v", vv] or rr == ["v", vv]:
            return None
    return True


def accept_events(fn, g, vv, zero_accepts):
    """nodes whose execution can make the verdict accepting: (node, text)"""
    out = []
    for n in g.nodes:
        if n.kind != "el" or n.proto:
            continue
        e = n.el.e
        for sub in ir.walk(fn, e):
            if sub[0] == "=" and ir.strip_casts(sub[1]) == ["v", vv]:
                if may_accept(fn, sub[2], vv, zero_accepts):
                    out.append((n, fn.fmt(sub)[:70]))
            elif sub[0] == "d" and sub[1] == vv and sub[2] is not None:
                if may_accept(fn, sub[2], vv, zero_accepts):
                    out.append((n, fn.fmt(sub)[:70]))
            elif sub[0] == "o=" and ir.strip_casts(sub[2]) == ["v", vv] and sub[1] not in ("&=",):
                out.append((n, fn.fmt(sub)[:70]))
    return out


# ---------------------------------------------------------------------- descriptors (stable names for atoms)
def describe_key(fn, k, st):
    """stable textual form of a key over parameters / the group order, or None if it mentions other locals"""
    if not isinstance(k, tuple):
        return str(k)
    t = k[0]
    if t == "i":
        return str(k[1])
    if t == "v":
        v = fn.vars[k[1]]
        if v["k"] == "p":
            return v["n"]
        if ("ev", "ord", k) in st:
            return "<ord>"
        # a local still holding the integer decoded from a parameter (bn_read_bin(eb, sig, sig_len) and no write since)
        for a in st:
            if a[0] == "ev" and a[1] == "dec" and a[2] == k:
                return "<dec:%s>" % a[3]
        return None
    if t == "m":
        b = describe_key(fn, k[1], st)
        return None if b is None else "%s.%s" % (b, k[2])
    if t == "x":
        b, i = describe_key(fn, k[1], st), describe_key(fn, k[2], st)
        if b is None:
            return None
        return "%s[%s]" % (b, i if i is not None else "*")
    if t == "u" and k[1] in ("&", "*"):
        return describe_key(fn, k[2], st)
    if t == "c" and isinstance(k[1], str):
        args = [describe_key(fn, a, st) for a in k[2]]
        if any(a is None for a in args):
            if STAR_CALLS.match(k[1]):
                # status of a padding checker / nested verifier: recorded whatever its (local) arguments are
                return "%s(%s)" % (k[1], ",".join(a if a is not None else "*" for a in args))
            return None
        return "%s(%s)" % (k[1], ",".join(args))
    if t == "b" and k[1] in ("+", "-", "*"):
        a, b = describe_key(fn, k[2], st), describe_key(fn, k[3], st)
        if a is None or b is None:
            return None
        return "(%s%s%s)" % (a, k[1], b)
    return None


_ASSIGNED = {}


def _assigned_vars(fn):
    """variables the function assigns (a relation that mentions one of them may stem from the assignment, not from a test)"""
    r = _ASSIGNED.get(id(fn))
    if r is None:
        r = set()
        for el in fn.all_elements():
            r |= engines.directly_assigned(fn, el.e) - set(sub[1] for sub in ir.walk(fn, el.e) if sub[0] == "d" and sub[2] is None)
        r -= set()
        _ASSIGNED[id(fn)] = r
    return r


def describe_atom(fn, a, st):
    if a[0] == "rel":
        # a relation between a by-value parameter and a length derived from the key / parameters:
        # sig_len == bn_size_bin(pub->crt->n) is recorded as (sig_len-bn_size_bin(pub.crt.n)) == 0
        k1, k2 = a[1], a[3]
        assigned = _assigned_vars(fn)
        isparam = lambda k: isinstance(k, tuple) and k[0] == "v" and fn.vars[k[1]]["k"] == "p" and "pc" not in fn.vars[k[1]] and k[1] not in assigned
        if not (isparam(k1) or isparam(k2)):
            return None
        d1, d2 = describe_key(fn, k1, st), describe_key(fn, k2, st)
        if d1 is None or d2 is None:
            return None
        return ("(%s-%s)" % (d1, d2), a[2], 0)
    if a[0] != "cmp":
        return None
    k = a[1]
    # vocabulary: predicate calls and the sign field
    ok = False
    if isinstance(k, tuple) and k[0] == "c" and isinstance(k[1], str) and PRED_CALLS.match(k[1]):
        ok = True
    if isinstance(k, tuple) and k[0] == "m" and k[2] == "sign":
        ok = True
    if isinstance(k, tuple) and k[0] == "v" and fn.vars[k[1]]["k"] == "p":
        ok = True
    if not ok:
        return None
    d = describe_key(fn, k, st)
    if d is None:
        return None
    return (d, a[2], a[3])


def atom_holds(descs, want):
    """is the recorded guard `want` = [desc, op, const] implied by the described atoms?"""
    d, op, c = want
    for dd, oo, cc in descs:
        if dd == d and engines.entails(oo, cc, op, c):
            return True
    return False


def make_gen(fn):
    def gen(node, s, pre):
        out = []
        for c in ir.calls_in(fn, node.el.e):
            if c[1] and ORD_GETTERS.match(c[1]) and c[2]:
                out.append(("ev", "ord", key(fn, c[2][0])))
            if c[1] == "bn_read_bin" and len(c[2]) == 3:
                dst, src = key(fn, c[2][0]), key(fn, c[2][1])
                if isinstance(dst, tuple) and dst[0] == "v" and fn.vars[dst[1]]["k"] != "p" \
                        and isinstance(src, tuple) and src[0] == "v" and fn.vars[src[1]]["k"] == "p":
                    out.append(("ev", "dec", dst, fn.vars[src[1]]["n"]))
        return out
    return gen


def narrowing_calls(fn, e, vv):
    """predicate calls P such that the element narrows the verdict with them: V &= P(..), V = V & P(..), V = V && P(..)"""
    out = []
    for sub in ir.walk(fn, e):
        rhs = None
        if sub[0] == "o=" and sub[1] == "&=" and ir.strip_casts(sub[2]) == ["v", vv]:
            rhs = sub[3]
        elif sub[0] == "=" and ir.strip_casts(sub[1]) == ["v", vv]:
            r = ir.peel(fn, sub[2])
            if isinstance(r, list) and r[0] == "b" and r[1] in ("&", "&&"):
                l, rr = ir.peel(fn, r[2]), ir.peel(fn, r[3])
                if l == ["v", vv]:
                    rhs = r[3]
                elif rr == ["v", vv]:
                    rhs = r[2]
        if rhs is not None:
            c = ir.peel(fn, rhs)
            if isinstance(c, list) and c[0] == "c" and c[1]:
                out.append(c)
    return out


def guards_at_accepts(ctx, prog, fn):
    """(verdict var, [(node, text, described atoms, group)])"""
    vv = verdict_var(fn)
    if vv is None:
        return None, []
    g = ctx.xcfg(prog, fn)
    evs0 = accept_events(fn, g, vv, accept_is_zero(fn))
    style_b = (not accept_is_zero(fn)) and any(nd.el.e[0] == "d" or (nd.el.e[0] == "=" and ir.peel(fn, nd.el.e[2])[0] == "i") and not F_has_facts(nd) for nd, _ in evs0) \
        and any(narrowing_calls(fn, el.e, vv) for el in fn.all_elements())
    if style_b:
        return vv, guards_at_return(ctx, prog, fn, g, vv)
    def edge_gen(node, label, atoms):
        # a test of the integer decoded from a parameter is remembered as an event: the local is usually overwritten by
        # the computation that follows (eb = eb^e mod n), the fact that the *decoded* value passed the test stays
        st = engines.CURRENT.edge_state if engines.CURRENT is not None else frozenset()
        out = []
        for a in atoms:
            d = describe_atom(fn, a, st)
            if d is not None and "<dec:" in d[0]:
                out.append(("ev", "hist", d))
        return out
    F = Facts(prog, g, gen=make_gen(fn), mark_thrown=False, edge_gen=edge_gen)
    out = []
    groups = case_groups(fn, g)
    for n, txt in accept_events(fn, g, vv, accept_is_zero(fn)):
        s = F.IN.get(n)
        if s is None:
            continue
        descs = set()
        for a in s:
            if a[0] == "ev" and a[1] == "hist":
                descs.add(a[2])
                continue
            d = describe_atom(fn, a, s)
            if d is not None and "<dec:" not in d[0]:
                descs.add(d)
        out.append((n, txt, descs, groups.get(n.id, "")))
    return vv, out


def F_has_facts(nd):
    return False


def guards_at_return(ctx, prog, fn, g, vv):
    """verifiers that start from "valid" and narrow: the guards are the predicates the verdict was narrowed with on
    every path to the return (paths on which the verdict was set to 0 are rejecting and impose nothing)"""
    base_gen = make_gen(fn)

    def gen(node, s, pre):
        out = list(base_gen(node, s, pre))
        for c in narrowing_calls(fn, node.el.e, vv):
            k = key(fn, c)
            d = describe_key(fn, k, s)
            if d is not None and PRED_CALLS.match(c[1]):
                out.append(("ev", "narrow", d))
        return out

    def kill(node, s):
        # verdict = 0: the rest of the path rejects
        for sub in ir.walk(fn, node.el.e):
            if sub[0] == "=" and ir.strip_casts(sub[1]) == ["v", vv]:
                r = ir.peel(fn, sub[2])
                if isinstance(r, list) and r[0] == "i" and r[1] == 0:
                    return engines.UNIVERSE
        return s
    F = Facts(prog, g, gen=gen, extra_kill=kill, mark_thrown=False)
    out = []
    for p, l in g.exit.pred:
        s = F.IN.get(p)
        if s is None:
            continue
        s2 = F._transfer(p, s)
        if s2 is engines.UNIVERSE:
            continue
        descs = set()
        for a in s2:
            if a[0] == "ev" and a[1] == "narrow":
                descs.add((a[2], "!=", 0))
            else:
                d = describe_atom(fn, a, s2)
                if d is not None:
                    descs.add(d)
        out.append((p, "return %s" % fn.vars[vv]["n"], descs, ""))
    return out


def case_groups(fn, g):
    """for functions dispatching on a parameter named `operation`: {node id: "@k1,k2"} = the case labels of that
    switch from which the node is reachable without leaving the case bodies through the code after the switch"""
    pv = None
    for i in fn.params:
        if fn.vars[i]["n"] == "operation":
            pv = i
    if pv is None:
        return {}
    out = {}
    for n in g.nodes:
        if n.kind != "br":
            continue
        t = n.info.get("term")
        if not t or t["k"] != "SwitchStmt" or t.get("c") is None or key(fn, t["c"]) != ("v", pv):
            continue
        # nodes reachable from every case: the code after the switch
        per = {}
        for m, l in n.succ:
            if isinstance(l, tuple) and l[0] == "case":
                per[l[1]] = engines.reachable_from(g, [m], lambda a, b, lab: lab != "raise")
        if not per:
            continue
        common = None
        for k, r in per.items():
            ids = set(x.id for x in r)
            common = ids if common is None else (common & ids)
        for k, r in per.items():
            for x in r:
                if x.id in common:
                    continue
                out.setdefault(x.id, set()).add(k)
    return {i: "@" + ",".join(str(k) for k in sorted(ks)) for i, ks in out.items()}


def load_table():
    if not os.path.exists(TABLE):
        raise AnalysisBroken("guard table %s is missing" % TABLE)
    with open(TABLE) as fh:
        return json.load(fh)


# ---------------------------------------------------------------------- VER-GUARD
def rule_ver_guard(ctx, prog, chk, table):
    n = 0
    names = set()
    for fn in verifiers(prog):
        base = fn.name.split("__")[-1]
        names.add(base)
        rows = [k for k in table if k == base or k.startswith(base + "@")]
        if not rows:
            chk.note("VER-GUARD: no guard recorded for %s; no claim for that verifier" % base)
            continue
        if not any(table[r]["guards"] for r in rows):
            continue
        vv, evs = guards_at_accepts(ctx, prog, fn)
        if vv is None or not evs:
            raise AnalysisBroken("VER-GUARD: %s has no single verdict variable / accept event any more; its table row must be re-read" % fn.name)
        for row in rows:
            grp = row[len(base):]
            sel = [(nd, txt, descs) for nd, txt, descs, g in evs if g == grp]
            if table[row]["guards"] and not sel:
                raise AnalysisBroken("VER-GUARD: no accept event of %s in group %s any more; its table row must be re-read" % (fn.name, grp or "(all)"))
            for g in table[row]["guards"]:
                n += 1
                missing = [(nd, txt) for nd, txt, descs in sel if not atom_holds(descs, g)]
                obj = "%s%s%s%s" % (grp, g[0], g[1], g[2])
                if missing:
                    nd, txt = missing[0]
                    chk.fail("VER-GUARD", fn, obj, "the verdict can become accepting at `%s` on a path on which the guard %s %s %s does not hold" % (txt, g[0], g[1], g[2]), line=nd.line())
                else:
                    chk.ok("VER-GUARD", fn, obj, "holds at all %d accept event(s)%s" % (len(sel), " of " + grp if grp else ""), line=fn.line)
        # accept events in a group without a table row: a new way to accept
        known = set(r[len(base):] for r in rows)
        for nd, txt, descs, g in evs:
            if g not in known and any(table[r]["guards"] for r in rows):
                chk.fail("VER-GUARD", fn, "new-accept%s" % g, "a new statement `%s` can make the verdict accepting outside the accept events recorded for this verifier" % txt, line=nd.line())
    for row in table:
        base = row.split("@")[0]
        if base not in names and not base.startswith("_"):
            # only relevant in the full library, not in self-test programs
            if prog.library is None:
                raise AnalysisBroken("VER-GUARD: verifier %s of the guard table no longer exists" % base)
    return n


# ---------------------------------------------------------------------- VER-CATCH
def rule_ver_catch(ctx, prog, chk):
    n = 0
    for fn in verifiers(prog):
        if accept_is_zero(fn):
            continue
        vv = verdict_var(fn)
        if vv is None or not fn.constructs:
            continue
        g = ctx.xcfg(prog, fn)
        if is_status_only(fn, g, vv):
            chk.note("VER-CATCH: the integer returned by %s is a status, never set to accept outside a catch-body; no claim" % fn.name)
            continue
        # may-analysis over pairs (went through a catch-body?, verdict may be accepting?)
        start = frozenset([(0, 1)])      # an unassigned verdict may be anything
        IN = {g.entry: start}
        work = [g.entry]
        while work:
            nd = work.pop()
            st = IN[nd]
            out = st
            if nd.kind in ("el", "throw", "br"):
                rg = None
                if nd.el is not None:
                    rg = nd.el.rg
                elif nd.kind == "br" and nd.info.get("term"):
                    rg = nd.info["term"]["rg"]
                if rg and any(r == "C" for r, _ in rg):
                    out = frozenset((1, t) for c, t in out)
            if nd.kind == "el" and not nd.proto:
                for sub in ir.walk(fn, nd.el.e):
                    rhs = None
                    if sub[0] == "=" and ir.strip_casts(sub[1]) == ["v", vv]:
                        rhs = sub[2]
                    elif sub[0] == "d" and sub[1] == vv and sub[2] is not None:
                        rhs = sub[2]
                    if rhs is not None:
                        m = may_accept(fn, rhs, vv, False)
                        if m is None:
                            pass
                        else:
                            out = frozenset((c, 1 if m else 0) for c, t in out)
            for m, label in nd.succ:
                cur = IN.get(m)
                new = out if cur is None else (cur | out)
                if cur is None or new != cur:
                    IN[m] = new
                    work.append(m)
        n += 1
        st = IN.get(g.exit, frozenset())
        if (1, 1) in st:
            # locate a witness: a return edge carrying (1,1)
            ln = fn.line
            for p, l in g.exit.pred:
                if (1, 1) in IN.get(p, ()):
                    ln = p.line() or ln
            chk.fail("VER-CATCH", fn, fn.vars[vv]["n"], "a path through the catch-body returns a verdict that may be accepting (RLC_ERR is 1, i.e. accept; a rethrow outside any handler falls through to the return)", line=ln)
        else:
            chk.ok("VER-CATCH", fn, fn.vars[vv]["n"], "every path through a catch-body returns 0 or leaves by an exception", line=fn.line)
    return n


# ---------------------------------------------------------------------- VER-FAIL
FAIL_NONZERO = re.compile(r"^(gt_cmp|g1_cmp|g2_cmp|ec_cmp|ep_cmp|ep2_cmp|util_cmp_sec|util_cmp_const|memcmp)$")
FAIL_ZERO = re.compile(r"^(gt_is_unity|\w+_is_valid)$")


def rule_ver_fail(ctx, prog, chk):
    """once the verification equation was found not to hold (a comparison against the expected value failed), no
    path returns an accepting verdict — only for verifiers whose *last* decisive comparison is tested in a branch"""
    n = 0
    for fn in verifiers(prog):
        if accept_is_zero(fn) or not re.search(r"_(pd|lv)(pub|prv)_ver$", fn.name.split("__")[-1]):
            continue
        vv = verdict_var(fn)
        if vv is None:
            continue
        g = ctx.xcfg(prog, fn)
        IN = {g.entry: frozenset([(0, 1)])}
        work = [g.entry]
        has = False
        while work:
            nd = work.pop()
            st = IN[nd]
            out = st
            if nd.kind == "el" and not nd.proto:
                for sub in ir.walk(fn, nd.el.e):
                    rhs = None
                    if sub[0] == "=" and ir.strip_casts(sub[1]) == ["v", vv]:
                        rhs = sub[2]
                    elif sub[0] == "d" and sub[1] == vv and sub[2] is not None:
                        rhs = sub[2]
                    if rhs is not None:
                        m = may_accept(fn, rhs, vv, False)
                        if m is not None:
                            out = frozenset((f, 1 if m else 0) for f, t in out)
            for m, label in nd.succ:
                o2 = out
                if nd.kind == "br" and label in ("T", "F"):
                    t = nd.info.get("term")
                    if t and t.get("c") is not None:
                        for a in engines.cond_atoms(fn, t["c"], label == "T"):
                            if a[0] == "cmp" and isinstance(a[1], tuple) and a[1][0] == "c" and isinstance(a[1][1], str):
                                if FAIL_NONZERO.match(a[1][1]) and engines.entails(a[2], a[3], "!=", 0):
                                    has = True
                                    o2 = frozenset((1, t2) for f, t2 in o2)
                cur = IN.get(m)
                new = o2 if cur is None else (cur | o2)
                if cur is None or new != cur:
                    IN[m] = new
                    work.append(m)
        if not has:
            continue
        n += 1
        if (1, 1) in IN.get(g.exit, ()):
            chk.fail("VER-FAIL", fn, fn.vars[vv]["n"], "a path on which the check equation was found not to hold returns a verdict that may be accepting", line=fn.line)
        else:
            chk.ok("VER-FAIL", fn, fn.vars[vv]["n"], "after a failed check equation every return carries 0", line=fn.line)
    return n


# ---------------------------------------------------------------------- VER-AGG
def rule_ver_agg(ctx, prog, chk):
    n = 0
    for fn in verifiers(prog):
        if accept_is_zero(fn):
            continue
        vv = verdict_var(fn)
        if vv is None:
            continue
        g = ctx.xcfg(prog, fn)
        # variables whose value is handed to the verdict (result = flag)
        carriers = {vv}
        changed = True
        while changed:
            changed = False
            for el in fn.all_elements():
                for sub in ir.walk(fn, el.e):
                    if sub[0] == "=" and isinstance(ir.strip_casts(sub[1]), list) and ir.strip_casts(sub[1])[0] == "v" and ir.strip_casts(sub[1])[1] in carriers:
                        r = ir.peel(fn, sub[2])
                        if isinstance(r, list) and r[0] == "v" and r[1] not in carriers and fn.vars[r[1]]["k"] == "l":
                            carriers.add(r[1])
                            changed = True
        events = []
        for cv in carriers:
            events += [(nd, txt, cv) for nd, txt in accept_events(fn, g, cv, False)]
        for nd, txt, vv in events:
            rhs_mentions = any(x == ["v", vv] for x in ir.walk(fn, nd.el.e) if x != ir.strip_casts(nd.el.e[1] if nd.el.e[0] == "=" else None))
            if not in_cycle(nd):
                continue
            n += 1
            # accepted forms: the new value depends on the old verdict, or the assignment is a constant accept
            # guarded by the old verdict being tested; a call result stored unconditionally overwrites earlier rejects
            e = nd.el.e
            plain_call = e[0] == "=" and isinstance(ir.peel(fn, e[2]), list) and ir.peel(fn, e[2])[0] == "c"
            uses_old = any(x == ["v", vv] for x in ir.walk(fn, e[2] if e[0] == "=" else e))
            if plain_call and not uses_old:
                chk.fail("VER-AGG", fn, fn.vars[vv]["n"], "inside a loop the verdict is overwritten by `%s`: a rejection in an earlier iteration is lost" % txt, line=nd.line())
            else:
                chk.ok("VER-AGG", fn, fn.vars[vv]["n"], "verdict update in a loop does not discard earlier rejections", line=nd.line())
    return n


def in_cycle(nd):
    seen = set()
    work = [m for m, l in nd.succ if l != "raise"]
    while work:
        x = work.pop()
        if x is nd:
            return True
        if x.id in seen:
            continue
        seen.add(x.id)
        for m, l in x.succ:
            if l != "raise":
                work.append(m)
    return False


# ---------------------------------------------------------------------- STATUS-USE
def status_functions(prog):
    """int functions all of whose returns are RLC_OK/RLC_ERR constants or the value of a local assigned only those"""
    out = set()
    fns = list(prog.all) + (list(prog.library.all) if prog.library is not None else [])
    for fn in fns:
        if fn.ret != "int":
            continue
        base = fn.name
        # statuses of *checking* operations: verifiers, padding checkers, authenticated/padded decryption
        if not (re.match(r"^cp_\w+_ver$", base) or base in PADS or base in ("bc_aes_cbc_dec", "padDecrypt")):
            continue
        out.add(base)
    return out


def rule_status_use(ctx, prog, chk):
    st = status_functions(prog)
    n = 0
    for fn in prog.all:
        refd = set()
        for el in fn.all_elements():
            for sub in ir.walk(fn, el.e):
                if sub[0] == "r":
                    refd.add(sub[1])
        for b in fn.blocks.values():
            if b.term and b.term.get("c") is not None:
                for sub in ir.walk(fn, b.term["c"]):
                    if sub[0] == "r":
                        refd.add(sub[1])
        ordinal = {}
        for el in fn.all_elements():
            e = el.e
            if e[0] == "c" and e[1] in st and (e[1] not in PADS or re.search(r"_(ver|dec)$", fn.name)):
                k = ordinal.get(e[1], 0)
                ordinal[e[1]] = k + 1
                n += 1
                obj = "%s#%d" % (e[1], k)
                if el.id in refd:
                    chk.ok("STATUS-USE", fn, obj, "status consumed", line=el.line)
                else:
                    chk.fail("STATUS-USE", fn, obj, "the status returned by %s is discarded" % e[1], line=el.line)
            else:
                for c in ir.calls_in(fn, e):
                    if c is not e and c[1] in st:
                        n += 1
                        chk._count("STATUS-USE", fn, True)
    return n


# ---------------------------------------------------------------------- entry points
def analyse(ctx, prog, chk, table=None):
    chk.used_program(prog)
    table = table if table is not None else load_table()
    from . import c05_rsa
    out = {"guards": rule_ver_guard(ctx, prog, chk, table), "catch": rule_ver_catch(ctx, prog, chk),
           "agg": rule_ver_agg(ctx, prog, chk), "status": rule_status_use(ctx, prog, chk), "fail": rule_ver_fail(ctx, prog, chk)}
    out.update(c05_rsa.analyse(ctx, prog, chk))
    from . import c05_trunc
    out["trunc"] = c05_trunc.analyse(ctx, prog, chk)
    return out


def selfcheck(ctx, prog, chk):
    # every miniature is a variant of one verifier, cp_st_ver(r, s, msg, len, q), checked against one row
    row = {"guards": [["bn_sign(r)", "==", 0], ["bn_is_zero(r)", "==", 0], ["bn_cmp(r,<ord>)", "<", 0], ["ep_on_curve(q)", "!=", 0]]}
    # ... and of cp_sd_ver(sig, sig_len, msg, len, n), whose signature representative is decoded into a local
    row_dec = {"guards": [["bn_cmp(<dec:sig>,n)", "==", -1]]}
    table = {}
    for fn in verifiers(prog):
        base = fn.name.split("__")[-1]
        table[base] = row_dec if base == "cp_sd_ver" else ({"guards": []} if base in ("cp_rsa_ver", "pad_pkcs2", "cp_ecss_ver") else row)
    analyse(ctx, prog, chk, table)


def run(ctx, chk):
    c = analyse(ctx, ctx.program("BASE"), chk)
    chk.floor("VER-GUARD", "guard obligations", c["guards"], 20)
    chk.floor("VER-CATCH", "verifiers with a catch-body", c["catch"], 22)
    chk.floor("STATUS-USE", "status call sites of checking operations", c["status"], 10)
    chk.floor("TRUNC", "ECDSA entry points", c["trunc"], 2)
    chk.floor("PSS-BITS", "loops over the leftmost bits of the PSS encoded message", c["bits"], 3)
    chk.floor("PSS-EMLEN", "sign / verify pairs of the PSS encoded-message length", c["emlen"], 1)
