"""C07 — decoding validates untrusted bytes; encoding is canonical.

Rules (DESIGN.md section 3, C07):
  DEC-VALID   point decoders: every accepting path carries on_curve(a) (or set_infty(a)) with no later write to a
  DEC-LEN     every accepting path of a fixed-length decoder has positively matched `len` against a constant
  DEC-TAG     a decoder that branches on an input byte has positively matched it on every accepting path
  TAG-AGREE   tags accepted by the decoder are tags the encoder can write
  DEC-COVER   for every accepted length L the bytes consumed are exactly [0, L)
  LEN-AGREE   lengths advertised by X_size_bin = lengths accepted by X_read_bin, and the encoder compares len with each
  ENC-LEN     every store through the caller's buffer is preceded by a sufficient test of the caller's length
  RANGE-FP    fp_read_bin writes the element only after sign and `< p` tests on the decoded integer
  RANGE-FB    fb_read_bin/fb_read_str write the element only after a degree < m test on the decoded integer
An "accepting path" is a path to a normal return on which no THROW was executed.
"""
import re

from .. import ir, engines
from ..engines import Facts, key, holds_cmp
from ..facts import AnalysisBroken

EXPLANATION = (
    "Static decision of the validation/length clauses of C07 on every path of every *_read_bin / *_write_bin / *_size_bin "
    "of the library (22 decoders, 22 encoders, all curve and field types incl. those no test configuration instantiates): "
    "forward must-dataflow with branch atoms over the exploded CFG (exceptional edges included). Decides that no decoder "
    "can return normally, without having thrown, with an unvalidated point, an unmatched tag byte or an unmatched length; "
    "that accepted tags/lengths are the ones the encoder writes and size_bin advertises; that every accepted byte is "
    "consumed; that encoders test the caller's length before the first store. Does not decide decode(encode(x)) = x as "
    "values, canonical reduction inside the arithmetic, nor radix conversion arithmetic. Nothing of RELIC is executed.")

ONCURVE = re.compile(r"^(ep\d*|eb|ed)_on_curve$")
SETINF = re.compile(r"^(ep\d*|eb|ed)_set_infty$")
POINT_TYPES = re.compile(r"^(const )?(ep\d*|eb|ed)_t$")
VARLEN_DECODERS = {"bn_read_bin"}       # arbitrary-length integers: no fixed length to match


# ---------------------------------------------------------------------- function sets
def codec_params(fn):
    """(obj, bin, len) variable indices of a decoder/encoder, or None"""
    binv = lenv = obj = None
    for i in fn.params:
        v = fn.vars[i]
        c = v["c"]
        if binv is None and c in ("const unsigned char *", "unsigned char *", "char *", "const char *"):
            binv = i
        elif binv is not None and lenv is None and c in ("unsigned long", "int", "unsigned int", "long", "size_t"):
            lenv = i
    for i in fn.params:
        v = fn.vars[i]
        if i != binv and i != lenv and ("pc" in v):
            obj = i
            break
    if binv is None or lenv is None:
        return None
    return obj, binv, lenv


def decoders(prog):
    out = []
    for fn in prog.all:
        if fn.name.endswith("_read_bin") and codec_params(fn) and codec_params(fn)[0] is not None:
            out.append(fn)
    return out


def encoders(prog):
    out = []
    for fn in prog.all:
        if (fn.name.endswith("_write_bin") or fn.name.endswith("_write_str")) and codec_params(fn):
            out.append(fn)
    return out


def sibling(prog, fn, suffix_from, suffix_to):
    prefix = fn.name[:-len(suffix_from)]
    g = prog.get(prefix + suffix_to, near=fn)
    if g is None and "__" in prefix:
        g = prog.get(prefix.split("__")[-1] + suffix_to)
    return g


def is_point_decoder(fn, obj):
    ot = fn.vars[obj].get("ot", "")
    return bool(POINT_TYPES.match(ot))


# ---------------------------------------------------------------------- decoder analysis
class DecoderFacts:
    """facts of one decoder in the world `len == w` (w None: all worlds)"""

    def __init__(self, ctx, prog, fn, world=None):
        self.fn = fn
        self.prog = prog
        self.obj, self.bin, self.len = codec_params(fn)
        self.g = ctx.xcfg(prog, fn)
        self.lenkey = ("v", self.len)
        self.world = world
        self.tag_edges = []     # (node, label, const, indexkey)
        self.follow = engines.world_follow(fn, self.lenkey, world) if world is not None else None
        self.F = Facts(prog, self.g, gen=self._gen, edge_gen=self._edge_gen, follow=self.follow)

    def _is_bin_byte(self, k):
        return isinstance(k, tuple) and len(k) == 3 and k[0] == "x" and k[1] == ("v", self.bin)

    def _edge_gen(self, node, label, atoms):
        out = []
        t = node.info.get("term")
        if self.world is not None and t and t.get("c") is not None:
            rs, unknown = reads_of(self, t["c"], self.world)
            for a, b in rs:
                out.append(("ev", "read", a, b))
        for a in atoms:
            if a[0] == "cmp" and a[2] == "==" and self._is_bin_byte(a[1]):
                out.append(("ev", "tag"))
                self.tag_edges.append((node, label, a[3], a[1][2]))
            elif a[0] == "cmp" and a[2] in ("<=", "<") and self._is_bin_byte(a[1]) and isinstance(a[3], int) and a[3] <= 8:
                # an (unsigned) input byte bounded to a handful of values: each of 0..k is a known value
                out.append(("ev", "tag"))
                for v in range(0, a[3] + (1 if a[2] == "<=" else 0)):
                    self.tag_edges.append((node, label, v, a[1][2]))
        return out

    def _gen(self, node, s, pre=None):
        out = []
        for c in ir.calls_in(self.fn, node.el.e):
            if c[1] and SETINF.match(c[1]) and c[2] and ir.base_var(self.fn, c[2][0]) == self.obj:
                out.append(("ev", "infty", ("v", self.obj)))
        if self.world is not None:
            rs, unknown = reads_of(self, node.el.e, self.world)
            for a, b in rs:
                out.append(("ev", "read", a, b))
            if unknown:
                out.append(("ev", "read?"))
        return out

    def branches_on_input(self):
        for n in self.g.nodes:
            if n.kind == "br" and self.F.IN.get(n) is not None:
                t = n.info.get("term")
                if t and t.get("c") is not None:
                    k = key(self.fn, t["c"])
                    if self._mentions_bin_byte(k):
                        return True
        return False

    def _mentions_bin_byte(self, k):
        if not isinstance(k, tuple):
            return False
        if self._is_bin_byte(k):
            return True
        return any(self._mentions_bin_byte(x) for x in k if isinstance(x, tuple))

    def facts_into_exit(self):
        """list of (pred node, facts along that edge)"""
        out = []
        for n, l in self.g.exit.pred:
            s = self.F.IN.get(n)
            if s is None:
                continue
            if self.follow is not None and not self.follow(n, self.g.exit, l):
                continue
            s2 = self.F._transfer(n, s)
            s2 = self.F._edge(n, l, self.g.exit, s2)
            out.append((n, s2))
        return out

    def accepting_reachable_from(self, node, label):
        """is the normal exit reachable from the edge (node,label) without passing a throw?"""
        starts = [m for m, l in node.succ if l == label]
        seen = set(starts)
        work = list(starts)
        while work:
            n = work.pop()
            if n.kind == "exit":
                return True
            if n.kind == "throw":
                continue
            for m, l in n.succ:
                if l == "raise":
                    continue
                if self.follow is not None and not self.follow(n, m, l):
                    continue
                if m not in seen:
                    seen.add(m)
                    work.append(m)
        return False


def last_line(fn, n):
    ln = n.line()
    return ln if ln else fn.endline


def len_constants(fn, g, lenkey):
    ks = set()
    for n in g.nodes:
        if n.kind != "br":
            continue
        t = n.info.get("term")
        if not t or t.get("c") is None:
            continue
        for truth in (True, False):
            for a in engines.cond_atoms(fn, t["c"], truth):
                if a[0] == "cmp" and a[1] == lenkey and isinstance(a[3], int):
                    ks.add(a[3])
        if key(fn, t["c"]) == lenkey:
            for _, l in n.succ:
                if isinstance(l, tuple) and l[0] == "case" and isinstance(l[1], int):
                    ks.add(l[1])
    return ks


def fmt_facts(fn, s):
    return "facts at that point: " + ", ".join(sorted(engines.fmt_atom(fn, a) for a in s))[:300]


def rule_decoders(ctx, prog, chk):
    decs = decoders(prog)
    npoint = 0
    info = {}
    for fn in decs:
        obj, binv, lenv = codec_params(fn)
        g = ctx.xcfg(prog, fn)
        lenkey = ("v", lenv)
        if fn.name in VARLEN_DECODERS:
            continue
        ks = len_constants(fn, g, lenkey)
        worlds = set(ks)
        for k in ks:
            worlds.add(k - 1)
            worlds.add(k + 1)
        worlds.add(0)
        worlds.add(max(ks, default=0) + 100003)
        worlds = sorted(w for w in worlds if w >= 0)
        accepted = []
        per_world = {}
        for w in worlds:
            D = DecoderFacts(ctx, prog, fn, world=w)
            exits = D.facts_into_exit()
            acc = [(n, s) for n, s in exits if s is not engines.UNIVERSE]
            if acc:
                accepted.append(w)
                per_world[w] = (D, acc)
        info[fn.name] = accepted
        # ---- DEC-LEN: the accepted lengths are constants the decoder compares len with
        stray = [w for w in accepted if w not in ks]
        if stray:
            D, acc = per_world[stray[0]]
            n, s = acc[0]
            chk.fail("DEC-LEN", fn, "len", "input of length %d (a length the decoder never compares `%s` with) reaches a normal return without error; accepted lengths should be exactly the advertised constants %s" % (
                stray[0], fn.vars[lenv]["n"], sorted(ks)), line=last_line(fn, n), trace=[fmt_facts(fn, s)])
        elif not accepted:
            chk.fail("DEC-LEN", fn, "len", "decoder accepts no length at all", line=fn.line)
        else:
            chk.ok("DEC-LEN", fn, "len", "worlds len in %s analysed: accepted exactly %s, every other length ends in a throw" % (worlds, accepted), line=fn.line)
        point = is_point_decoder(fn, obj)
        if point:
            npoint += 1
        enc = sibling(prog, fn, "_read_bin", "_write_bin")
        acc_tags = set()
        tagged = False
        bad_valid = bad_tag = None
        for w in accepted:
            if w not in ks:
                continue
            D, acc = per_world[w]
            # ---- DEC-VALID
            if point:
                okey = ("v", obj)
                for n, s in acc:
                    if ("ev", "infty", okey) in s:
                        continue
                    ok = False
                    for a in s:
                        if a[0] == "cmp" and isinstance(a[1], tuple) and a[1][0] == "c" and isinstance(a[1][1], str) and ONCURVE.match(a[1][1]) \
                                and a[1][2] and a[1][2][0] == okey and engines.entails(a[2], a[3], "!=", 0):
                            ok = True
                    if not ok and bad_valid is None:
                        bad_valid = (w, n, s)
            # ---- DEC-TAG
            if D.branches_on_input():
                tagged = True
                for n, s in acc:
                    if ("ev", "tag") not in s and bad_tag is None:
                        bad_tag = (w, n, s)
                for n, l, kv, idx in D.tag_edges:
                    if idx == ("i", 0) and D.accepting_reachable_from(n, l):
                        acc_tags.add(kv)
            # ---- DEC-COVER
            cov_all, unknown, over = coverage(D, w)
            # bytes read on *every* accepting path (must-facts at the accepting returns)
            cov = None
            for n, s in acc:
                rs = set((a[2], a[3]) for a in s if a[0] == "ev" and a[1] == "read")
                cov = rs if cov is None else (cov & rs)
                if ("ev", "read?") in s:
                    unknown = True
            cov = sorted(cov or ())
            if unknown:
                chk.note("DEC-COVER: %s reads the buffer at a non-constant offset for len=%d; no claim for that length" % (fn.name, w))
            else:
                gaps = uncovered(cov, w)
                if over:
                    chk.fail("DEC-COVER", fn, "len=%d" % w, "reads byte range %s beyond the accepted length %d" % (over, w), line=fn.line)
                elif gaps:
                    chk.fail("DEC-COVER", fn, "len=%d" % w, "accepts %d bytes but never reads bytes %s: they can be altered without changing the decoded object, so re-encoding cannot reproduce the input" % (w, ", ".join(gaps)), line=fn.line)
                else:
                    chk.ok("DEC-COVER", fn, "len=%d" % w, "bytes consumed cover exactly [0,%d)" % w, line=fn.line)
        if point:
            if bad_valid:
                w, n, s = bad_valid
                chk.fail("DEC-VALID", fn, fn.vars[obj]["n"], "for len=%d a path returns a decoded point without error that was not checked with *_on_curve after its last write" % w,
                         line=last_line(fn, n), trace=[fmt_facts(fn, s)])
            else:
                chk.ok("DEC-VALID", fn, fn.vars[obj]["n"], "every accepting return (lengths %s) carries on_curve(%s) or set_infty(%s)" % (accepted, fn.vars[obj]["n"], fn.vars[obj]["n"]), line=fn.line)
        if tagged:
            if bad_tag:
                w, n, s = bad_tag
                chk.fail("DEC-TAG", fn, "tag", "for len=%d a path returns normally although the tag byte matched none of the known values (missing default/else that throws)" % w,
                         line=last_line(fn, n), trace=[fmt_facts(fn, s)])
            else:
                chk.ok("DEC-TAG", fn, "tag", "every accepting return has matched the tag byte against a constant", line=fn.line)
            if enc is not None:
                written = encoder_tags(prog, enc)
                if written is None:
                    chk.note("TAG-AGREE: tags written by %s could not be evaluated; no claim for %s" % (enc.name, fn.name))
                elif not acc_tags <= written:
                    chk.fail("TAG-AGREE", fn, "tags", "decoder accepts tag value(s) %s that %s never writes (writes %s)" % (sorted(acc_tags - written), enc.name, sorted(written)), line=fn.line)
                else:
                    chk.ok("TAG-AGREE", fn, "tags", "accepted tags %s are a subset of the tags %s written by %s" % (sorted(acc_tags), sorted(written), enc.name), line=fn.line)
    return decs, npoint, info


def encoder_tags(prog, enc):
    """set of constants the encoder can store into bin[0] (0 through memset)"""
    p = codec_params(enc)
    if p is None:
        return None
    _, binv, _ = p
    out = set()
    for el in enc.all_elements():
        for n in ir.walk(enc, el.e):
            if n[0] == "=":
                l = n[1]
                if l[0] == "x" and ir.base_var(enc, l[1]) == binv:
                    idx = ir.strip_casts(enc.resolve(l[2]))
                    if idx[0] == "i" and idx[1] == 0:
                        vs = small_values(enc, n[2])
                        if vs is None:
                            return None
                        out |= vs
            elif n[0] == "c" and n[1] == "memset" and ir.base_var(enc, n[2][0]) == binv:
                v = ir.strip_casts(enc.resolve(n[2][1]))
                if v[0] == "i":
                    out.add(v[1])
    return out


def small_values(fn, e):
    e = ir.strip_casts(fn.resolve(e))
    if not isinstance(e, list):
        return None
    if e[0] == "i" and isinstance(e[1], int):
        return {e[1]}
    if e[0] == "c" and e[1] and re.search(r"_get_bit$", e[1]):
        return {0, 1}
    if e[0] == "b" and e[1] in ("|", "+", "&", "^"):
        a, b = small_values(fn, e[2]), small_values(fn, e[3])
        if a is None or b is None:
            return None
        f = {"|": lambda x, y: x | y, "+": lambda x, y: x + y, "&": lambda x, y: x & y, "^": lambda x, y: x ^ y}[e[1]]
        return {f(x, y) for x in a for y in b}
    if e[0] == "?" and len(e) == 4:
        a, b = small_values(fn, e[2]), small_values(fn, e[3])
        if a is None or b is None:
            return None
        return a | b
    return None


def reads_of(D, e, L):
    """constant byte ranges of `bin` read by element tree e in the world len == L"""
    fn = D.fn
    ranges = []
    unknown = False
    for sub in ir.walk(fn, e):
        if sub[0] == "x" and ir.base_var(fn, sub[1]) == D.bin:
            idx = ir.strip_casts(fn.resolve(sub[2]))
            base_off = const_offset(fn, sub[1], D.bin)
            if idx[0] == "i" and isinstance(idx[1], int) and base_off is not None:
                ranges.append((base_off + idx[1], base_off + idx[1] + 1))
            else:
                unknown = True
        elif sub[0] == "c":
            for i, a in enumerate(sub[2]):
                if ir.base_var(fn, a) != D.bin:
                    continue
                aa = ir.strip_casts(fn.resolve(a))
                if aa[0] == "x" or (aa[0] == "u" and aa[1] == "*"):
                    continue
                off = const_offset(fn, a, D.bin)
                nn = None
                if i + 1 < len(sub[2]):
                    la = ir.strip_casts(fn.resolve(sub[2][i + 1]))
                    if la[0] == "i" and isinstance(la[1], int):
                        nn = la[1]
                    elif la == ["v", D.len]:
                        nn = L
                if off is None or nn is None:
                    unknown = True
                else:
                    ranges.append((off, off + nn))
    return ranges, unknown


def coverage(D, L):
    """byte ranges of `bin` read on paths consistent with len == L.
    Returns (ranges, unknown_offset_seen, ranges_beyond_L)"""
    fn, g = D.fn, D.g
    lenkey = D.lenkey

    reach = engines.reachable_from(g, [g.entry], lambda n, m, label: label != "raise" and D.follow(n, m, label))
    # only nodes from which an accepting exit is reachable matter; keep it simple: all reachable, non-throw
    ranges = []
    unknown = False
    for n in reach:
        if n.kind == "br":
            t = n.info.get("term")
            exprs = [t["c"]] if t and t.get("c") is not None else []
        elif n.kind == "el" and not n.proto:
            exprs = [n.el.e]
        else:
            continue
        for e in exprs:
            for sub in ir.walk(fn, e):
                if sub[0] == "x" and ir.base_var(fn, sub[1]) == D.bin:
                    idx = ir.strip_casts(fn.resolve(sub[2]))
                    base_off = const_offset(fn, sub[1], D.bin)
                    if idx[0] == "i" and isinstance(idx[1], int) and base_off is not None:
                        ranges.append((base_off + idx[1], base_off + idx[1] + 1))
                    else:
                        unknown = True
                elif sub[0] == "c":
                    for i, a in enumerate(sub[2]):
                        if ir.base_var(fn, a) != D.bin:
                            continue
                        aa = ir.strip_casts(fn.resolve(a))
                        if aa[0] == "x" or (aa[0] == "u" and aa[1] == "*"):
                            continue    # a byte value, accounted for as an indexed read
                        off = const_offset(fn, a, D.bin)
                        nn = None
                        if i + 1 < len(sub[2]):
                            la = ir.strip_casts(fn.resolve(sub[2][i + 1]))
                            if la[0] == "i" and isinstance(la[1], int):
                                nn = la[1]
                            elif la == ["v", D.len]:
                                nn = L
                        if off is None or nn is None:
                            unknown = True
                        else:
                            ranges.append((off, off + nn))
    over = [r for r in ranges if r[1] > L]
    return ranges, unknown, over


def const_offset(fn, e, binv):
    """constant byte offset of pointer expression e relative to parameter bin"""
    e = ir.strip_casts(fn.resolve(e))
    if e == ["v", binv]:
        return 0
    if e[0] == "b" and e[1] == "+":
        l, r = ir.strip_casts(fn.resolve(e[2])), ir.strip_casts(fn.resolve(e[3]))
        if r[0] == "i" and isinstance(r[1], int):
            o = const_offset(fn, l, binv)
            return None if o is None else o + r[1]
        if l[0] == "i" and isinstance(l[1], int):
            o = const_offset(fn, r, binv)
            return None if o is None else o + l[1]
    if e[0] == "u" and e[1] == "&":
        x = ir.strip_casts(e[2])
        if x[0] == "x":
            o = const_offset(fn, x[1], binv)
            idx = ir.strip_casts(fn.resolve(x[2]))
            if o is not None and idx[0] == "i":
                return o + idx[1]
    return None


def uncovered(ranges, L):
    covered = [False] * L
    for a, b in ranges:
        for i in range(max(a, 0), min(b, L)):
            covered[i] = True
    gaps = []
    i = 0
    while i < L:
        if not covered[i]:
            j = i
            while j < L and not covered[j]:
                j += 1
            gaps.append("[%d,%d)" % (i, j))
            i = j
        else:
            i += 1
    return gaps


# ---------------------------------------------------------------------- encoders
def write_events(prog, fn, binv, lenv):
    """(node-independent) description of writes through bin in element tree:
    yields (kind, need or None, text) where need = number of leading bytes required"""
    pass


def rule_encoders(ctx, prog, chk):
    encs = encoders(prog)
    guards = {}
    for fn in encs:
        obj, binv, lenv = codec_params(fn)
        g = ctx.xcfg(prog, fn)
        lenkey = ("v", lenv)
        consts = set()

        def edge_gen(node, label, atoms, consts=consts, lenkey=lenkey):
            out = []
            for a in atoms:
                if a[0] == "cmp" and a[1] == lenkey:
                    if a[2] in (">=", "=="):
                        consts.add(a[3])
                    elif a[2] == ">":
                        consts.add(a[3] + 1)
                # a lower bound of the caller's length against a computed size: remembered as an
                # event so that a later `len = size` (fb_write_str) does not forget the test
                if a[0] == "rel" and ((a[1] == lenkey and a[2] in (">=", ">", "==")) or (a[3] == lenkey and a[2] in ("<=", "<", "=="))):
                    out.append(("ev", "lenguard"))
            return out
        F = Facts(prog, g, edge_gen=edge_gen, mark_thrown=False)
        guards[fn.name] = consts
        bad = []
        nwrites = 0
        for n in g.nodes:
            if n.kind != "el" or n.proto:
                continue
            s = F.IN.get(n)
            if s is None:
                continue
            for kind, need, txt in bin_writes(prog, fn, n.el.e, binv, lenv):
                nwrites += 1
                if kind == "delegated":
                    continue
                if not len_guard_ok(s, lenkey, need):
                    bad.append((n, txt, need, s))
        if bad:
            n, txt, need, s = bad[0]
            chk.fail("ENC-LEN", fn, "bin", "store through the caller's buffer (%s%s) is not preceded on every path by a sufficient test of `%s`" % (
                txt, ", needs %d bytes" % need if need is not None else "", fn.vars[lenv]["n"]), line=n.line(),
                trace=["facts there: " + ", ".join(sorted(engines.fmt_atom(fn, a) for a in s))[:300]])
        elif nwrites:
            chk.ok("ENC-LEN", fn, "bin", "%d write(s) through the buffer, each guarded by a sufficient test of the length or delegated with (bin,len)" % nwrites, line=fn.line)
    return encs, guards


def bin_writes(prog, fn, e, binv, lenv):
    out = []
    for n in ir.walk(fn, e):
        t = n[0]
        if t in ("=", "o="):
            lhs = n[1] if t == "=" else n[2]
            l = ir.strip_casts(lhs)
            if isinstance(l, list) and l[0] in ("x", "u") and ir.base_var(fn, l) == binv and l != ["v", binv]:
                need = None
                if l[0] == "x":
                    off = const_offset(fn, l[1], binv)
                    idx = ir.strip_casts(fn.resolve(l[2]))
                    if off is not None and idx[0] == "i" and isinstance(idx[1], int):
                        need = off + idx[1] + 1
                out.append(("store", need, fn.fmt(lhs)))
        elif t == "c":
            for i, a in enumerate(n[2]):
                if ir.base_var(fn, a) != binv:
                    continue
                aa = ir.strip_casts(fn.resolve(a))
                if n[1] and not engines.callee_writes_arg(prog, fn, n[1], i):
                    continue
                off = const_offset(fn, aa, binv)
                # which argument is the length of this buffer?
                li = None
                if n[1] in ("memset", "memcpy", "memmove"):
                    li = 2
                elif i + 1 < len(n[2]):
                    li = i + 1
                ln = ir.strip_casts(fn.resolve(n[2][li])) if li is not None and li < len(n[2]) else None
                if off == 0 and ln == ["v", lenv]:
                    out.append(("delegated", None, fn.fmt(n)[:60]))
                    continue
                need = None
                if off is not None and ln is not None and ln[0] == "i" and isinstance(ln[1], int):
                    need = off + ln[1]
                out.append(("call", need, fn.fmt(n)[:60]))
    return out


def len_guard_ok(s, lenkey, need):
    if need is None and ("ev", "lenguard") in s:
        return True
    for a in s:
        if a[0] == "cmp" and a[1] == lenkey:
            if need is None:
                if a[2] in (">=", ">", "=="):
                    return True
            else:
                if engines.entails(a[2], a[3], ">=", need):
                    return True
        elif a[0] == "rel":
            if a[1] == lenkey and a[2] in (">=", ">", "=="):
                return True
            if a[3] == lenkey and a[2] in ("<=", "<", "=="):
                return True
    return False


# ---------------------------------------------------------------------- LEN-AGREE
def size_values(ctx, prog, fn):
    g = ctx.xcfg(prog, fn)
    IN, ev = engines.const_sets(g)
    out = set()
    for n in g.nodes:
        if n.kind == "el" and n.el.e[0] == "ret" and n.el.e[1] is not None and n in IN:
            v = ev(n.el.e[1], IN[n])
            if v == engines.TOPV:
                return None
            out |= set(v)
    return out


def rule_len_agree(ctx, prog, chk, info, guards):
    n = 0
    for fn in prog.all:
        if not fn.name.endswith("_size_bin"):
            continue
        dec = sibling(prog, fn, "_size_bin", "_read_bin")
        enc = sibling(prog, fn, "_size_bin", "_write_bin")
        if dec is None or enc is None or dec.name in VARLEN_DECODERS:
            continue
        sv = size_values(ctx, prog, fn)
        if sv is None:
            chk.note("LEN-AGREE: return value of %s is not a set of constants; no claim" % fn.name)
            continue
        sv.discard(0)       # value of the local before the try-body assigns it (exceptional path only)
        if dec.name not in info:
            continue
        n += 1
        acc = set(info[dec.name])
        wg = guards.get(enc.name, set())
        msgs = []
        if sv - acc:
            msgs.append("%s advertises length(s) %s that %s rejects (accepts %s)" % (fn.name, sorted(sv - acc), dec.name, sorted(acc)))
        if acc - sv:
            msgs.append("%s accepts length(s) %s that %s never advertises (%s)" % (dec.name, sorted(acc - sv), fn.name, sorted(sv)))
        if sv - wg:
            msgs.append("%s advertises length(s) %s that %s never tests for (tests %s)" % (fn.name, sorted(sv - wg), enc.name, sorted(wg)))
        if msgs:
            chk.fail("LEN-AGREE", fn, "lengths", "; ".join(msgs), line=fn.line)
        else:
            chk.ok("LEN-AGREE", fn, "lengths", "size_bin %s = read_bin %s, all tested by write_bin %s" % (sorted(sv), sorted(acc), sorted(wg)), line=fn.line)
    return n


# ---------------------------------------------------------------------- RANGE-FP
def rule_range_fp(ctx, prog, chk, names=("fp_read_bin",)):
    n = 0
    for fn in prog.all:
        base = fn.name.split("__")[-1]
        if base not in names:
            continue
        obj, binv, lenv = codec_params(fn)
        g = ctx.xcfg(prog, fn)
        F = Facts(prog, g)
        bad = []
        writes = 0
        for nd in g.nodes:
            if nd.kind != "el" or nd.proto:
                continue
            s = F.IN.get(nd)
            if s is None:
                continue
            w = F.writes(nd)
            if obj not in w:
                continue
            writes += 1
            lt = sign = False
            for a in s:
                if a[0] != "cmp":
                    continue
                k = a[1]
                if isinstance(k, tuple) and k[0] == "c" and k[1] == "bn_cmp" and len(k[2]) == 2 and "prime" in repr(k[2][1]) and engines.entails(a[2], a[3], "==", -1):
                    lt = True
                if isinstance(k, tuple) and k[0] == "m" and k[2] == "sign" and engines.entails(a[2], a[3], "!=", 1):
                    sign = True
                if isinstance(k, tuple) and k[0] == "c" and k[1] == "bn_sign" and engines.entails(a[2], a[3], "!=", 1):
                    sign = True
            if not (lt and sign):
                bad.append((nd, lt, sign, s))
        n += 1
        if bad:
            nd, lt, sign, s = bad[0]
            chk.fail("RANGE-FP", fn, fn.vars[obj]["n"], "field element written without a dominating %s test on the decoded integer" % ("`< p`" if not lt else "sign"),
                     line=nd.line(), trace=["facts there: " + ", ".join(sorted(engines.fmt_atom(fn, a) for a in s))[:300]])
        elif writes:
            chk.ok("RANGE-FP", fn, fn.vars[obj]["n"], "%d write(s) of the element, each dominated by sign != NEG and bn_cmp(t, p) == RLC_LT" % writes, line=fn.line)
        else:
            chk.fail("RANGE-FP", fn, fn.vars[obj]["n"], "decoder never writes its output", line=fn.line)
    return n


# ---------------------------------------------------------------------- RANGE-FB
def conf_int(prog, name):
    m = re.search(r"^#define\s+%s\s+(\d+)" % name, prog.data["conf_h"], re.M)
    return int(m.group(1)) if m else None


def rule_range_fb(ctx, prog, chk, names=("fb_read_bin", "fb_read_str")):
    n = 0
    m = conf_int(prog, "FB_POLYN")
    if m is None:
        return 0
    for fn in prog.all:
        base = fn.name.split("__")[-1]
        if base not in names:
            continue
        obj = fn.params[0]
        g = ctx.xcfg(prog, fn)
        F = Facts(prog, g)
        bad = []
        writes = 0
        for nd in g.nodes:
            if nd.kind != "el" or nd.proto:
                continue
            s = F.IN.get(nd)
            if s is None or s is engines.UNIVERSE:
                continue
            if obj not in F.writes(nd):
                continue
            # clearing the element is not a write of decoded data
            e = nd.el.e
            if e[0] == "c" and e[1] in ("fb_zero",):
                continue
            writes += 1
            ok = False
            for a in s:
                if a[0] == "cmp" and isinstance(a[1], tuple) and a[1][0] == "c" and a[1][1] == "bn_bits" and engines.entails(a[2], a[3], "<=", m):
                    ok = True
            if not ok:
                bad.append((nd, s))
        n += 1
        if bad:
            nd, s = bad[0]
            chk.fail("RANGE-FB", fn, fn.vars[obj]["n"], "binary-field element written from decoded data without a dominating test that its degree is below m = %d (bn_bits(t) <= RLC_FB_BITS)" % m,
                     line=nd.line(), trace=[fmt_facts(fn, s)])
        elif writes:
            chk.ok("RANGE-FB", fn, fn.vars[obj]["n"], "%d write(s) of the element, each dominated by bn_bits(t) <= %d" % (writes, m), line=fn.line)
        else:
            chk.fail("RANGE-FB", fn, fn.vars[obj]["n"], "decoder never writes its output", line=fn.line)
    return n


# ---------------------------------------------------------------------- entry points
POINT_ENC = re.compile(r"^(ep\d*|eb|ed)_write_bin$")
ENC_MAY_TAKE_INPUT = re.compile(r"_(is_infty|is_valid|on_curve|cmp|norm|size_bin|copy)$")     # predicates, sizing, and the normalisation itself


def rule_enc_norm(ctx, prog, chk):
    """ENC-NORM: a point encoder reads the coordinates it writes from its normalised copy: once the encoder normalises
    (X_norm(t, a)), the input point itself is only ever handed to X_is_infty / X_norm / X_size_bin / X_copy - a coordinate
    of `a`, or `a` handed to the compression routine, belongs to a representation (projective, another coordinate
    system) whose bytes are not the canonical encoding"""
    n = 0
    for fn in prog.all:
        b = fn.name.split("__")[-1]
        if not POINT_ENC.match(b):
            continue
        obj, binv, lenv = codec_params(fn)
        if obj is None:
            continue
        normalises = any(c[1] and c[1].endswith("_norm") and len(c[2]) == 2 and ir.base_var(fn, c[2][1]) == obj for el in fn.all_elements() for c in ir.calls_in(fn, el.e))
        if not normalises:
            continue
        n += 1
        bad = None
        for el in fn.all_elements():
            for sub in ir.walk(fn, el.e):
                if sub[0] == "c" and sub[1]:
                    for a in sub[2]:
                        if ir.base_var(fn, a) == obj and not ENC_MAY_TAKE_INPUT.search(sub[1]):
                            bad = bad or (el, fn.fmt(sub)[:50])
                elif sub[0] == "m" and ir.base_var(fn, sub[1]) == obj:
                    # a->x, a->y ... read directly (outside a call that may take the input)
                    inside_ok = False
                    for c in ir.calls_in(fn, el.e):
                        if c[1] and ENC_MAY_TAKE_INPUT.search(c[1]) and any(sub in list(ir.walk(fn, x)) for x in c[2]):
                            inside_ok = True
                    if not inside_ok:
                        bad = bad or (el, fn.fmt(sub)[:50])
        if bad is None:
            chk.ok("ENC-NORM", fn, fn.vars[obj]["n"], "the input point is only normalised, tested for infinity and sized; every coordinate written comes from the normalised copy", line=fn.line)
        else:
            chk.fail("ENC-NORM", fn, fn.vars[obj]["n"], "`%s` uses the input point itself although the encoder works on a normalised copy: for a point in projective coordinates "
                     "the bytes written are not its canonical encoding" % bad[1], line=bad[0].line)
    return n


FIELD_DEC = re.compile(r"^fp\d+_read_bin$")
UNPACK = re.compile(r"^fp\d+_(upk|back_cyc)$")


def rule_dec_unpack(ctx, prog, chk):
    """DEC-UNPACK: a field decoder that decompresses (fpN_upk, fpN_back_cyc) returns normally only after a validity
    verdict on the decompressed element has been examined: the verdict of fpN_upk, or fpN_test_cyc of the result.
    Decompression computes the missing coordinates from *any* input; without the test arbitrary bytes decode, without
    error, to an element outside the subgroup that has a compressed form"""
    n = 0
    for fn in prog.all:
        if not FIELD_DEC.match(fn.name.split("__")[-1]):
            continue
        sites = [(el, c) for el in fn.all_elements() for c in ir.calls_in(fn, el.e) if c[1] and UNPACK.match(c[1].split("__")[-1])]
        if not sites:
            continue
        g = ctx.xcfg(prog, fn)

        def gen(node, s, pre):
            if any(c[1] and UNPACK.match(c[1].split("__")[-1]) for c in ir.calls_in(fn, node.el.e)):
                return [("ev", "unpacked")]
            return []

        def edge_gen(node, label, atoms):
            for a in atoms:
                if a[0] == "cmp" and isinstance(a[1], tuple) and a[1][0] == "c" and isinstance(a[1][1], str) and re.search(r"_(upk|test_cyc)$", a[1][1]) \
                        and engines.entails(a[2], a[3], "!=", 0):
                    return [("ev", "validated")]
            return []
        F = Facts(prog, g, gen=gen, edge_gen=edge_gen, mark_thrown=True)
        bad = None
        for p, st in engines.normal_exit_states(F, g):
            if ("ev", "unpacked") in st and ("ev", "validated") not in st:
                bad = p
        # must-facts: a path that decompressed may be joined with paths that did not; decide per accepted length instead
        if bad is None:
            obj, binv, lenv = codec_params(fn) or (None, None, None)
            lens = set()
            if lenv is not None:
                for nd in g.nodes:
                    if nd.kind == "br":
                        t = nd.info.get("term")
                        if t and t.get("c") is not None:
                            for a in engines.cond_atoms(fn, t["c"], True) + engines.cond_atoms(fn, t["c"], False):
                                if a[0] == "cmp" and a[1] == ("v", lenv) and isinstance(a[3], int):
                                    lens.add(a[3])
            for L in sorted(lens):
                FL = Facts(prog, g, gen=gen, edge_gen=edge_gen, mark_thrown=True, follow=engines.world_follow(fn, ("v", lenv), L))
                for p, st in engines.normal_exit_states(FL, g):
                    if ("ev", "unpacked") in st and ("ev", "validated") not in st:
                        bad = p
        n += 1
        if bad is None:
            chk.ok("DEC-UNPACK", fn, "valid", "every normal return after a decompression has examined fpN_upk's verdict or fpN_test_cyc", line=fn.line)
        else:
            chk.fail("DEC-UNPACK", fn, "valid", "a normal return is reachable after `%s` without the verdict of the decompression (or fpN_test_cyc of its result) having been examined: "
                     "arbitrary bytes decode without error to an element that has no compressed form" % sites[0][1][1], line=sites[0][0].line)
    return n


PCK = re.compile(r"^(ep\d*)_(pck|upk)$")


def rule_pck_sib(ctx, prog, chk):
    """PCK-SIB: point compression and decompression derive the sign bit from the same components of y under the same
    conditions: the (component, only-if-the-previous-one-is-zero) sequence of the conversions that feed the comparison
    with (p - 1) / 2 is the same in X_pck and X_upk.  Otherwise a point whose deciding component differs (y_1 = 0 in a
    quadratic extension) decompresses to its negative"""
    sigs = {}
    for fn in prog.all:
        m = PCK.match(fn.name.split("__")[-1])
        if not m:
            continue
        g = ctx.xcfg(prog, fn)
        F = Facts(prog, g, mark_thrown=True)
        sig = set()
        for nd in g.nodes:
            if nd.kind != "el" or nd.proto:
                continue
            st = F.IN.get(nd)
            if st is None or st is engines.UNIVERSE:
                continue
            for c in ir.calls_in(fn, nd.el.e):
                if c[1] != "fp_prime_back" or len(c[2]) != 2:
                    continue
                V = key(fn, c[2][0])
                a = ir.strip_casts(fn.resolve(c[2][1]))
                idx = None
                if isinstance(a, list) and a and a[0] == "x":
                    ik = key(fn, a[2])
                    idx = ik[1] if isinstance(ik, tuple) and ik[0] == "i" else "?"
                guarded = any(at[0] == "cmp" and at[1] == ("c", "bn_is_zero", (V,)) and engines.entails(at[2], at[3], "!=", 0) for at in st)
                sig.add((idx, guarded))
        prefix = fn.name[:len(fn.name) - len(fn.name.split("__")[-1])]
        sigs.setdefault((prefix, m.group(1)), {})[m.group(2)] = (fn, sig)
    n = 0
    for (prefix, fam), d in sorted(sigs.items()):
        if "pck" not in d:
            continue
        if "upk" not in d:
            # a variant of the compression alone (self-test): judged against the conforming / the library's decompression
            alt = [v for (pf, fm), v in sorted(sigs.items()) if fm == fam and "upk" in v and (pf.startswith("ok_") or pf == "")]
            if not alt:
                continue
            d = dict(d, upk=alt[0]["upk"])
        (fp, sp), (fu, su) = d["pck"], d["upk"]
        if not sp and not su:
            continue
        n += 1
        fmt = lambda s: ", ".join("y%s%s" % ("" if i is None else "[%s]" % i, " if the previous is zero" if gd else "") for i, gd in sorted(s, key=repr)) or "none"
        if sp == su:
            chk.ok("PCK-SIB", fp, "sign", "compression and decompression take the sign from the same components (%s)" % fmt(sp), line=fp.line)
        else:
            chk.fail("PCK-SIB", fp, "sign", "%s takes the sign bit from (%s), %s from (%s): a point whose deciding component differs is decompressed to its negative" % (
                fp.name, fmt(sp), fu.name, fmt(su)), line=fp.line)
    return n


POINT_DEC = re.compile(r"^(ep\d*|eb|ed)_read_bin$")
_MUST = {}


def must_written(ctx, prog, fn, pos, depth=0, worlds=None):
    """coordinates of the point parameter number `pos` that the function has assigned at every normal exit"""
    from . import c13_def
    k = (id(prog), fn.name, pos)
    if k in _MUST:
        return _MUST[k]
    _MUST[k] = ()          # recursion guard
    if pos >= len(fn.params):
        return ()
    P = fn.params[pos]
    g = ctx.xcfg(prog, fn)

    def summary(callee, i):
        cf = prog.get(callee, near=fn)
        if cf is None or depth >= 2:
            # leaf routines that assign their whole output unconditionally
            return c13_def.FIELDS if re.search(r"_(set_infty|copy|norm|neg|dbl|add|sub|rand|curve_get_gen)$", callee) else ()
        return must_written(ctx, prog, cf, i, depth + 1)

    def gen(node, s, pre):
        _, ws = c13_def.effects(prog, fn, node.el.e, P, summary)
        return [("ev", "pdef", f, idx) for f, idx in ws]
    res = None
    for follow in (worlds or [None]):
        F = Facts(prog, g, gen=gen, mark_thrown=True, follow=follow)
        for p, st in engines.normal_exit_states(F, g):
            fs = set(f for f in c13_def.FIELDS if c13_def.defined(st, (f, ())))
            res = fs if res is None else (res & fs)
    out = tuple(sorted(res or ()))
    _MUST[k] = out
    return out


def rule_dec_def(ctx, prog, chk, info):
    """DEC-DEF: a point decoder assigns every coordinate of its output (x, y, z and the coordinate system) on every path
    to a normal return - itself or through a routine that does so on all of *its* paths.  A coordinate left as the
    object held it makes what is accepted depend on the history of the object, not on the bytes"""
    n = 0
    for fn in prog.all:
        b = fn.name.split("__")[-1]
        if not POINT_DEC.match(b):
            continue
        obj, binv, lenv = codec_params(fn) or (None, None, None)
        if obj is None:
            continue
        pos = fn.params.index(obj)
        live = set(sub[2] for f2 in prog.all if f2.rfile == fn.rfile for el in f2.all_elements() for sub in ir.walk(f2, el.e) if sub[0] == "m" and sub[2] in ("x", "y", "z", "coord"))
        need = {"x", "y", "z", "coord"} & (live | {"x", "y"})
        # one world per accepted length: the length tests select the branches (compressed / uncompressed / infinity)
        worlds = [engines.world_follow(fn, ("v", lenv), L) for L in sorted(info.get(fn.name, ()))] or None
        got = set(must_written(ctx, prog, fn, pos, worlds=worlds))
        n += 1
        missing = sorted(need - got)
        if not missing:
            chk.ok("DEC-DEF", fn, fn.vars[obj]["n"], "x, y, z and the coordinate system are assigned on every path to a normal return", line=fn.line)
        else:
            chk.fail("DEC-DEF", fn, fn.vars[obj]["n"], "a normal return is reachable on which this call has not assigned ->%s of the decoded point (a routine that assigns it only on "
                     "some of its paths does not count): what is accepted depends on what the object held before" % ", ->".join(missing), line=fn.line)
    return n


def analyse(ctx, prog, chk):
    chk.used_program(prog)
    decs, npoint, info = rule_decoders(ctx, prog, chk)
    encs, guards = rule_encoders(ctx, prog, chk)
    nla = rule_len_agree(ctx, prog, chk, info, guards)
    nr = rule_range_fp(ctx, prog, chk)
    nr += rule_range_fb(ctx, prog, chk)
    # integers decoded from text / bytes are in normal form (no leading zero digit, no negative zero): the rule of C01,
    # applied to the decoders
    from . import c01
    dec = lambda fn: bool(re.match(r"^bn_read_(str|bin|raw)$", fn.name.split("__")[-1]))
    nnf = 0
    for only in ("raw", "sign"):
        k, w = c01.rule_nf_kind(ctx, prog, chk, only, only_fn=dec, rule="DEC-NF")
        nnf += k
    nen = rule_enc_norm(ctx, prog, chk)
    ndd = rule_dec_def(ctx, prog, chk, info)
    nps = rule_pck_sib(ctx, prog, chk)
    ndu = rule_dec_unpack(ctx, prog, chk)
    return {"decoders": len(decs), "point_decoders": npoint, "encoders": len(encs), "len_agree": nla, "range": nr, "nf": nnf, "enc_norm": nen, "dec_def": ndd, "pck_sib": nps, "dec_unpack": ndu}


def selfcheck(ctx, prog, chk):
    analyse(ctx, prog, chk)


def run(ctx, chk):
    base = ctx.program("BASE")
    c = analyse(ctx, base, chk)
    chk.floor("DEC-LEN", "*_read_bin decoders (BASE)", c["decoders"], 22)
    chk.floor("DEC-VALID", "point decoders (BASE)", c["point_decoders"], 7)
    chk.floor("ENC-LEN", "*_write_bin/_write_str encoders (BASE)", c["encoders"], 22)
    chk.floor("LEN-AGREE", "size/read/write triples (BASE)", c["len_agree"], 15)
    chk.floor("RANGE-FP", "fp_read_bin, fb_read_bin, fb_read_str", c["range"], 3)
    chk.floor("DEC-UNPACK", "field decoders that decompress", c["dec_unpack"], 6)
    chk.floor("PCK-SIB", "compression / decompression pairs that convert y", c["pck_sib"], 2)
    chk.floor("DEC-DEF", "point decoders", c["dec_def"], 7)
    chk.floor("ENC-NORM", "point encoders that normalise", c["enc_norm"], 5)
    chk.floor("DEC-NF", "integer decoders held to the normal form", c["nf"], 3)
    if chk.tier == "thorough":
        for cfg in ("P255", "P381"):
            analyse(ctx, ctx.program(cfg), chk)
