"""C01 — representation clauses of the bignum layer ("in a normalised representation (no leading zero digits, zero is
non-negative), and leaves its inputs unchanged").

  NF        every function of src/bn that stores the digit count of one of its integer parameters, or writes its digits, passes
            a normaliser of that integer (bn_trim, or a bn_* operation writing it) after the last such write on every path
            to a normal return
  NF-SIGN   a store of a possibly negative sign into an integer parameter is followed by a normaliser (which turns a zero
            non-negative), unless the value is known non-zero there
  GROW-CLEAR  where the digit count of an integer that keeps its value is raised (store to ->used under the test that the new
            count exceeds the old one), the digits brought into use are cleared under that same test: digits at and beyond
            the count are unspecified
  CONST-IN  no function of the module stores through a parameter it declares const
  ALIAS-RW  no field of an input integer is read in a later statement than a write of that field of an output integer
            ("also when the output object is one of the inputs"); see sa/py/relic_sa/alias.py
"""
import re

from .. import ir, engines
from ..engines import Facts, key
from ..facts import AnalysisBroken
from .c03 import c05_line
from . import c02
from .. import alias

EXPLANATION = (
    "Static decision of the representation clauses of C01 over every function of src/bn (public operations and static "
    "helpers, all algorithm variants since none is stripped from the build): forward must-dataflow over the exploded CFG with "
    "a 'normalised' token per integer parameter - voided by stores to ->used, to digits (directly or through a low-level "
    "routine given ->dp) and by stores of a possibly negative sign, restored by bn_trim or by any bn_* operation writing the "
    "integer - shows that every normal return hands back normalised outputs, in particular that a zero result is never left "
    "with a negative sign (the suite tests zero with bn_is_zero, which ignores the sign); parameter-write summaries over the "
    "call graph show that inputs are not written. That the digits are the mathematical result (carry chains, Knuth D, Comba "
    "columns, Karatsuba) is a value property and is not decided. Nothing of RELIC is executed.")

BN_T = re.compile(r"^(const )?bn_t\b")
# stores of a canonical value / the normaliser itself: one reason each
NF_EXEMPT = {
    "bn_trim": "the normaliser",
    "bn_make": "initialises an empty integer (used = 1 / 0 digits as documented)",
    "bn_clean": "releases the integer",
    "bn_grow": "changes capacity only",
}
# outputs that are normal by construction, so that no normaliser is needed: (function, parameter) -> reason
NF_BY_CONSTRUCTION = {
    ("bn_zero", "a"): "stores the canonical zero (one digit 0, non-negative)",
    ("bn_set_dig", "a"): "stores a one-digit non-negative value",
    ("bn_set_2b", "a"): "stores 2^b: zero digits below, a non-zero top digit, non-negative",
    ("bn_dbl", "c"): "doubling a normalised integer keeps the top digit non-zero or appends the carry digit; the sign is that of a normalised input",
    ("bn_set_bit", "a"): "setting a bit cannot clear a top digit (the clearing arm trims); growth is held to GROW-CLEAR",
}
# NF-SIGN is decided in the files the property is anchored in
SIGN_SCOPE = re.compile(r"^src/bn/relic_bn_(add|mul|sqr|div|shift|cmp|util|mem)\.c$")
# reads of an input after a write of the output that are harmless, one reason each:
# (function, output, input, field, reading callee) -> reason
ALIAS_OK = {
    ("bn_add_imp", "c", "a", "dp", "bn_add1_low"): "disjoint digit ranges: the first call wrote [0,min), this one reads [min,max) of the same positions it writes",
    ("bn_sub_imp", "c", "a", "dp", "bn_sub1_low"): "disjoint digit ranges, as in bn_add_imp",
    ("bn_lsh", "c", "a", "used", "dv_copy"): "only reached with digits == 0, where the store c->used = a->used + digits kept the value",
}
# functions taking an integer as first argument without giving it a (new) value
NOT_WRITERS = re.compile(r"^bn_(grow|trim|is_\w+|cmp\w*|sign|bits|get_\w+|ham|size_\w+|write_\w+|print|null|new\w*|free|clean|make)$")


def base(fn):
    return fn.name.split("__")[-1]


def bn_params(fn):
    out = []
    for v in fn.params:
        info = fn.vars[v]
        t = info.get("ot") or info.get("t", "")
        if BN_T.match(t) and info.get("pc") != 1 and not t.startswith("const"):
            out.append(v)
    return out


def is_handle(fn, v):
    info = fn.vars[v]
    t = info.get("ot") or info.get("t", "")
    return bool(BN_T.match(t))


def analyse(ctx, prog, chk):
    chk.used_program(prog)
    n, nwrites = rule_nf_split(ctx, prog, chk)
    gc = rule_grow_clear(ctx, prog, chk)
    na, used = alias.rule(ctx, prog, chk, lambda fn: bool(SIGN_SCOPE.match(fn.rfile)), ALIAS_OK)
    if prog.config == "BASE" and not getattr(prog, "library", None):
        stale = set(ALIAS_OK) - used
        if stale:
            raise AnalysisBroken("ALIAS-RW: reviewed exception(s) %s no longer match any site" % sorted(stale))
    c = c02.rule_const_in(ctx, prog, chk, prefix=("src/bn/", "src/low/easy/relic_bn"))
    return {"nf": n, "writes": nwrites, "const": c, "grow": gc, "alias": na}


def rule_nf_split(ctx, prog, chk):
    """NF and NF-SIGN are decided by two separate runs so that each reports only its own kind of store"""
    total = 0
    writes = 0
    for only in ("raw", "sign"):
        k, w = rule_nf_kind(ctx, prog, chk, only)
        total += k
        writes += w
    return total, writes


def rule_nf_kind(ctx, prog, chk, only, only_fn=None, rule=None):
    n = 0
    nwrites = 0
    rule = rule or ("NF" if only == "raw" else "NF-SIGN")
    for fn in prog.all:
        if not (fn.rfile.startswith("src/bn/") or "selftest" in fn.file):
            continue
        if only_fn is not None and not only_fn(fn):
            continue
        b = base(fn)
        if b in NF_EXEMPT:
            continue
        outs = bn_params(fn)
        if not outs:
            continue
        if only == "sign" and not (SIGN_SCOPE.match(fn.rfile) or "selftest" in fn.file):
            continue
        g = ctx.xcfg(prog, fn)
        sites = {}

        def handle_of(e):
            e0 = ir.strip_casts(fn.resolve(e))
            fld = None
            guard = 0
            while isinstance(e0, list) and e0 and guard < 30:
                guard += 1
                if e0[0] == "m":
                    if fld is None or e0[2] in ("used", "sign", "dp"):
                        fld = e0[2]
                    e0 = ir.strip_casts(fn.resolve(e0[1]))
                elif e0[0] == "x":
                    e0 = ir.strip_casts(fn.resolve(e0[1]))
                elif e0[0] == "u" and e0[1] in ("*", "&"):
                    e0 = ir.strip_casts(fn.resolve(e0[2]))
                elif e0[0] == "b" and e0[1] in ("+", "-"):
                    e0 = ir.strip_casts(fn.resolve(e0[2]))
                elif e0[0] == "k":
                    e0 = e0[2]
                elif e0[0] == "v":
                    return e0[1], fld
                else:
                    return None, None
            return None, None

        def events(node, s):
            out = []
            e = node.el.e
            for sub in ir.walk(fn, e):
                if sub[0] in ("=", "o=") or (sub[0] == "u" and ("++" in sub[1] or "--" in sub[1])):
                    lhs = sub[1] if sub[0] == "=" else sub[2]
                    v, fld = handle_of(lhs)
                    if v is None or v not in outs:
                        continue
                    if fld in ("used", "dp") and only == "raw":
                        out.append(("void", v))
                    elif fld == "sign" and only == "sign":
                        rhs = ir.peel(fn, sub[2]) if sub[0] == "=" else None
                        if isinstance(rhs, list) and rhs[0] == "i" and rhs[1] == 0:
                            continue        # RLC_POS
                        nonzero = any(x[0] == "cmp" and x[1] == ("c", "bn_is_zero", (("v", v),)) and engines.entails(x[2], x[3], "==", 0) for x in s)
                        if not nonzero:
                            out.append(("void", v))
                elif sub[0] == "c" and sub[1]:
                    name = sub[1]
                    for i, a in enumerate(sub[2]):
                        if not ir.arg_is_pointer(sub, i):
                            continue
                        v, fld = handle_of(a)
                        if v is None or v not in outs:
                            continue
                        if fld == "dp":
                            if only == "raw" and engines.callee_writes_arg(prog, fn, name, i):
                                out.append(("void", v))
                        elif fld is None:
                            if name == "bn_trim" or (re.match(r"^bn_\w+$", name) and not NOT_WRITERS.match(name) and not name.endswith("_low")
                                                     and engines.callee_writes_arg(prog, fn, name, i)):
                                out.append(("norm", v))
            return out

        def gen(node, s, pre):
            return [("ev", "clean", v) for kind, v in events(node, pre) if kind == "norm"]

        def kill(node, s):
            ev = events(node, s)
            dead = set()
            for kind, v in ev:
                if kind == "void":
                    dead.add(v)
                    sites.setdefault(v, node.line())
            if dead:
                s = frozenset(x for x in s if not (x[0] == "ev" and x[1] == "clean" and x[2] in dead))
            return s
        init = [("ev", "clean", v) for v in outs]
        F = Facts(prog, g, gen=gen, extra_kill=kill, init=init, mark_thrown=True)
        for v in outs:
            if v not in sites:
                continue
            nwrites += 1
            bad = None
            nret = 0
            for p, st in engines.normal_exit_states(F, g):
                nret += 1
                if ("ev", "clean", v) not in st:
                    bad = p
            if nret == 0:
                continue
            n += 1
            nm = fn.vars[v]["n"]
            if bad is not None and (b, nm) in NF_BY_CONSTRUCTION:
                chk.ok(rule, fn, nm, "normal by construction: " + NF_BY_CONSTRUCTION[(b, nm)], line=fn.line)
                continue
            if bad is not None:
                if only == "raw":
                    chk.fail(rule, fn, nm, "a normal return is reachable after a store to the digit count or digits of `%s` (first such store at line %s) with no normaliser (bn_trim or a bn_* operation writing it) in between: leading zero digits or a stale count can be returned" % (nm, sites[v]), line=c05_line(bad, fn))
                else:
                    chk.fail(rule, fn, nm, "a possibly negative sign is stored into `%s` (line %s) after its last normalisation, where it is not known to be non-zero: a zero result is returned with a negative sign" % (nm, sites[v]), line=sites[v])
            else:
                chk.ok(rule, fn, nm, "every normal return passes a normaliser of `%s` after the last %s" % (nm, "raw write" if only == "raw" else "store of a possibly negative sign"), line=fn.line)
    return n, nwrites


def rule_grow_clear(ctx, prog, chk):
    n = 0
    for fn in prog.all:
        if not (fn.rfile.startswith("src/bn/") or "selftest" in fn.file):
            continue
        outs = bn_params(fn)
        if not outs:
            continue
        cands = []
        for el in fn.all_elements():
            e = el.e
            if e[0] == "=":
                l = ir.strip_casts(e[1])
                if isinstance(l, list) and l[0] == "m" and l[2] == "used":
                    bv = ir.base_var(fn, l[1])
                    if bv in outs:
                        cands.append((el, bv, key(fn, e[2]), key(fn, l)))
        if not cands:
            continue
        g = ctx.xcfg(prog, fn)
        F = Facts(prog, g, mark_thrown=True)

        def growth(st, newk, usedk):
            for x in st:
                if x[0] == "rel" and ((x[1] == newk and x[2] == ">" and x[3] == usedk) or (x[1] == usedk and x[2] == "<" and x[3] == newk)):
                    return True
            return False
        for el, bv, newk, usedk in cands:
            grows = False
            for nd in g.nodes:
                if nd.kind == "el" and nd.el.id == el.id:
                    st = F.IN.get(nd)
                    if st is not None and st is not engines.UNIVERSE and growth(st, newk, usedk):
                        grows = True
            if not grows:
                continue
            n += 1
            cleared = False
            short = None
            for nd in g.nodes:
                if nd.kind != "el":
                    continue
                st = F.IN.get(nd)
                if st is None or st is engines.UNIVERSE or not growth(st, newk, usedk):
                    continue
                e = nd.el.e
                if e[0] == "=":
                    l = ir.strip_casts(e[1])
                    r = ir.peel(fn, e[2])
                    if isinstance(l, list) and l[0] == "x" and ir.base_var(fn, l[1]) == bv and isinstance(r, list) and r[0] == "i" and r[1] == 0 \
                            and any(x[0] == "m" and x[2] == "dp" for x in ir.walk(fn, l[1])):
                        cleared = True
                        # the clearing loop reaches the last digit brought into use: its index bound covers the new count
                        from .. import extent
                        ik = key(fn, l[2])
                        covers = None
                        for x in st:
                            if x[0] == "rel" and x[1] == ik and x[2] in ("<", "<="):
                                pk, pn = extent.norm_poly(x[3], st), extent.norm_poly(newk, st)
                                if pk is not None and pn is not None:
                                    cover = pk + extent.Poly.const(1 if x[2] == "<=" else 0)
                                    ok = extent.prove_nonneg(cover - pn, st)
                                    covers = ok if covers is None else (covers or ok)
                        if covers is False:
                            short = (nd, fn.fmt(e)[:40])
                for c in ir.calls_in(fn, e):
                    if c[1] in ("dv_zero", "memset") and c[2] and ir.base_var(fn, c[2][0]) == bv:
                        cleared = True
            nm = fn.vars[bv]["n"]
            if cleared and short is not None:
                chk.fail("GROW-CLEAR", fn, nm, "the loop that clears the digits brought into use (`%s`) stops before the new digit count `%s`: the last new digit keeps what the object held before" % (
                    short[1], engines.fmt_key(fn, newk)), line=short[0].line())
            elif cleared:
                chk.ok("GROW-CLEAR", fn, nm, "digits brought into use are cleared under the growth test", line=el.line)
            else:
                chk.fail("GROW-CLEAR", fn, nm, "the digit count of `%s` is raised above its old value while the integer keeps its digits, and nothing under the growth test clears the digits brought into use: they are unspecified (left over from earlier, longer values)" % nm, line=el.line)
    return n


def selfcheck(ctx, prog, chk):
    analyse(ctx, prog, chk)


def run(ctx, chk):
    c = analyse(ctx, ctx.program("BASE"), chk)
    chk.floor("NF", "integer parameters with raw or sign stores", c["writes"], 30)
    chk.floor("CONST-IN", "const pointer parameters of the module", c["const"], 150)
    chk.floor("GROW-CLEAR", "growth stores of the digit count", c["grow"], 1)
    chk.floor("ALIAS-RW", "output/input pairs of the same handle type", c["alias"], 40)
