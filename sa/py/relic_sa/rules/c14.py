"""C14 — structural clauses of the hash functions, MAC, KDF, XMD expansion and AES-CBC (thin claim).

  TABLE-STD     every constant table of the hash functions and of the block cipher (SHA-2 round constants and initial values,
                BLAKE2s IV and message schedule, AES T-tables, inverse T-tables, S-boxes inside them and round constants)
                equals the table the standard defines, recomputed here by independent integer arithmetic (cube / square
                roots of primes, inversion and affine map in GF(2^8))
  LEN-NARROW    no caller-supplied size_t length is handed to a narrower integer parameter of the hash / cipher layer without
                a bound in force (a value-changing conversion: the data are long, the length the primitive sees is not)
  LEN-FIELD     the padding routine stores the message bit length big-endian in the last octets of the block: the constant
                indices are exactly [B - L, B), each length word is stored most significant octet first with shifts
                w-8, .., 8, 0
  PAD-THRESH    the second-block test and the zero-fill bound of the padding routine equal the first index of the length
                field (B - L)
  LEN-CARRY     the words of the running bit length form one carry chain: every word that is added to has its carry-out
                (comparison of the new value with the saved old one) consumed by exactly the next word
  LEN-UNIT      what one step adds to the low word of the bit length is a constant or provably small, or its high part goes
                to the next word (accounting for a whole call at once must not drop length / 2^29)
  PKCS7-REJECT  the CBC unpadding returns a length only with 0 < pad <= 16 in force and after a comparison of block octets
                with the pad length whose failing side is an error return; the public decryption turns that error into
                RLC_ERR
  SHIFT-DEAD    no value explicitly narrowed to w bits is shifted right by w or more (the octet is constantly zero: a length
                prefix or counter loses its high octets)
  KDF-COUNTER   the mask-generation function starts its block counter at 0 (PKCS #1 MGF1), the key-derivation function at 1
                (IEEE 1363 KDF2), and the counter is appended to the input as four big-endian octets
  ERR-SIGN      the result of a routine that reports errors as negative values is not stored in an unsigned variable (where
                `<= 0` no longer sees them: rejected padding is returned as an enormous length)
  FINAL-PAD     the last BLAKE2s block is zero-filled from the buffered length to the block size before it is compressed
                (the buffer still holds the previous block beyond the buffered octets)
  HMAC-KEY      a key longer than the block size is replaced by its digest before the pads are built, and the threshold,
                the zero fill and the pad loop use one block size
"""
import re

from .. import ir, engines
from ..engines import Facts, key
from ..facts import AnalysisBroken

EXPLANATION = (
    "Static decision of structural necessary conditions of C14 over src/md and src/bc: the constant tables found in the "
    "source (exported by the extractor from the initialiser lists clang evaluated) are compared with the tables of FIPS "
    "180-4, RFC 7693 and FIPS 197 recomputed by independent integer arithmetic; the expression trees and control-flow "
    "graphs of the padding, length-accumulation, unpadding and HMAC key-preparation code are checked for the shape the "
    "standards require (length field position and byte order, one carry chain over the length words, padding rejected "
    "before a length is returned, long keys hashed), and call arguments are checked for lengths narrowed on the way into "
    "the primitives - the part that only inputs beyond 2^29 or 2^32 bytes, keys longer than a block, or rarely indexed "
    "table entries expose and the suite's vectors never reach. Equality of digests, MACs, derived keys and ciphertexts "
    "with the standards for concrete inputs (compression functions, key schedule, mode chaining) is a value property "
    "and is not decided. Nothing of RELIC is executed.")

INT8 = ("unsigned long", "long", "unsigned long long", "long long")
INTS = ("int", "unsigned int", "short", "unsigned short", "char", "unsigned char", "signed char")


def in_scope(fn):
    return fn.rfile.startswith(("src/md/", "src/bc/")) or "selftest" in fn.file


# ---------------------------------------------------------------------- standard tables by independent arithmetic
def _primes(n):
    out = []
    c = 2
    while len(out) < n:
        if all(c % p for p in out if p * p <= c):
            out.append(c)
        c += 1
    return out


def _iroot(n, k):
    lo, hi = 0, 1 << (n.bit_length() // k + 2)
    while lo < hi:
        mid = (lo + hi + 1) // 2
        if mid ** k <= n:
            lo = mid
        else:
            hi = mid - 1
    return lo


def _gmul(a, b):
    r = 0
    while b:
        if b & 1:
            r ^= a
        a <<= 1
        if a & 0x100:
            a ^= 0x11B
        b >>= 1
    return r


def std_tables():
    P = _primes(80)
    T = {}
    T["K256"] = [_iroot(p << 96, 3) & 0xFFFFFFFF for p in P[:64]]
    T["K512"] = [_iroot(p << 192, 3) & 0xFFFFFFFFFFFFFFFF for p in P[:80]]
    T["H256"] = [_iroot(p << 64, 2) & 0xFFFFFFFF for p in P[:8]]
    T["H224"] = [_iroot(p << 128, 2) & 0xFFFFFFFF for p in P[8:16]]
    T["H512"] = [_iroot(p << 128, 2) & 0xFFFFFFFFFFFFFFFF for p in P[:8]]
    T["H384"] = [_iroot(p << 128, 2) & 0xFFFFFFFFFFFFFFFF for p in P[8:16]]
    # BLAKE2s message schedule: the ten permutations tabulated in RFC 7693, section 2.7 (constants without a generating rule)
    s0 = list(range(16))
    s1 = [14, 10, 4, 8, 9, 15, 13, 6, 1, 12, 0, 2, 11, 7, 5, 3]
    rows = [
        s0, s1,
        [11, 8, 12, 0, 5, 2, 15, 13, 10, 14, 3, 6, 7, 1, 9, 4],
        [7, 9, 3, 1, 13, 12, 11, 14, 2, 6, 5, 10, 4, 0, 15, 8],
        [9, 0, 5, 7, 2, 4, 10, 15, 14, 1, 11, 12, 6, 8, 3, 13],
        [2, 12, 6, 10, 0, 11, 8, 3, 4, 13, 7, 5, 15, 14, 1, 9],
        [12, 5, 1, 15, 14, 13, 4, 10, 0, 7, 6, 3, 9, 2, 8, 11],
        [13, 11, 7, 14, 12, 1, 3, 9, 5, 0, 15, 4, 8, 6, 2, 10],
        [6, 15, 14, 9, 11, 3, 0, 8, 12, 2, 13, 7, 1, 4, 10, 5],
        [10, 2, 8, 4, 7, 6, 1, 5, 15, 11, 9, 14, 3, 12, 13, 0],
    ]
    T["SIGMA"] = [x for r in rows for x in r]
    # AES
    inv = [0] * 256
    for a in range(1, 256):
        for b in range(1, 256):
            if _gmul(a, b) == 1:
                inv[a] = b
                break
    S = []
    for a in range(256):
        x = inv[a]
        y = x
        for sh in (1, 2, 3, 4):
            y ^= ((x << sh) | (x >> (8 - sh))) & 0xFF
        S.append(y ^ 0x63)
    Si = [0] * 256
    for a in range(256):
        Si[S[a]] = a

    def word(b3, b2, b1, b0):
        return (b3 << 24) | (b2 << 16) | (b1 << 8) | b0

    def rot(w, n):
        return ((w >> (8 * n)) | (w << (32 - 8 * n))) & 0xFFFFFFFF

    te0 = [word(_gmul(s, 2), s, s, _gmul(s, 3)) for s in S]
    td0 = [word(_gmul(s, 14), _gmul(s, 9), _gmul(s, 13), _gmul(s, 11)) for s in Si]
    for i in range(4):
        T["Te%d" % i] = [rot(w, i) for w in te0]
        T["Td%d" % i] = [rot(w, i) for w in td0]
    T["Te4"] = [word(s, s, s, s) for s in S]
    T["Td4"] = [word(s, s, s, s) for s in Si]
    rc = []
    x = 1
    for _ in range(10):
        rc.append(x << 24)
        x = _gmul(x, 2)
    T["rcon"] = rc
    return T


# where each table of the standard lives in the source: (file suffix, variable name, enclosing function or None) -> table
ANCHORS = [
    ("src/md/sha224-256.c", "K", "K256"), ("src/md/sha224-256.c", "SHA224_H0", "H224"), ("src/md/sha224-256.c", "SHA256_H0", "H256"),
    ("src/md/sha384-512.c", "K", "K512"), ("src/md/sha384-512.c", "SHA384_H0", "H384"), ("src/md/sha384-512.c", "SHA512_H0", "H512"),
    ("src/md/blake2s-ref.c", "blake2s_IV", "H256"), ("src/md/blake2s-ref.c", "blake2s_sigma", "SIGMA"),
] + [("src/bc/rijndael-alg-fst.c", n, n) for n in ("Te0", "Te1", "Te2", "Te3", "Te4", "Td0", "Td1", "Td2", "Td3", "Td4", "rcon")]


def source_tables(prog):
    """(rfile, name, values, line) of every initialised integer table in scope: file-scope and function-static"""
    out = []
    for gl in prog.globals:
        rf = ir.relpath(gl["file"])
        if gl.get("vals") and gl.get("def") and (rf.startswith(("src/md/", "src/bc/")) or "selftest" in gl["file"]):
            out.append((rf, gl["n"], [int(v) for v in gl["vals"]], gl.get("l"), gl))
    for fn in prog.all:
        if not in_scope(fn):
            continue
        for v in fn.vars:
            if v.get("k") == "s" and v.get("vals"):
                out.append((fn.rfile, v["n"], [int(x) for x in v["vals"]], v.get("l"), fn))
    return out


def widen(vals, want):
    """the 32-bit-only build stores 64-bit constants as (high, low) pairs"""
    if len(vals) == 2 * len(want) and all(0 <= v < (1 << 32) for v in vals):
        return [(vals[2 * i] << 32) | vals[2 * i + 1] for i in range(len(want))]
    return vals


class _Obj:
    def __init__(self, name, rfile):
        self.name = name
        self.rfile = rfile


def rule_tables(ctx, prog, chk, selftest=False):
    T = std_tables()
    src = source_tables(prog)
    n = 0
    if selftest:
        for rf, name, vals, line, _ in src:
            m = re.match(r"(?:bad_table_std__|ok_)(\w+?)_tab$", name)
            if not m or m.group(1) not in T:
                continue
            _cmp_table(chk, _Obj(name, rf), name, vals, T[m.group(1)], line)
            n += 1
        return n
    for suffix, name, tab in ANCHORS:
        hits = [s for s in src if s[0].endswith(suffix) and s[1] == name]
        if not hits:
            raise AnalysisBroken("TABLE-STD: table %s of %s not found (or its initialiser is not a list of integer constants)" % (name, suffix))
        for rf, nm, vals, line, _ in hits:
            _cmp_table(chk, _Obj(nm, rf), nm, vals, T[tab], line)
            n += 1
    return n


def _cmp_table(chk, obj, name, vals, want, line):
    vals = widen(vals, want)
    if len(vals) != len(want):
        chk.fail("TABLE-STD", obj, name, "the table has %d entries, the standard's has %d" % (len(vals), len(want)), line=line, file=obj.rfile)
        return
    bad = [i for i in range(len(want)) if vals[i] != want[i]]
    if bad:
        i = bad[0]
        chk.fail("TABLE-STD", obj, name, "entry %d is 0x%x, the standard defines 0x%x (%d entr%s differ): every input that indexes it is processed wrongly" % (
            i, vals[i], want[i], len(bad), "y" if len(bad) == 1 else "ies"), line=line, file=obj.rfile)
    else:
        chk.ok("TABLE-STD", obj, name, "%d entries equal the recomputed standard table" % len(want), line=line, file=obj.rfile)


# ---------------------------------------------------------------------- LEN-NARROW
def rule_len_narrow(ctx, prog, chk):
    n = 0
    for fn in prog.all:
        if not in_scope(fn):
            continue
        g = None
        F = None
        for el in fn.all_elements():
            for sub in ir.walk(fn, el.e):
                if sub[0] != "c" or not sub[1]:
                    continue
                pr = prog.callees.get(sub[1]) or (prog.library.callees.get(sub[1]) if prog.library is not None else None)
                if not pr or pr.get("sys"):
                    continue
                for i, a in enumerate(sub[2]):
                    if i >= len(pr["params"]):
                        break
                    p = pr["params"][i]
                    if p.get("c") not in INTS:
                        continue
                    b = fn.resolve(a)
                    if not (isinstance(b, list) and b and b[0] == "v"):
                        continue      # explicit casts and arithmetic are deliberate conversions, not judged
                    v = fn.vars[b[1]]
                    if v.get("k") != "p" or v.get("c") not in INT8:
                        continue
                    n += 1
                    if g is None:
                        g = ctx.xcfg(prog, fn)
                        F = Facts(prog, g)
                    limit = (1 << (8 * p["sz"] - (0 if p["c"].startswith("unsigned") else 1))) - 1
                    okb = False
                    seen = False
                    for nd in g.nodes:
                        if nd.kind == "el" and nd.el is el:
                            st = F.at(nd)
                            if st is None or st is engines.UNIVERSE:
                                continue
                            seen = True
                            if engines.holds_cmp(st, ("v", b[1]), "<=", limit):
                                okb = True
                            else:
                                okb = False
                                break
                    if seen and okb:
                        chk.ok("LEN-NARROW", fn, "%s:%s" % (sub[1], v["n"]), "bounded by a test in force to fit %s" % p["c"], line=el.line)
                    else:
                        chk.fail("LEN-NARROW", fn, "%s:%s" % (sub[1], v["n"]),
                                 "the %s length `%s` of the caller is handed to the %s parameter %d of %s with no bound in force: for lengths of 2^%d and more the primitive processes a different amount of data than the caller supplied and no error is reported" % (
                                     v["t"], v["n"], p["c"], i, sub[1], 8 * p["sz"] - (0 if p["c"].startswith("unsigned") else 1)), line=el.line)
    return n


# ---------------------------------------------------------------------- LEN-FIELD / PAD-THRESH
def _member_name(fn, e):
    e = ir.strip_casts(fn.resolve(e))
    if isinstance(e, list) and e and e[0] == "x":
        return _member_name(fn, e[1])
    if isinstance(e, list) and e and e[0] == "m":
        return e[2]
    return None


def _const(fn, e):
    e = ir.strip_casts(fn.resolve(e))
    if isinstance(e, list) and e and e[0] == "i" and isinstance(e[1], int):
        return e[1]
    return None


def rule_len_field(ctx, prog, chk):
    n = 0
    for fn in prog.all:
        if not in_scope(fn) or not re.search(r"PadMessage$|pad_message", fn.name):
            continue
        stores = []      # (index, word key, shift, line, word text)
        for el in fn.all_elements():
            e = el.e
            if e[0] != "=":
                continue
            l = ir.strip_casts(e[1])
            if not (isinstance(l, list) and l[0] == "x" and _member_name(fn, l) == "Message_Block"):
                continue
            c = _const(fn, l[2])
            if c is None:
                continue
            r = ir.strip_casts(fn.resolve(e[2]))
            sh = 0
            w = r
            if isinstance(r, list) and r and r[0] == "b" and r[1] == ">>":
                s2 = _const(fn, r[3])
                if s2 is None:
                    continue
                sh = s2
                w = ir.strip_casts(fn.resolve(r[2]))
            nm = _member_name(fn, w)
            if nm is None or not nm.startswith("Length"):
                continue
            stores.append((c, key(fn, w), sh, el.line, fn.fmt(w)))
        cmps = {"ge": set(), "lt": set()}
        for b in fn.blocks.values():
            t = getattr(b, "term", None)
            if not t or t.get("c") is None:
                continue
            c = ir.strip_casts(fn.resolve(t["c"]))
            if not (isinstance(c, list) and c and c[0] == "b" and c[1] in ("<", "<=", ">", ">=")):
                continue
            if _member_name(fn, c[2]) != "Message_Block_Index":
                continue
            k = _const(fn, c[3])
            if k is None:
                continue
            if c[1] == ">=":
                cmps["ge"].add(k)
            elif c[1] == ">":
                cmps["ge"].add(k + 1)
            elif c[1] == "<":
                cmps["lt"].add(k)
            else:
                cmps["lt"].add(k + 1)
        if not stores:
            chk.note("LEN-FIELD: %s stores no length field through constant indices: shape not recognised, not decided" % fn.name)
            continue
        n += 1
        stores.sort()
        idx = [s[0] for s in stores]
        L = len(stores)
        B = max(cmps["lt"]) if cmps["lt"] else None
        first = idx[0]
        bad = None
        if len(set(idx)) != L or idx != list(range(first, first + L)):
            bad = "the octets stored are %s: not one contiguous field, each octet once" % idx
        elif L not in (8, 16):
            bad = "the length field has %d octets (8 for SHA-224/256, 16 for SHA-384/512)" % L
        elif B is not None and first + L != B:
            bad = "the length field [%d, %d) does not end at the block size %d" % (first, first + L, B)
        else:
            # per word: contiguous, shifts descending by 8 down to 0
            groups = []
            for s in stores:
                if groups and groups[-1][0] == s[1]:
                    groups[-1][1].append(s)
                else:
                    groups.append((s[1], [s]))
            if len(set(g[0] for g in groups)) != len(groups):
                bad = "the octets of one length word are not stored contiguously"
            else:
                widths = set(len(g[1]) for g in groups)
                if len(widths) != 1:
                    bad = "the length words are stored with different numbers of octets %s" % sorted(widths)
                for wk, ss in groups:
                    want = [8 * (len(ss) - 1 - j) for j in range(len(ss))]
                    got = [s[2] for s in ss]
                    if got != want and bad is None:
                        bad = "octets %d..%d of the block take %s shifted by %s, big-endian order needs %s: the length is encoded wrongly once that word is non-zero" % (
                            ss[0][0], ss[-1][0], ss[0][4], got, want)
        if bad:
            chk.fail("LEN-FIELD", fn, "Message_Block", bad, line=stores[0][3])
        else:
            chk.ok("LEN-FIELD", fn, "Message_Block", "%d octets at [%d, %d), %d word(s) big-endian" % (L, first, first + L, len(set(s[1] for s in stores))), line=stores[0][3])
        # thresholds
        if B is None or not cmps["ge"]:
            chk.note("PAD-THRESH: %s: comparisons of Message_Block_Index with constants not recognised, not decided" % fn.name)
            continue
        want_lt = {B, first}
        if cmps["ge"] != {first} or cmps["lt"] != want_lt:
            chk.fail("PAD-THRESH", fn, "Message_Block_Index",
                     "the padding tests compare the block index with >= %s and < %s; the length field starts at %d in a block of %d: messages whose last block ends next to the field are padded wrongly" % (
                         sorted(cmps["ge"]), sorted(cmps["lt"]), first, B), line=fn.line)
        else:
            chk.ok("PAD-THRESH", fn, "Message_Block_Index", "second block from index %d on, zero fill up to %d" % (first, first), line=fn.line)
    return n


# ---------------------------------------------------------------------- LEN-CARRY
def _len_word(fn, e):
    e = ir.strip_casts(fn.resolve(e))
    nm = _member_name(fn, e)
    if nm and nm.startswith("Length"):
        if isinstance(e, list) and e[0] == "x" and _const(fn, e[2]) is None:
            return None
        return key(fn, e)
    return None


def _contains(fn, e, pred, depth=0):
    for sub in ir.walk(fn, e, follow_refs=True):
        if pred(sub):
            return True
    return False


def rule_len_carry(ctx, prog, chk):
    n = 0
    for fn in prog.all:
        if not in_scope(fn):
            continue
        adds = {}      # word key -> [element]
        incs = {}
        saved = {}     # var index -> word key
        for el in fn.all_elements():
            for sub in ir.walk(fn, el.e):
                if sub[0] == "o=" and sub[1] in ("+", "+="):
                    w = _len_word(fn, sub[2])
                    if w is not None:
                        adds.setdefault(w, []).append((el, sub))
                elif sub[0] == "u" and sub[1] in ("++", "p++", "++p", "pre++", "post++"):
                    w = _len_word(fn, sub[2])
                    if w is not None:
                        incs.setdefault(w, []).append((el, sub))
                elif sub[0] == "=":
                    l = ir.strip_casts(sub[1])
                    if isinstance(l, list) and l[0] == "v":
                        w = _len_word(fn, sub[2])
                        if w is not None:
                            saved.setdefault(l[1], set()).add(w)
        words = set(adds) | set(incs)
        if not adds or len(words) < 2:
            continue
        n += 1
        # carry tests: (W or the addition to W) < saved old value of W
        def carry_test(sub, w):
            if not (sub[0] == "b" and sub[1] == "<"):
                return False
            r = ir.strip_casts(fn.resolve(sub[3]))
            if not (isinstance(r, list) and r[0] == "v" and w in saved.get(r[1], ())):
                return False
            l = ir.strip_casts(fn.resolve(sub[2]))
            if isinstance(l, list) and l[0] == "o=":
                return _len_word(fn, l[2]) == w
            return _len_word(fn, l) == w
        edges = {}
        for w in adds:
            for w2 in words:
                if w2 == w:
                    continue
                hit = False
                # (a) the carry test is an addend of the addition to w2
                for el, sub in adds.get(w2, ()):
                    if _contains(fn, sub[3], lambda s: carry_test(s, w)):
                        hit = True
                # (b) the carry test guards an increment of w2:  test && ++w2
                for el in fn.all_elements():
                    for sub in ir.walk(fn, el.e):
                        if sub[0] == "b" and sub[1] == "&&" and _contains(fn, sub[2], lambda s: carry_test(s, w)) and \
                                _contains(fn, sub[3], lambda s: s[0] == "u" and s[1] in ("++", "++p", "pre++") and _len_word(fn, s[2]) == w2):
                            hit = True
                if hit:
                    edges.setdefault(w, set()).add(w2)
        # LEN-UNIT: what is added to the lowest word either cannot exceed it (a constant, or a variable the facts bound) or
        # its high part is added to a higher word as well
        lows = [w for w in adds if not any(w in ts for ts in edges.values())]
        if len(lows) == 1 and edges.get(lows[0]):
            g = ctx.xcfg(prog, fn)
            F = Facts(prog, g)
            for el, sub in adds[lows[0]]:
                amt = sub[3]
                amts = [amt]
                a0 = ir.strip_casts(fn.resolve(amt))
                if isinstance(a0, list) and a0 and a0[0] == "x":
                    # an element of a local scratch array (addTemp[3] = length; ... += addTemp[3]): what is stored there
                    ak = key(fn, a0)
                    st_rhs = [x[2] for e2 in fn.all_elements() for x in ir.walk(fn, e2.e) if x[0] == "=" and key(fn, ir.strip_casts(x[1])) == ak]
                    if st_rhs:
                        amts = st_rhs
                if all(_const(fn, a) is not None for a in amts):
                    chk.ok("LEN-UNIT", fn, "Length", "a constant number of bits per step", line=el.line)
                    continue
                vs = set(x[1] for a in amts for x in ir.walk(fn, a, follow_refs=True) if x[0] == "v")
                vs = set(v for v in vs if "pc" not in fn.vars[v])
                bounded = bool(vs)
                for nd in g.nodes:
                    if nd.kind == "el" and nd.el is el:
                        st = F.at(nd)
                        if st is None or st is engines.UNIVERSE:
                            continue
                        for v in vs:
                            if not any(a[0] == "cmp" and a[1] == ("v", v) and a[2] in ("<", "<=") and isinstance(a[3], int) and a[3] <= (1 << 28) for a in st):
                                bounded = False
                high = False
                for w2 in words:
                    if w2 == lows[0]:
                        continue
                    for el2, sub2 in adds.get(w2, ()):
                        if any(x[0] == "b" and x[1] == ">>" and any(y[0] == "v" and y[1] in vs for y in ir.walk(fn, x[2], follow_refs=True)) for x in ir.walk(fn, sub2[3], follow_refs=True)):
                            high = True
                if bounded or high:
                    chk.ok("LEN-UNIT", fn, "Length", "the amount added to the low word is bounded, or its high part is added to the next word", line=el.line)
                else:
                    chk.fail("LEN-UNIT", fn, "Length", "`%s` adds an amount computed from a length (%s) to the low word of the bit count; what does not fit that word is neither refused nor added to the next word, only a carry of 1 is: from 2^29 octets in one call on the length field is wrong" % (
                        fn.fmt(sub)[:60], ", ".join(fn.vars[v]["n"] for v in sorted(vs)) or "?"), line=el.line)
        srcs = [w for w in adds if edges.get(w)]
        tgts = [t for w in srcs for t in edges[w]]
        ok = len(srcs) >= len(words) - 1 and len(set(tgts)) == len(tgts) and set(tgts) | set(srcs) == words and len(tgts) == len(words) - 1
        line = min(el.line for lst in adds.values() for el, _ in lst)
        if ok:
            chk.ok("LEN-CARRY", fn, "Length", "%d length words, %d carries, one chain" % (len(words), len(tgts)), line=line)
        else:
            lost = [engines.fmt_key(fn, w) for w in adds if not edges.get(w)]
            chk.fail("LEN-CARRY", fn, "Length",
                     "the bit length is kept in %d words but only %d carr%s handed on (no carry out of %s reaches another word, or two carries reach the same word): the length field is wrong for messages beyond the capacity of the low word(s)" % (
                         len(words), len(tgts), "y is" if len(tgts) == 1 else "ies are", ", ".join(lost[:-1] if len(lost) > 1 else lost) or "?"), line=line)
    return n


# ---------------------------------------------------------------------- PKCS7-REJECT
def rule_pkcs7(ctx, prog, chk):
    n = 0
    for fn in prog.all:
        if not in_scope(fn) or not re.search(r"padDecrypt$|pad_decrypt", fn.name):
            continue
        pv = [i for i, v in enumerate(fn.vars) if v["n"] == "padLen"]
        if not pv:
            chk.note("PKCS7-REJECT: %s has no variable padLen: shape not recognised, not decided" % fn.name)
            continue
        pk = ("v", pv[0])
        g = ctx.xcfg(prog, fn)
        F = Facts(prog, g)
        # which arm is CBC: the facts say cipher->mode == MODE_CBC (2)
        for nd in g.nodes:
            if nd.kind != "el":
                continue
            e = nd.el.e
            if not (e[0] == "c" and e[1] == "memcpy" and any(x == ["v", pv[0]] for x in ir.walk(fn, e[2][2]))):
                continue
            st = F.at(nd)
            if st is None or st is engines.UNIVERSE:
                continue
            mode = [a for a in st if a[0] == "cmp" and a[2] == "==" and isinstance(a[1], tuple) and a[1][0] == "m" and a[1][2] == "mode"]
            is_cbc = any(a[3] == 2 for a in mode) or not mode
            if not is_cbc:
                continue
            n += 1
            lo = engines.holds_cmp(st, pk, ">=", 1)
            hi = engines.holds_cmp(st, pk, "<=", 16)
            if lo and hi:
                chk.ok("PKCS7-REJECT", fn, "padLen:range", "0 < padLen <= 16 in force where the plaintext is released", line=nd.el.line)
            else:
                chk.fail("PKCS7-REJECT", fn, "padLen:range", "the last block is released with padLen %s in force: a final octet of %s is not rejected as invalid padding" % (
                    "only bounded above" if hi else ("only bounded below" if lo else "unbounded"), "0" if hi else "17..255"), line=nd.el.line)
            # the octet comparison: a branch comparing block[..] with padLen whose taken side returns a negative constant,
            # on every path from the assignment of padLen to this release
            cmpn = []
            for b in g.nodes:
                if b.kind == "br":
                    t = b.info.get("term")
                    c = t and t.get("c")
                    if c is None:
                        continue
                    c = ir.strip_casts(fn.resolve(c))
                    if isinstance(c, list) and c and c[0] == "b" and c[1] in ("!=", "==") and any(x == ["v", pv[0]] for x in ir.walk(fn, c)) and \
                            any(x[0] == "x" for x in ir.walk(fn, c)):
                        cmpn.append((b, c[1]))
            good = False
            for b, op in cmpn:
                stb = F.at(b)
                if stb is None or stb is engines.UNIVERSE:
                    continue
                same_arm = not mode or any(a in stb for a in mode)
                if not same_arm:
                    continue
                for s, lab in b.succ:
                    if (op == "!=" and lab == "T") or (op == "==" and lab == "F"):
                        if _leads_to_error_return(fn, g, s):
                            good = True
            if not good:
                good_h = _scan_in_helper(prog, fn, g, F, pv[0], mode)
            else:
                good_h = False
            if good_h or (good and _loop_covers(fn, pv[0])):
                chk.ok("PKCS7-REJECT", fn, "padLen:octets", "every padding octet is compared with padLen, a mismatch returns an error", line=nd.el.line)
            else:
                chk.fail("PKCS7-REJECT", fn, "padLen:octets", "no comparison of the padding octets with padLen whose failing side is an error return covers the octets [16 - padLen, 16): malformed padding is accepted", line=nd.el.line)
    # the public wrapper turns the error into RLC_ERR
    for fn in prog.all:
        if not in_scope(fn):
            continue
        for el in fn.all_elements():
            e = el.e
            if e[0] == "=" and isinstance(ir.strip_casts(fn.resolve(e[2])), list) and ir.strip_casts(fn.resolve(e[2]))[0] == "c" and \
                    re.search(r"padDecrypt$", str(ir.strip_casts(fn.resolve(e[2]))[1] or "")):
                l = ir.strip_casts(e[1])
                if not (isinstance(l, list) and l[0] == "v"):
                    continue
                n += 1
                g = ctx.xcfg(prog, fn)
                F = Facts(prog, g)
                bad = None
                for p, st in engines.normal_exit_states(F, g):
                    # on a path where the result is known <= 0 ... the return value must not be RLC_OK; check the converse:
                    # every exit that returns RLC_OK (0) has result > 0 in force
                    rv = _return_const(fn, p)
                    if rv == 0 and not engines.holds_cmp(st, ("v", l[1]), ">=", 1):
                        bad = p
                if bad is None:
                    chk.ok("PKCS7-REJECT", fn, "status", "RLC_OK only with a positive length from %s" % "padDecrypt", line=el.line)
                else:
                    chk.fail("PKCS7-REJECT", fn, "status", "a return of RLC_OK is reachable although the unpadding did not report a positive length: rejected padding is not reported to the caller", line=el.line)
    return n


def _scan_in_helper(prog, fn, g, F, pv, mode):
    """the octet comparison moved into a static helper: a branch on helper(.., padLen ..) whose failing side is an error
    return, the helper comparing indexed octets with that parameter over [16 - p, 16)"""
    for b in g.nodes:
        if b.kind != "br":
            continue
        t = b.info.get("term")
        c = t and t.get("c")
        if c is None:
            continue
        stb = F.at(b)
        if stb is None or stb is engines.UNIVERSE:
            continue
        if mode and not any(a in stb for a in mode):
            continue
        for cl in ir.calls_in(fn, c, True):
            if not cl[1]:
                continue
            pos = [i for i, a in enumerate(cl[2]) if ir.strip_casts(fn.resolve(a)) == ["v", pv]]
            h = prog.get(cl[1], near=fn)
            if not pos or h is None or not h.static or pos[0] >= len(h.params):
                continue
            hp = h.params[pos[0]]
            cmp_ok = False
            for hb in h.blocks.values():
                ht = getattr(hb, "term", None)
                if ht and ht.get("c") is not None:
                    hc = ir.strip_casts(h.resolve(ht["c"]))
                    if isinstance(hc, list) and hc and hc[0] == "b" and hc[1] in ("!=", "==") and any(x == ["v", hp] for x in ir.walk(h, hc)) \
                            and any(x[0] == "x" for x in ir.walk(h, hc)):
                        cmp_ok = True
            if not (cmp_ok and _loop_covers(h, hp)):
                continue
            # which way fails: the helper's truth must not lead to the error, its falsity must
            atoms_t = engines.cond_atoms(fn, c, True)
            fails_on = None
            for a in atoms_t:
                if a[0] == "cmp" and isinstance(a[1], tuple) and a[1][0] == "c" and a[1][1] == cl[1]:
                    fails_on = "F" if engines.entails(a[2], a[3], "!=", 0) else "T"
            if fails_on is None:
                continue
            for s2, lab in b.succ:
                if lab == fails_on and _leads_to_error_return(fn, g, s2):
                    return True
    return False


def _return_const(fn, node):
    if node.kind == "el" and node.el.e[0] == "ret" and node.el.e[1] is not None:
        return _const(fn, node.el.e[1])
    return None


def _leads_to_error_return(fn, g, node, depth=0):
    """the node sequence from `node` reaches a `return <negative constant>` without branching"""
    cur = node
    for _ in range(12):
        if cur.kind == "el":
            e = cur.el.e
            if e[0] == "ret":
                c = _const(fn, e[1]) if e[1] is not None else None
                return c is not None and c < 0
        if cur.kind == "br" or len(cur.succ) != 1:
            return False
        cur = cur.succ[0][0]
    return False


def _loop_covers(fn, pv):
    """the scan covers the octets [16 - padLen, 16): an ascending scan from 16 - padLen up to 16 or a descending one from
    15 down to 16 - padLen; the difference 16 - padLen (or 15 - padLen) must be what bounds it on the low side"""
    low = False
    high = False
    for el in fn.all_elements():
        for sub in ir.walk(fn, el.e):
            if sub[0] == "b" and sub[1] == "-" and _const(fn, sub[2]) in (15, 16) and ir.strip_casts(fn.resolve(sub[3])) == ["v", pv]:
                low = True
            if sub[0] in ("=", "d") and sub[2] is not None and _const(fn, sub[2]) in (15, 16):
                high = True
    for b in fn.blocks.values():
        t = getattr(b, "term", None)
        if t and t.get("c") is not None:
            c = ir.strip_casts(fn.resolve(t["c"]))
            if isinstance(c, list) and c and c[0] == "b" and c[1] in ("<", "<=") and _const(fn, c[3]) in (15, 16):
                high = True
    return low and high


# ---------------------------------------------------------------------- HMAC-KEY
def rule_hmac(ctx, prog, chk):
    n = 0
    for fn in prog.all:
        if not in_scope(fn) or not re.search(r"(^|_)md_hmac$", fn.name):
            continue
        names = fn.param_names()
        if "key" not in names or "key_len" not in names:
            raise AnalysisBroken("HMAC-KEY: parameters key / key_len of %s not found" % fn.name)
        kv = fn.param_index("key")
        lv = fn.param_index("key_len")
        n += 1
        g = ctx.xcfg(prog, fn)
        # threshold: branch key_len > B whose taken side calls a hash with (.., key, key_len)
        thr = None
        hashed = False
        for b in g.nodes:
            if b.kind != "br":
                continue
            t = b.info.get("term")
            c = t and t.get("c")
            if c is None:
                continue
            c = ir.strip_casts(fn.resolve(c))
            if isinstance(c, list) and c and c[0] == "b" and c[1] in (">", ">=") and ir.strip_casts(fn.resolve(c[2])) == ["v", lv]:
                k = _const(fn, c[3])
                if k is None:
                    continue
                B = k if c[1] == ">" else k - 1
                for s, lab in b.succ:
                    if lab != "T":
                        continue
                    cur = s
                    for _ in range(10):
                        if cur.kind == "el":
                            for sub in ir.walk(fn, cur.el.e):
                                if sub[0] == "c" and sub[1] and sub[1].startswith("md_map") and len(sub[2]) >= 3 and \
                                        ir.strip_casts(fn.resolve(sub[2][1])) == ["v", kv] and ir.strip_casts(fn.resolve(sub[2][2])) == ["v", lv]:
                                    hashed = True
                                    thr = B
                        if len(cur.succ) != 1:
                            break
                        cur = cur.succ[0][0]
        if not hashed:
            chk.fail("HMAC-KEY", fn, "key", "no test `key_len > block size` whose taken side replaces the key by its digest: keys longer than a block are used (or truncated) as they are, RFC 2104 hashes them first", line=fn.line)
            continue
        # the pad loop bound and the XOR constants
        bounds = set()
        for b in fn.blocks.values():
            t = getattr(b, "term", None)
            if t and t.get("c") is not None and t.get("k") in ("ForStmt", "WhileStmt"):
                c = ir.strip_casts(fn.resolve(t["c"]))
                if isinstance(c, list) and c and c[0] == "b" and c[1] == "<":
                    k = _const(fn, c[3])
                    if k is not None:
                        bounds.add(k)
        xors = set()
        for el in fn.all_elements():
            for sub in ir.walk(fn, el.e):
                if sub[0] == "b" and sub[1] == "^":
                    for o in (sub[2], sub[3]):
                        k = _const(fn, o)
                        if k is not None:
                            xors.add(k)
        blk = _hash_block_size(prog)
        bad = None
        if bounds and bounds != {thr}:
            bad = "the pads are built over %s octets while keys are hashed above %d" % (sorted(bounds), thr)
        elif xors and xors != {0x36, 0x5C}:
            bad = "the pad constants are %s, RFC 2104 defines 0x36 and 0x5c" % sorted(hex(x) for x in xors)
        elif blk is not None and thr != blk:
            bad = "the block size used for the key (%d) is not the block size of the configured hash function (%d)" % (thr, blk)
        if bad:
            chk.fail("HMAC-KEY", fn, "key", bad, line=fn.line)
        else:
            chk.ok("HMAC-KEY", fn, "key", "keys longer than %d octets are hashed; pads over %d octets with 0x36 / 0x5c" % (thr, thr), line=fn.line)
    return n


def _hash_block_size(prog):
    """block size of the function md_map designates in this configuration: taken from the configuration header"""
    lib = prog
    while getattr(lib, "library", None) is not None:
        lib = lib.library
    txt = lib.data.get("conf_h") or ""
    m = re.search(r"#define\s+MD_MAP\s+(\w+)", txt)
    if not m:
        return None
    return {"SH224": 64, "SH256": 64, "B2S160": 64, "B2S256": 64, "SH384": 128, "SH512": 128}.get(m.group(1))


# ---------------------------------------------------------------------- FINAL-PAD
def rule_final_pad(ctx, prog, chk):
    n = 0
    for fn in prog.all:
        if not in_scope(fn) or not re.search(r"blake2s_final$", fn.name):
            continue
        g = ctx.xcfg(prog, fn)

        def gen(node, s, pre, fn=fn):
            out = []
            for cl in ir.calls_in(fn, node.el.e):
                if cl[1] == "memset" and len(cl[2]) == 3 and _const(fn, cl[2][1]) == 0:
                    names = set(x[2] for x in ir.walk(fn, cl[2][0], follow_refs=True) if x[0] == "m")
                    lens = set(x[2] for x in ir.walk(fn, cl[2][2], follow_refs=True) if x[0] == "m")
                    if "buf" in names and "buflen" in names and "buflen" in lens:
                        out.append(("ev", "padded"))
            return out
        F = Facts(prog, g, gen=gen)
        for nd in g.nodes:
            if nd.kind != "el":
                continue
            for cl in ir.calls_in(fn, nd.el.e):
                if cl[1] and re.search(r"blake2s_compress$", cl[1]):
                    st = F.at(nd)
                    if st is None or st is engines.UNIVERSE:
                        continue
                    n += 1
                    if ("ev", "padded") in st:
                        chk.ok("FINAL-PAD", fn, "buf", "the tail of the buffer is zero-filled on every path to the last compression", line=nd.el.line)
                    else:
                        chk.fail("FINAL-PAD", fn, "buf", "the last block is compressed on a path on which the buffer was not zero-filled from the buffered length to the block size: for messages longer than one block that do not end on a block boundary the tail still holds octets of the previous block", line=nd.el.line)
    return n


# ---------------------------------------------------------------------- ERR-SIGN
def _returns_negative(g):
    for el in g.all_elements():
        if el.e[0] == "ret" and el.e[1] is not None:
            c = _const(g, el.e[1])
            if c is not None and c < 0:
                return True
    return False


def rule_err_sign(ctx, prog, chk):
    n = 0
    for fn in prog.all:
        if not in_scope(fn):
            continue
        for el in fn.all_elements():
            for sub in ir.walk(fn, el.e):
                tgt = rhs = None
                if sub[0] == "d" and sub[2] is not None:
                    tgt, rhs = sub[1], sub[2]
                elif sub[0] == "=" and ir.strip_casts(sub[1])[0] == "v":
                    tgt, rhs = ir.strip_casts(sub[1])[1], sub[2]
                if tgt is None:
                    continue
                r = fn.resolve(rhs)
                if isinstance(r, list) and r and r[0] == "k":
                    continue            # an explicit cast states the intention
                if not (isinstance(r, list) and r and r[0] == "c" and r[1]):
                    continue
                g = prog.get(r[1], near=fn)
                if g is None or not _returns_negative(g):
                    continue
                n += 1
                v = fn.vars[tgt]
                ty = (v.get("c") or "").replace("const ", "")
                if ty.startswith("unsigned") or ty == "_Bool":
                    chk.fail("ERR-SIGN", fn, v["n"], "`%s` reports errors as negative values; stored in the %s `%s` they become huge positive ones and a test such as `%s <= 0` no longer refuses them" % (
                        r[1], v.get("t") or ty, v["n"], v["n"]), line=el.line)
                else:
                    chk.ok("ERR-SIGN", fn, v["n"], "signed result variable", line=el.line)
    return n


# ---------------------------------------------------------------------- KDF-COUNTER
def rule_kdf_counter(ctx, prog, chk):
    n = 0
    want = {"md_mgf": 0, "md_kdf": 1}
    helpers = set()
    for fn in prog.all:
        if not in_scope(fn):
            continue
        base = fn.name.split("__")[-1]
        if base not in want:
            continue
        calls = [sub for el in fn.all_elements() for sub in ir.walk(fn, el.e) if sub[0] == "c" and sub[1] and prog.get(sub[1], near=fn) is not None and in_scope(prog.get(sub[1], near=fn))]
        if len(calls) != 1 or not calls[0][2]:
            chk.note("KDF-COUNTER: %s does not delegate to one helper: shape not recognised, not decided" % fn.name)
            continue
        n += 1
        c = calls[0]
        k = _const(fn, c[2][-1])
        if k is None:
            chk.note("KDF-COUNTER: %s: the counter start handed to %s is not a constant, not decided" % (fn.name, c[1]))
        elif k != want[base]:
            chk.fail("KDF-COUNTER", fn, "start", "%s starts the block counter at %d, the standard it implements (%s) at %d: every derived octet differs from what another implementation derives, while the library's own round trips still agree" % (
                base, k, "PKCS #1 MGF1" if base == "md_mgf" else "IEEE 1363 KDF2", want[base]), line=fn.line)
        else:
            chk.ok("KDF-COUNTER", fn, "start", "counter starts at %d" % k, line=fn.line)
        helpers.add(prog.get(c[1], near=fn))
    for h in helpers:
        # the counter octets: memcpy(<buffer> + <input length parameter>, &j, 4) with j = util_conv_big(counter)
        big = set()
        for el in h.all_elements():
            for sub in ir.walk(h, el.e):
                if sub[0] == "=":
                    l = ir.strip_casts(sub[1])
                    r = ir.strip_casts(h.resolve(sub[2]))
                    if isinstance(l, list) and l[0] == "v" and isinstance(r, list) and r and r[0] == "c" and r[1] == "util_conv_big":
                        big.add(l[1])
        found = None
        for el in h.all_elements():
            for sub in ir.walk(h, el.e):
                if sub[0] == "c" and sub[1] == "memcpy" and len(sub[2]) == 3:
                    src = ir.strip_casts(h.resolve(sub[2][1]))
                    if isinstance(src, list) and src[0] == "u" and src[1] == "&":
                        v = ir.strip_casts(src[2])
                        if isinstance(v, list) and v[0] == "v":
                            found = (el, v[1], sub)
        if found is None:
            # the counter stored octet by octet: X[<input length> + c] = (uint8_t)(i >> s), c = 0..3
            st = {}
            for el in h.all_elements():
                for sub in ir.walk(h, el.e):
                    if sub[0] != "=":
                        continue
                    l = ir.strip_casts(sub[1])
                    if not (isinstance(l, list) and l[0] == "x"):
                        continue
                    idx = ir.strip_casts(h.resolve(l[2]))
                    off = None
                    if isinstance(idx, list) and idx[0] == "v" and h.vars[idx[1]].get("k") == "p":
                        off = 0
                    elif isinstance(idx, list) and idx[0] == "b" and idx[1] == "+":
                        a, b2 = ir.strip_casts(h.resolve(idx[2])), _const(h, idx[3])
                        if isinstance(a, list) and a[0] == "v" and h.vars[a[1]].get("k") == "p" and b2 is not None:
                            off = b2
                    if off is None:
                        continue
                    r = ir.strip_casts(h.resolve(sub[2]))
                    sh = 0
                    if isinstance(r, list) and r and r[0] == "b" and r[1] == ">>" and _const(h, r[3]) is not None:
                        sh = _const(h, r[3])
                        r = ir.strip_casts(h.resolve(r[2]))
                    if isinstance(r, list) and r and r[0] == "b" and r[1] == "&":
                        r = ir.strip_casts(h.resolve(r[2]))
                    if isinstance(r, list) and r and r[0] == "v":
                        st[off] = (sh, el.line)
            if sorted(st) == [0, 1, 2, 3]:
                n += 1
                got = [st[k][0] for k in range(4)]
                if got == [24, 16, 8, 0]:
                    chk.ok("KDF-COUNTER", h, "octets", "four big-endian octets after the input (stored one by one)", line=st[0][1])
                else:
                    chk.fail("KDF-COUNTER", h, "octets", "the four counter octets after the input take the counter shifted by %s, big-endian order needs [24, 16, 8, 0]: blocks whose counter does not fit the octets that are right are derived from a wrong counter string" % got, line=st[0][1])
                continue
            chk.note("KDF-COUNTER: %s: no memcpy of a counter variable found, byte order not decided" % h.name)
            continue
        n += 1
        el, v, sub = found
        dst = ir.strip_casts(h.resolve(sub[2][0]))
        if isinstance(dst, list) and dst and dst[0] == "v" and h.vars[dst[1]].get("k") == "l":
            # a local pointer assigned once (uint8_t *ctr = buffer + in_len;)
            defs = [x for e2 in h.all_elements() for x in ir.walk(h, e2.e)
                    if (x[0] == "d" and x[1] == dst[1] and x[2] is not None) or (x[0] == "=" and ir.strip_casts(x[1]) == dst)]
            defs = [x for x in defs if (ir.peel(h, x[2]) or [None])[:2] != ["i", 0]]      # `= NULL` at the declaration
            if len(defs) == 1:
                dst = ir.strip_casts(h.resolve(defs[0][2]))
        off_ok = isinstance(dst, list) and dst[0] == "b" and dst[1] == "+" and any(x[0] == "v" and h.vars[x[1]].get("k") == "p" for x in ir.walk(h, dst[3]))
        if v not in big:
            chk.fail("KDF-COUNTER", h, "octets", "the counter octets appended to the input are copied from `%s`, which is not the big-endian conversion of the counter (util_conv_big): on a little-endian machine the counter is appended least significant octet first" % h.vars[v]["n"], line=el.line)
        elif _const(h, sub[2][2]) != 4 or not off_ok:
            chk.fail("KDF-COUNTER", h, "octets", "the counter is not appended as four octets right after the input", line=el.line)
        else:
            chk.ok("KDF-COUNTER", h, "octets", "four big-endian octets after the input", line=el.line)
    return n


# ---------------------------------------------------------------------- SHIFT-DEAD
def rule_shift_dead(ctx, prog, chk):
    n = 0
    for fn in prog.all:
        if not in_scope(fn):
            continue
        for el in fn.all_elements():
            for sub in ir.walk(fn, el.e):
                if not (sub[0] == "b" and sub[1] == ">>"):
                    continue
                k = _const(fn, sub[3])
                if k is None:
                    continue
                n += 1
                l = fn.resolve(sub[2])
                if isinstance(l, list) and l and l[0] == "k" and isinstance(l[1], dict) and l[1].get("c") in INTS + INT8 and l[1].get("sz") and 8 * l[1]["sz"] <= k \
                        and (l[1]["c"].startswith("unsigned") or l[1]["c"] == "char"):
                    chk.fail("SHIFT-DEAD", fn, fn.fmt(sub)[:40], "`%s` narrows its operand to %d bits and then shifts it right by %d: the result is 0 for every input, the high octet of the quantity is lost" % (
                        fn.fmt(sub)[:60], 8 * l[1]["sz"], k), line=el.line)
                else:
                    chk.ok("SHIFT-DEAD", fn, fn.fmt(sub)[:40], "operand wider than the shift", line=el.line)
    return n


# ---------------------------------------------------------------------- driver
def analyse(ctx, prog, chk, selftest=False):
    chk.used_program(prog)
    c = {}
    c["tab"] = rule_tables(ctx, prog, chk, selftest)
    c["narrow"] = rule_len_narrow(ctx, prog, chk)
    c["field"] = rule_len_field(ctx, prog, chk)
    c["carry"] = rule_len_carry(ctx, prog, chk)
    c["pkcs7"] = rule_pkcs7(ctx, prog, chk)
    c["hmac"] = rule_hmac(ctx, prog, chk)
    c["shift"] = rule_shift_dead(ctx, prog, chk)
    c["kdf"] = rule_kdf_counter(ctx, prog, chk)
    c["errsign"] = rule_err_sign(ctx, prog, chk)
    c["fpad"] = rule_final_pad(ctx, prog, chk)
    return c


def selfcheck(ctx, prog, chk):
    analyse(ctx, prog, chk, selftest=True)


def run(ctx, chk):
    c = analyse(ctx, ctx.program("BASE"), chk)
    chk.floor("TABLE-STD", "constant tables of the hash functions and the cipher", c["tab"], 19)
    chk.floor("LEN-NARROW", "size_t length parameters handed to narrower parameters", c["narrow"], 2)
    chk.floor("LEN-FIELD", "padding routines with a length field", c["field"], 2)
    chk.floor("LEN-CARRY", "functions adding to a multi-word bit length", c["carry"], 2)
    chk.floor("PKCS7-REJECT", "unpadding release points and wrappers", c["pkcs7"], 2)
    chk.floor("HMAC-KEY", "HMAC key preparations", c["hmac"], 1)
    chk.floor("KDF-COUNTER", "counter starts and counter encodings", c["kdf"], 2)
    chk.floor("FINAL-PAD", "final compressions of BLAKE2s", c["fpad"], 1)
    chk.floor("ERR-SIGN", "results of routines that return negative error codes", c["errsign"], 2)
    chk.floor("SHIFT-DEAD", "right shifts by a constant", c["shift"], 100)
    if chk.tier == "thorough":
        from .. import facts
        # the HMAC block size and the tables under the other digest selections
        for name, md in (("MD384", "SH384"), ("MD512", "SH512"), ("MDB2S", "B2S256")):
            facts.CONFIGS.setdefault(name, ["-DMD_METHD=" + md])
            p = ctx.program(name)
            chk.used_program(p)
            rule_hmac(ctx, p, chk)
            rule_len_narrow(ctx, p, chk)
            ctx._prog.pop(name, None)
