"""INSTALL-COMPLETE (C19): placeholder until implemented."""


def run(ctx, chk):
    return
