"""INSTALL-MUST (C19, "after any sequence of parameter selections the library computes exactly what a freshly initialised
library with the last selection computes"): every normal return of a parameter setter has passed the store of the setter's identifier
field, which is part of the installation sequence of every setter.  A path that skips the installation is admissible only if it is keyed on the setter's identifier
field *and* that key is sound, i.e. every public installer of the same state also writes the identifier - otherwise
another installer leaves the identifier stale and the skip keeps constants of a different parameter set."""
import re

from .. import ir, engines
from ..engines import Facts, key
from ..facts import AnalysisBroken
from .c03 import c05_line

# setter -> (identifier field of the context, regex of the public installers of the state it selects)
SETTERS = {
    "fp_param_set": ("fp_id", re.compile(r"^fp_prime_set_(dense|pairf|pmers)$")),
    "fb_param_set": ("fb_id", re.compile(r"^fb_poly_set_(dense|trino|penta)$")),
    "ep_param_set": ("ep_id", re.compile(r"^ep_curve_set_(plain|super|endom)$")),
    "eb_param_set": ("eb_id", re.compile(r"^eb_curve_set$")),
    "ed_param_set": ("ed_id", re.compile(r"^ed_curve_set$")),
}


def analyse(ctx, prog, chk):
    n = 0
    lib = prog
    while getattr(lib, "library", None) is not None:
        lib = lib.library
    for fn in prog.all:
        b = fn.name.split("__")[-1]
        if b not in SETTERS:
            continue
        idf, inst = SETTERS[b]
        g = ctx.xcfg(prog, fn)

        def gen(node, s, pre, inst=inst, idf=idf):
            # the installation sequence of every setter stores the identifier (the selected value, or 0 for a set
            # that has none); a path without that store has bypassed the sequence
            for sub in ir.walk(fn, node.el.e):
                if sub[0] == "=":
                    l = ir.strip_casts(sub[1])
                    if isinstance(l, list) and l[0] == "m" and l[2] == idf:
                        return [("ev", "installed")]
            return []
        F = Facts(prog, g, gen=gen, mark_thrown=True)
        bad = None
        keyed = False
        nret = 0
        for p, st in engines.normal_exit_states(F, g):
            nret += 1
            if ("ev", "installed") not in st:
                bad = p
                for x in st:
                    if x[0] in ("cmp", "rel"):
                        txt = repr(x)
                        if idf in txt or re.search(r"%s_param_get" % b.split("_")[0], txt):
                            keyed = True
        if nret == 0:
            continue        # no parameter set of this module is selectable under this configuration: every path throws
        n += 1
        if bad is None:
            chk.ok("INSTALL-MUST", fn, idf, "every normal return has passed the store of ->%s inside the installation sequence" % idf, line=fn.line)
            continue
        stale = []
        # a curve setter also installs the field underneath (it calls the field's setter): the public installers of the
        # field change that state without knowing the curve identifier
        under = None
        called = set(c[1] for el in fn.all_elements() for c in ir.calls_in(fn, el.e) if c[1])
        if any(re.match(r"^fp_(param_set|prime_set_\w+)$", c) for c in called):
            under = re.compile(r"^fp_(param_set|prime_set_(dense|pairf|pmers))$")
        elif any(re.match(r"^fb_(param_set|poly_set_\w+)$", c) for c in called):
            under = re.compile(r"^fb_(param_set|poly_set_(dense|trino|penta))$")
        if keyed:
            for f2 in lib.all:
                if (inst.match(f2.name) or (under is not None and under.match(f2.name))) and not f2.static:
                    writes_id = any(sub[0] == "=" and isinstance(ir.strip_casts(sub[1]), list) and ir.strip_casts(sub[1])[0] == "m" and ir.strip_casts(sub[1])[2] == idf
                                    for el in f2.all_elements() for sub in ir.walk(f2, el.e))
                    if not writes_id:
                        stale.append(f2.name)
        if keyed and not stale:
            chk.ok("INSTALL-MUST", fn, idf, "the skipping path is keyed on ->%s and every public installer writes that identifier" % idf, line=fn.line)
        elif keyed:
            chk.fail("INSTALL-MUST", fn, idf, "a normal return skips the installation when the identifier ->%s matches, but %s install(s) the same state without writing that identifier: after one of them the identifier is stale and the constants of a different parameter set stay in use" % (
                idf, ", ".join("`%s`" % x for x in stale[:3])), line=c05_line(bad, fn))
        else:
            chk.fail("INSTALL-MUST", fn, idf, "a normal return is reachable that bypasses the installation sequence (the identifier ->%s is not stored on it)" % idf, line=c05_line(bad, fn))
    return n


def run(ctx, chk):
    n = analyse(ctx, ctx.program("BASE"), chk)
    chk.floor("INSTALL-MUST", "parameter setters", n, 4)
    for cfg in ("P255", "P381"):
        analyse(ctx, ctx.program(cfg), chk)
