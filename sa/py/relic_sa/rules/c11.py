"""C11 — structural clauses of the curves over extension fields (ep2, ep3, ep4, ep8).

  SM-SIGN   every scalar-multiplication sibling (variable base, fixed base, simultaneous, GLS; 128 functions) honours the sign of
            each scalar parameter on every path that returns a point computed from it: sign test (also of a copy or of the
            sub-scalars of a decomposition), reduction modulo the order, or delegation to a sibling ("all scalars ... negative")
  PAR-SIGN  the signed curve parameter's low digit is never used as a whole multiplier without its sign being consulted
            (expected count zero on today's tree; kept alive by its miniature)
  LOOP-BITS a bit scan of a scalar is bounded by that scalar's length
  OUT-RBW   no coordinate of an output point is read before it was written on every path (the suite calls addition, doubling and
            normalisation in place, where a read of the output's own coordinate goes unnoticed)
  ALIAS-RW  no coordinate of an input point is read in a later statement than a write of that coordinate of an output point
            (single points; precomputation tables are not outputs anyone aliases)
  CONST-IN  no function of the module stores through a parameter it declares const
  (the cofactor routines epN_mul_cof are decided under C13: COF-ID, COF-PARAM, OUT-DEF; decoders, buffers and regular
  recodings of these curves under C07, C08 and C20)
"""
import re

from .. import expsib, alias
from . import c02

EXPLANATION = (
    "Static decision of three structural clauses of C11 over src/epx under the 256- and 381-bit configuration headers (the "
    "ep3, ep4 and ep8 code compiles in every configuration and is run by none of the suite's): forward must-dataflow over the "
    "exploded CFG, per world of the configuration queries, shows that each of the scalar-multiplication siblings honours the "
    "sign of every scalar parameter; a must-definition analysis shows that no output coordinate is read before it is written; "
    "parameter-write summaries show that inputs are not written. The group law, [k]Q as a value, the Frobenius eigenvalue and "
    "the image of the cofactor map are algebraic and are not decided; scalars longer than the group order are NOT handled by "
    "these siblings today (no reduction before fixed-size recodings: recorded as an observation in DESIGN.md 10.6, not claimed). "
    "Nothing of RELIC is executed.")

_NORM_OK = "default arm of the coordinate switch in the normalisation helper: p->coord is PROJC or JACOB there, the arm that copies p whole is unreachable"
POINT_ALIAS_OK = {
    ("ep2_norm_imp", "r", "p", "z", "ep2_copy"): _NORM_OK, ("ep3_norm_imp", "r", "p", "z", "ep3_copy"): _NORM_OK,
    ("ep4_norm_imp", "r", "p", "z", "ep4_copy"): _NORM_OK, ("ep8_norm_imp", "r", "p", "z", "ep8_copy"): _NORM_OK,
    ("ep2_frb", "r", "p", "*", "ep2_mul_basic"): "fallback for twists with a != 0, which no tabulated parameter set has: the loop repeats [t]P instead of iterating on the result (observation, DESIGN.md 10.4); not reachable",
}
FAM = re.compile(r"^ep\d_mul(_\w+)?$")
NOT_MUL = re.compile(r"_mul_(pre|cof|tab)|_mul_pre_|_mul_fix_tab")


def family(prog):
    return [fn for fn in prog.all if FAM.match(fn.name.split("__")[-1]) and not NOT_MUL.search(fn.name) and (fn.rfile.startswith("src/epx/") or "selftest" in fn.file)]


def analyse(ctx, prog, chk):
    chk.used_program(prog)
    fam = family(prog)
    ns = expsib.rule_sm_sign(ctx, prog, chk, fam, FAM)
    nb = expsib.rule_loop_bits(ctx, prog, chk, fam)
    npar = expsib.rule_par_sign(ctx, prog, chk, lambda fn: fn.rfile.startswith("src/epx/"))
    if npar == 0:
        chk.ok("PAR-SIGN", "src/epx", "none", "no function of the module uses the low digit of the signed curve parameter as a whole multiplier (the rule is exercised by its miniature)")
    nr = alias.rule_out_rbw(ctx, prog, chk, lambda fn: fn.rfile.startswith("src/epx/"), re.compile(r"^ep\d+_t\b"))
    na = alias.rule(ctx, prog, chk, lambda fn: fn.rfile.startswith("src/epx/"), POINT_ALIAS_OK, points=True)[0]
    nc = c02.rule_const_in(ctx, prog, chk, prefix=("src/epx/",))
    return {"sign": ns, "rbw": nr, "const": nc, "palias": na, "bits": nb}


def selfcheck(ctx, prog, chk):
    analyse(ctx, prog, chk)


def run(ctx, chk):
    c = analyse(ctx, ctx.program("BASE"), chk)
    chk.floor("SM-SIGN", "scalar parameters of the multiplication siblings", c["sign"], 100)
    chk.floor("LOOP-BITS", "bit scans of scalars", c["bits"], 4)
    chk.floor("OUT-RBW", "output points of functions that also take an input point", c["rbw"], 200)
    chk.floor("ALIAS-RW", "output/input pairs of single points", c["palias"], 200)
    chk.floor("CONST-IN", "const pointer parameters of the module", c["const"], 400)
    analyse(ctx, ctx.program("P381"), chk)
    if chk.tier == "thorough":
        # the field sizes whose pairing curves select the cubic, quartic and octic twists
        from .. import facts
        from ..facts import AnalysisBroken
        for bits in (315, 330, 354, 575, 638):
            name = "P%d" % bits
            facts.CONFIGS.setdefault(name, ["-DFP_PRIME=%d" % bits] + (["-DBN_PRECI=%d" % (2 * bits + 64)] if bits > 512 else []))
            try:
                analyse(ctx, ctx.program(name), chk)
            except AnalysisBroken as e:
                chk.note("thorough: configuration %s: %s" % (name, str(e)[:160]))
            ctx._prog.pop(name, None)
