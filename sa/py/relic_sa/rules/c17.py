"""C17 — structural clauses of the Edwards-curve module.

  SM-SIGN   every scalar-multiplication sibling honours the sign of each scalar parameter on every path that returns a point
            computed from it (sign test, reduction modulo the order, delegation)
  OUT-RBW   no coordinate of an output point is read before it was written on every path
  ALIAS-RW  no coordinate of an input point is read in a later statement than a write of that coordinate of an output point
            (single points; precomputation tables are not outputs anyone aliases)
  CONST-IN  no function of the module stores through a parameter it declares const
  (hashing to the curve and cofactor clearing are decided under C13, the decoder under C07, the recoding buffers under
  C08, the ladder under C20)
"""
import re

from .. import expsib, alias
from . import c02

EXPLANATION = (
    "Static decision of three structural clauses of C17 over src/ed under the 256-bit (where no Edwards curve is selectable and "
    "the suite therefore runs none of this module) and the 255-bit configuration headers: forward must-dataflow shows that "
    "every scalar-multiplication sibling honours the sign of each scalar; a must-definition analysis shows that no output "
    "coordinate is read before it is written; parameter-write summaries show that inputs are not written. The Edwards group "
    "law in each coordinate system, [k]P as a value, and the compression round trip are value properties and are not decided; "
    "scalars longer than the group order are not reduced by these siblings today (observation, DESIGN.md 10.6). Nothing of "
    "RELIC is executed.")

POINT_ALIAS_OK = {}
FAM = re.compile(r"^ed_mul(_\w+)?$")
NOT_MUL = re.compile(r"_mul_(pre|cof|tab)|_mul_pre_|_mul_fix_tab")


def family(prog):
    return [fn for fn in prog.all if FAM.match(fn.name.split("__")[-1]) and not NOT_MUL.search(fn.name) and (fn.rfile.startswith("src/ed/") or "selftest" in fn.file)]


def analyse(ctx, prog, chk):
    chk.used_program(prog)
    fam = family(prog)
    ns = expsib.rule_sm_sign(ctx, prog, chk, fam, FAM)
    nb = expsib.rule_loop_bits(ctx, prog, chk, fam)
    nr = alias.rule_out_rbw(ctx, prog, chk, lambda fn: fn.rfile.startswith("src/ed/"), re.compile(r"^ed_t\b"))
    na = alias.rule(ctx, prog, chk, lambda fn: fn.rfile.startswith("src/ed/"), POINT_ALIAS_OK, points=True)[0]
    nc = c02.rule_const_in(ctx, prog, chk, prefix=("src/ed/",))
    return {"sign": ns, "rbw": nr, "const": nc, "palias": na, "bits": nb}


def selfcheck(ctx, prog, chk):
    analyse(ctx, prog, chk)


def run(ctx, chk):
    c = analyse(ctx, ctx.program("BASE"), chk)
    chk.floor("SM-SIGN", "scalar parameters of the multiplication siblings", c["sign"], 20)
    chk.floor("LOOP-BITS", "bit scans of scalars", c["bits"], 4)
    chk.floor("OUT-RBW", "output points of functions that also take an input point", c["rbw"], 35)
    chk.floor("ALIAS-RW", "output/input pairs of single points", c["palias"], 35)
    chk.floor("CONST-IN", "const pointer parameters of the module", c["const"], 60)
    analyse(ctx, ctx.program("P255"), chk)
    if chk.tier == "thorough":
        # the extended and the affine coordinate systems (the default is projective): the t coordinate is live under EXTND
        from .. import facts
        for name, meth in (("EDEXT", "EXTND;LWNAF;COMBS;INTER"), ("EDBAS", "BASIC;LWNAF;COMBS;INTER")):
            facts.CONFIGS.setdefault(name, ["-DFP_PRIME=255", "-DED_METHD=" + meth])
            analyse(ctx, ctx.program(name), chk)
            ctx._prog.pop(name, None)
