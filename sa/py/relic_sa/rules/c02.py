"""C02 — structural clauses of prime-field arithmetic.

  INV0      every selectable inversion algorithm returns normally only when fp_is_zero(a) was tested false (zero leaves by the throw)
  EXP-SIB   every exponentiation sibling consults the sign of the exponent on every path that returns a power (negative
            exponents reach the inversion), and where it tells the zero exponent apart that path answers 1
  SRT-VERDICT  a truthy verdict of the square-root function implies a squareness test of the argument (candidate squared and
            compared with it, or the quadratic-residue test) in every arm of the p mod 4/8 switch
  CANON     the low-level routines whose raw result lies in [0, 2p) (modular addition, doubling, Montgomery and
            pseudo-Mersenne reduction) return only after the result was compared with the modulus or the modulus subtracted:
            a carry test alone leaves values in [p, 2^k) unreduced
  CANON-CARRY  where a raw carry-returning addition into X is followed by the comparison of X with the modulus, the carry-out
            is consulted by a branch (analysed also under FP_RDC=QUICK, where the small-constant forms use this idiom)
  CONST-IN  no function of the module stores through a parameter it declares const (summaries over the call graph)
  ALIAS-RW  no input element is read in a later statement than a write of an output element that may be the same object
            ("out==in aliasing"); see sa/py/relic_sa/alias.py
"""
import re

from .. import ir, engines
from ..engines import Facts, key
from ..facts import AnalysisBroken
from .c03 import c05_line
from . import c05
from .. import alias

EXPLANATION = (
    "Static decision of structural necessary conditions of C02 over the prime-field module under each analysed "
    "configuration header (256-, 255-, 381-bit): forward must-dataflow with branch atoms over the exploded CFG of all "
    "inversion variants (zero leaves only by the error), all exponentiation siblings (zero and negative exponents), the "
    "square-root function (verdict implies a squareness test), the five low-level routines with a final conditional "
    "subtraction (comparison with the modulus, not only the carry), and parameter-write summaries over the call graph "
    "(inputs unchanged). Range checks of the byte/integer conversions are decided under C07 (RANGE-FP). Residues, Montgomery "
    "arithmetic and agreement of algorithm variants are value properties and are not decided. Nothing of RELIC is executed.")

INV = re.compile(r"^fp_inv_(basic|binar|monty|exgcd|divst|jmpds|lower)$")
SQR = re.compile(r"^fp_sqr(_(basic|comba|multp|karat|integ))?$")
EXP = re.compile(r"^fp_exp_(basic|slide|monty)$")
CANON_SET = {"fp_addm_low": "sum of two residues", "fp_addc_low": "upper half of a double-precision sum", "fp_dblm_low": "double of a residue",
             "fp_rdcn_low": "Montgomery reduction", "fp_rdcs_low": "pseudo-Mersenne reduction"}


ALIAS_OK = {
    ("fp_inv_sim", "c", "a", "*", "fp_copy"): "batch inversion in place: element i of the input is read before element i of the output is written, later elements are untouched",
    ("fp_inv_sim", "c", "a", "*", "fp_mul"): "as above (whichever multiplication variant the configuration selects)",
}


def base(fn):
    return fn.name.split("__")[-1]


def normal_returns(F, g):
    return engines.normal_exit_states(F, g)


def has_atom(st, callee, argkey, op, k):
    for x in st:
        if x[0] == "cmp" and isinstance(x[1], tuple) and x[1][0] == "c" and x[1][1] == callee and x[1][2] and x[1][2][0] == argkey \
                and engines.entails(x[2], x[3], op, k):
            return True
    return False


def rule_inv0(ctx, prog, chk, pattern=None, zero_fn="fp_is_zero"):
    n = 0
    pattern = pattern or INV
    for fn in prog.all:
        if not pattern.match(base(fn)) or len(fn.params) != 2:
            continue
        a = fn.params[1]
        g = ctx.xcfg(prog, fn)
        F = Facts(prog, g, mark_thrown=True)
        bad = None
        nret = 0
        for p, st in normal_returns(F, g):
            nret += 1
            if not has_atom(st, zero_fn, ("v", a), "==", 0):
                bad = p
        if nret == 0:
            raise AnalysisBroken("INV0: %s has no normal return" % fn.name)
        n += 1
        if bad is not None:
            chk.fail("INV0", fn, fn.vars[a]["n"], "a normal return is reachable on which `%s(%s)` was not tested false: inverting zero yields a value instead of the error" % (zero_fn, fn.vars[a]["n"]), line=c05_line(bad, fn))
        else:
            chk.ok("INV0", fn, fn.vars[a]["n"], "%d normal return(s), each dominated by %s(%s) == 0; the zero side throws" % (nret, zero_fn, fn.vars[a]["n"]), line=fn.line)
    return n


def rule_exp(ctx, prog, chk):
    n = 0
    for fn in prog.all:
        if not EXP.match(base(fn)) or len(fn.params) != 3:
            continue
        c, a, b = fn.params
        bk = ("v", b)
        g = ctx.xcfg(prog, fn)

        def edge_gen(node, label, atoms, bk=bk):
            out = []
            st = engines.CURRENT.edge_state
            for at in atoms:
                if at[0] == "cmp" and isinstance(at[1], tuple) and at[1][0] == "c" and at[1][1] == "bn_sign" and len(at[1][2]) == 1 \
                        and (at[1][2][0] == bk or ("ev", "copyof", at[1][2][0]) in st):
                    out.append(("ev", "signchk"))
                if at[0] == "cmp" and isinstance(at[1], tuple) and at[1][0] == "m" and at[1][2] == "sign" and (at[1][1] == bk or ("ev", "copyof", at[1][1]) in st):
                    out.append(("ev", "signchk"))
            return out

        def gen(node, s, pre, fn=fn, c=c, bk=bk):
            out = []
            for cl in ir.calls_in(fn, node.el.e):
                if cl[1] == "bn_copy" and len(cl[2]) == 2 and key(fn, cl[2][1]) == bk:
                    out.append(("ev", "copyof", key(fn, cl[2][0])))     # its sign is the exponent's sign
                if cl[1] == "fp_set_dig" and len(cl[2]) == 2 and key(fn, cl[2][0]) == ("v", c) and (ir.peel(fn, cl[2][1]) or [0, 0])[:2] == ["i", 1]:
                    out.append(("ev", "one"))
            return out

        def kill(node, s, fn=fn, c=c):
            w = engines.written_vars(prog, fn, node.el.e)
            if c in w and not any(cl[1] == "fp_set_dig" for cl in ir.calls_in(fn, node.el.e)):
                s = frozenset(x for x in s if x != ("ev", "one"))
            return s
        F = Facts(prog, g, gen=gen, extra_kill=kill, edge_gen=edge_gen, mark_thrown=True)
        bad_zero = bad_sign = None
        nret = 0
        for p, st in normal_returns(F, g):
            nret += 1
            zero = has_atom(st, "bn_is_zero", bk, "!=", 0)
            if zero:
                # the sibling tells the zero exponent apart: then that path must answer 1.  (A sibling without the
                # guard is not judged: some recodings yield 1 by themselves, which is a value question.)
                if ("ev", "one") not in st:
                    bad_zero = p
            elif ("ev", "signchk") not in st:
                bad_sign = p
        if nret == 0:
            raise AnalysisBroken("EXP-SIB: %s has no normal return" % fn.name)
        n += 2
        nm = fn.vars[b]["n"]
        if bad_zero is not None:
            chk.fail("EXP-SIB", fn, "zero", "the path taken for a zero exponent returns without having set the result to 1", line=c05_line(bad_zero, fn))
        else:
            chk.ok("EXP-SIB", fn, "zero", "wherever bn_is_zero(%s) is known true the result was set to 1" % nm, line=fn.line)
        if bad_sign is not None:
            chk.fail("EXP-SIB", fn, "sign", "a path returns a power without ever consulting the sign of `%s`: negative exponents yield a^|%s| instead of the inverse power" % (nm, nm), line=c05_line(bad_sign, fn))
        else:
            chk.ok("EXP-SIB", fn, "sign", "every path returning a power branches on the sign of the exponent", line=fn.line)
    return n


def rule_srt(ctx, prog, chk):
    n = 0
    for fn in prog.all:
        if base(fn) != "fp_srt" or len(fn.params) != 2:
            continue
        vv = c05.verdict_var(fn)
        if vv is None:
            raise AnalysisBroken("SRT-VERDICT: %s does not return a verdict variable" % fn.name)
        a = fn.params[1]
        ak = ("v", a)
        g = ctx.xcfg(prog, fn)

        def implies_sq(e, pre, fn=fn, ak=ak):
            """the expression is (or contains as conjunct) a squareness test of a"""
            e = ir.peel(fn, e)
            if not isinstance(e, list):
                return False
            if e[0] == "b" and e[1] in ("&&", "&"):
                return implies_sq(e[2], pre) or implies_sq(e[3], pre)
            if e[0] == "b" and e[1] == "==":
                l, r = ir.peel(fn, e[2]), ir.peel(fn, e[3])
                if isinstance(l, list) and l[0] == "c" and isinstance(r, list) and r[0] == "i":
                    if l[1] == "fp_cmp" and r[1] == 0 and len(l[2]) == 2:
                        ks = [key(fn, x) for x in l[2]]
                        if ak in ks:
                            other = ks[1] if ks[0] == ak else ks[0]
                            return ("ev", "sqof", other) in pre
                    if re.match(r"^fp_smb", l[1] or "") and r[1] == 1 and key(fn, l[2][0]) == ak:
                        return True
                return False
            if e[0] == "c" and e[1] == "fp_is_sqr" and key(fn, e[2][0]) == ak:
                return True
            return False

        def gen(node, s, pre, fn=fn, vv=vv):
            out = []
            e = node.el.e
            for cl in ir.calls_in(fn, e):
                if cl[1] and SQR.match(cl[1]) and len(cl[2]) == 2:
                    out.append(("ev", "sqof", key(fn, cl[2][0])))
            for sub in ir.walk(fn, e):
                if sub[0] == "d" and sub[1] == vv and sub[2] is not None:
                    rhs = sub[2]
                elif sub[0] == "=" and ir.strip_casts(sub[1]) == ["v", vv]:
                    rhs = sub[2]
                else:
                    continue
                r = ir.peel(fn, rhs)
                if isinstance(r, list) and r[0] == "i" and r[1] == 0:
                    out.append(("ev", "v0"))
                elif implies_sq(rhs, pre):
                    out.append(("ev", "vsq"))
            return out

        def kill(node, s, fn=fn, vv=vv):
            for sub in ir.walk(fn, node.el.e):
                if (sub[0] == "=" and ir.strip_casts(sub[1]) == ["v", vv]) or (sub[0] == "d" and sub[1] == vv and sub[2] is not None):
                    s = frozenset(x for x in s if x not in (("ev", "v0"), ("ev", "vsq")))
            # a candidate that is overwritten is no longer the square that was compared
            w = engines.written_vars(prog, fn, node.el.e)
            if w:
                s = frozenset(x for x in s if not (x[0] == "ev" and x[1] == "sqof" and isinstance(x[2], tuple) and x[2][0] == "v" and x[2][1] in w
                                                   and not any(cl[1] and SQR.match(cl[1]) and key(fn, cl[2][0]) == x[2] for cl in ir.calls_in(fn, node.el.e))))
            return s
        F = Facts(prog, g, gen=gen, extra_kill=kill, mark_thrown=True)
        bad = None
        nret = 0
        for p, st in normal_returns(F, g):
            if p.kind == "el" and p.el.e[0] == "ret":
                r = ir.peel(fn, p.el.e[1]) if p.el.e[1] is not None else None
                if isinstance(r, list) and r[0] == "i":
                    if r[1] != 0 and not has_atom(st, "fp_is_zero", ak, "!=", 0):
                        bad = p
                    nret += 1
                    continue
            nret += 1
            if ("ev", "v0") in st:
                continue
            if ("ev", "vsq") not in st:
                bad = p
        if nret == 0:
            raise AnalysisBroken("SRT-VERDICT: %s has no normal return" % fn.name)
        n += 1
        if bad is not None:
            chk.fail("SRT-VERDICT", fn, fn.vars[vv]["n"], "the verdict can be truthy on a path where it was not derived from a squareness test of `%s` (candidate squared and compared with it, or the residue test): a 'root' is reported for non-residues" % fn.vars[a]["n"], line=c05_line(bad, fn))
        else:
            chk.ok("SRT-VERDICT", fn, fn.vars[vv]["n"], "verdict derived from a squareness test of the argument in every arm; constant 1 only for zero", line=fn.line)
    return n


def rule_canon(ctx, prog, chk):
    n = 0
    found = set()
    for fn in prog.all:
        b = base(fn)
        if b not in CANON_SET or not (fn.rfile.startswith("src/low/") or "selftest" in fn.file):
            continue
        found.add(b)
        cpar = fn.params[0]
        g = ctx.xcfg(prog, fn)

        def is_modulus(e, pre, fn=fn):
            e = ir.peel(fn, e)
            if isinstance(e, list) and e[0] == "c" and e[1] == "fp_prime_get":
                return True
            k = key(fn, e)
            if isinstance(k, tuple) and k[0] == "v":
                v = fn.vars[k[1]]
                if v["k"] == "p" and v["n"] in ("m", "p"):
                    return True
                return ("ev", "mod", k) in pre
            return False

        def out_based(e, fn=fn, cpar=cpar):
            bv = ir.base_var(fn, e)
            return bv == cpar or (bv is not None and ("ev", "alias", bv) in out_based.pre)

        def gen(node, s, pre, fn=fn):
            out = []
            e = node.el.e
            out_based.pre = pre
            for sub in ir.walk(fn, e):
                if sub[0] in ("d", "="):
                    tgt = sub[1] if sub[0] == "d" else (ir.strip_casts(sub[1])[1] if ir.strip_casts(sub[1])[0] == "v" else None)
                    if tgt is not None and sub[2] is not None:
                        if is_modulus(sub[2], pre):
                            out.append(("ev", "mod", ("v", tgt)))
            for cl in ir.calls_in(fn, e):
                if cl[1] in ("fp_subn_low", "bn_subn_low") and len(cl[2]) >= 3 and is_modulus(cl[2][2], pre):
                    out.append(("ev", "canon"))
            return out

        def edge_gen(node, label, atoms, fn=fn):
            out = []
            for at in atoms:
                if at[0] == "cmp" and isinstance(at[1], tuple) and at[1][0] == "c" and at[1][1] in ("dv_cmp", "bn_cmpn_low", "fp_cmpn_low") and len(at[1][2]) >= 2:
                    if engines.entails(at[2], at[3], "==", -1) or engines.entails(at[2], at[3], "<", 0):
                        out.append(("ev", "canon"))
            return out

        def kill(node, s, fn=fn):
            # a raw arithmetic write of the result after the comparison voids it
            for cl in ir.calls_in(fn, node.el.e):
                if cl[1] and re.search(r"(addn|dbln|lsh1|mula|addd|add1)_low$", cl[1]):
                    s = frozenset(x for x in s if x != ("ev", "canon"))
            return s
        F = Facts(prog, g, gen=gen, extra_kill=kill, edge_gen=edge_gen, mark_thrown=True)
        bad = None
        nret = 0
        for p, st in normal_returns(F, g):
            nret += 1
            if ("ev", "canon") not in st:
                bad = p
        if nret == 0:
            raise AnalysisBroken("CANON: %s has no normal return" % fn.name)
        n += 1
        if bad is not None:
            chk.fail("CANON", fn, "result", "the %s can be returned on a path where it was neither found smaller than the modulus by a comparison nor had the modulus subtracted: values in [p, 2^k) stay unreduced and equality of elements no longer coincides with equality of residues" % CANON_SET[b], line=c05_line(bad, fn))
        else:
            chk.ok("CANON", fn, "result", "%s: every return has compared the result with the modulus or subtracted it" % CANON_SET[b], line=fn.line)
    return n, found


RAW_ADDERS = re.compile(r"^(fp|bn)_(add1|addn|dbln|lsh1|addd)_low$")


def rule_canon_carry(ctx, prog, chk):
    """CANON-CARRY: where a function adds into X with a carry-returning raw adder and afterwards compares X with the
    modulus (the [0,2p) correction idiom), the carry-out of that addition is consulted in a branch: the sum may exceed
    2^k, where the comparison of the truncated digits says 'smaller'"""
    n = 0
    for fn in prog.all:
        if not (fn.rfile.startswith(("src/fp/", "src/low/easy/relic_fp_")) or "selftest" in fn.file):
            continue
        cmps = set()
        for el in fn.all_elements():
            for c in ir.calls_in(fn, el.e):
                if c[1] == "dv_cmp" and len(c[2]) >= 2:
                    m = ir.peel(fn, c[2][1])
                    if isinstance(m, list) and m[0] == "c" and m[1] == "fp_prime_get":
                        bv = ir.base_var(fn, c[2][0])
                        if bv is not None:
                            cmps.add(bv)
        if not cmps:
            continue
        # variables that occur in branch conditions
        branched = set()
        for b in fn.blocks.values() if isinstance(fn.blocks, dict) else fn.blocks:
            t = getattr(b, "term", None)
            if t and t.get("c") is not None:
                for sub in ir.walk(fn, t["c"], follow_refs=True):
                    if sub[0] == "v":
                        branched.add(sub[1])
        def refers(rhs, eid):
            r = rhs
            while isinstance(r, list) and r and r[0] == "k":
                r = r[2]
            return r == ["r", eid]
        for el in fn.all_elements():
            e = el.e
            if not (e[0] == "c" and e[1] and RAW_ADDERS.match(e[1]) and e[2]):
                continue
            bv = ir.base_var(fn, e[2][0])
            if bv not in cmps:
                continue
            holder = None
            for el2 in fn.all_elements():
                e2 = el2.e
                if e2[0] == "d" and e2[2] is not None and refers(e2[2], el.id):
                    holder = e2[1]
                elif e2[0] == "=" and refers(e2[2], el.id):
                    l = ir.strip_casts(e2[1])
                    if isinstance(l, list) and l[0] == "v":
                        holder = l[1]
            n += 1
            if holder is not None and holder in branched:
                chk.ok("CANON-CARRY", fn, e[1], "carry-out of the raw addition into `%s` is consulted by a branch" % fn.vars[bv]["n"], line=el.line)
            else:
                chk.fail("CANON-CARRY", fn, e[1], "the carry-out of `%s` into `%s` is %s, yet `%s` is afterwards only compared with the modulus: a sum of 2^k or more wraps, compares as smaller and stays uncorrected" % (
                    e[1], fn.vars[bv]["n"], "discarded" if holder is None else "never consulted by a branch", fn.vars[bv]["n"]), line=el.line)
    return n


def rule_const_in(ctx, prog, chk, prefix=("src/fp/", "src/low/easy/relic_fp")):
    pw = engines.param_writes(prog)
    n = 0
    for fn in prog.all:
        if not (fn.rfile.startswith(prefix) or "selftest" in fn.file):
            continue
        for i, v in enumerate(fn.params):
            info = fn.vars[v]
            if info.get("pc") != 1:
                continue
            n += 1
            if i in pw.get(fn, ()):
                chk.fail("CONST-IN", fn, info["n"], "`%s` is declared as an input (pointer to const) but the function, or a callee it is handed to, stores through it: the operation changes its input" % info["n"], line=fn.line)
    chk.ok("CONST-IN", "module", "const parameters", "%d const pointer parameters examined" % n)
    return n


def analyse(ctx, prog, chk, floors=False):
    chk.used_program(prog)
    c = {"inv": rule_inv0(ctx, prog, chk), "exp": rule_exp(ctx, prog, chk), "srt": rule_srt(ctx, prog, chk)}
    from .. import expsib
    c["bits"] = expsib.rule_loop_bits(ctx, prog, chk, [fn for fn in prog.all if EXP.match(base(fn)) or base(fn) == "fp_exp_dig"])
    c["canon"], found = rule_canon(ctx, prog, chk)
    c["carry"] = rule_canon_carry(ctx, prog, chk)
    c["const"] = rule_const_in(ctx, prog, chk)
    if prog.config in ("BASE", "P381") or getattr(prog, "library", None) is not None:
        c["alias"], used = alias.rule(ctx, prog, chk, lambda fn: fn.rfile.startswith("src/fp/"), ALIAS_OK)
    else:
        c["alias"] = 0
    if floors:
        missing = set(CANON_SET) - found
        if missing:
            raise AnalysisBroken("CANON: routine(s) %s of the reviewed family no longer exist" % sorted(missing))
    return c


def selfcheck(ctx, prog, chk):
    analyse(ctx, prog, chk)


def run(ctx, chk):
    c = analyse(ctx, ctx.program("BASE"), chk, floors=True)
    chk.floor("INV0", "inversion variants", c["inv"], 7)
    chk.floor("EXP-SIB", "exponentiation siblings (2 obligations each)", c["exp"], 6)
    chk.floor("SRT-VERDICT", "square-root functions", c["srt"], 1)
    chk.floor("LOOP-BITS", "bit scans of exponents", c["bits"], 2)
    chk.floor("CANON", "routines with a final conditional subtraction", c["canon"], 5)
    chk.floor("CONST-IN", "const pointer parameters of the module", c["const"], 100)
    chk.floor("ALIAS-RW", "output/input pairs of the same handle type", c["alias"], 40)
    for cfg in ("P255", "P381"):
        analyse(ctx, ctx.program(cfg), chk, floors=True)
    # the non-Montgomery paths (#if FP_RDC != MONTY) of the small-constant forms
    from .. import facts
    facts.CONFIGS.setdefault("FPQUICK", ["-DFP_METHD=INTEG;COMBA;COMBA;QUICK;EXGCD;LOWER;SLIDE"])
    cq = analyse(ctx, ctx.program("FPQUICK"), chk, floors=True)
    chk.floor("CANON-CARRY", "raw additions followed by the modulus comparison (FPQUICK)", cq["carry"], 1)
