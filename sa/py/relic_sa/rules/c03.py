"""C03 — prime-curve scalar multiplications return the result in normalised affine form and cope with long scalars.

  SM-NORM  on every path to a normal return of every ep_mul* routine the last write of the result is a normalisation
           (ep_norm / ep_norm_sim / ep_set_infty), a delegation to another routine of the family, or a step that keeps
           the normal form (negation, masked copy of y, copy of an operand the routine itself normalised)
  SM-SIGN  every sibling honours the sign of each scalar parameter on every path that returns a point computed from it
           (sign test, reduction modulo the order, delegation); see sa/py/relic_sa/expsib.py
  ALIAS-RW no coordinate of an input point is read in a later statement than a write of that coordinate of an output point
           (single points only: "equal operands", results stored over an operand)
  OUT-RBW  no field of an output point is read before it was written on every path (the suite calls the normalisation
           and addition routines in place, where output and input are the same object)
  SM-RED   a scalar handed to a recoder whose buffer is a fixed-size array has been reduced modulo the group order
           (bn_mod by a value from ep_curve_get_ord, or the GLV decomposition of such a value) on every path
"""
import re

from .. import ir, engines
from ..engines import Facts, key
from ..facts import AnalysisBroken
from . import c08

EXPLANATION = (
    "Static decision of two structural clauses of C03 over every scalar-multiplication routine of the prime-curve module "
    "(variable base, fixed base, simultaneous; 30+ bodies incl. static helpers): forward must-dataflow over the exploded CFG "
    "shows that the result is normalised (or delegated to a routine that normalises) on every path to a normal return — the "
    "suite compares with ep_cmp, which cross-multiplies by Z, so a dropped normalisation passes it — and that scalars reaching "
    "a recoder with a fixed-size buffer were reduced modulo the group order. Does not decide that the formulas are the group "
    "law, that recodings denote k, nor the exceptional-case dispatch. Nothing of RELIC is executed.")

POINT_ALIAS_OK = {("ep_norm_imp", "r", "p", "z", "ep_copy"): "default arm of the coordinate switch in the normalisation helper: p->coord is PROJC or JACOB there, the arm that copies p whole is unreachable"}
FAMILY = re.compile(r"^ep_mul(_[a-z0-9_]+)?$")
NOT_MUL = re.compile(r"^ep_mul_(pre|fix_tab|cof|tab)|^ep_mul_pre_")
NORMALISERS = {"ep_norm", "ep_set_infty"}
# steps that keep a normalised affine point normalised
PRESERVERS = {"ep_neg", "ep_neg_basic", "fp_copy_sec", "fp_neg", "dv_copy_sec", "ep_blind"}


def family(prog):
    out = []
    for fn in prog.all:
        base = fn.name.split("__")[-1]
        if not FAMILY.match(base) or NOT_MUL.match(base):
            continue
        if not fn.params or fn.vars[fn.params[0]].get("pc") != 0:
            continue
        ot = fn.vars[fn.params[0]].get("ot", "")
        if ot.replace("const ", "") != "ep_t":
            continue
        out.append(fn)
    return out


def rule_sm_norm(ctx, prog, chk):
    fam = family(prog)
    names = set(f.name.split("__")[-1] for f in fam) | set(f.name for f in fam)
    n = 0
    for fn in fam:
        r = fn.params[0]
        rk = ("v", r)
        g = ctx.xcfg(prog, fn)

        def gen(node, s, pre, fn=fn, rk=rk):
            out = []
            for c in ir.calls_in(fn, node.el.e):
                if not c[1] or not c[2]:
                    continue
                a0 = key(fn, c[2][0])
                if c[1] in NORMALISERS:
                    out.append(("ev", "norm", a0))
                elif c[1] == "ep_norm_sim":
                    out.append(("ev", "norm", a0))
                elif c[1] in names and a0 == rk:
                    out.append(("ev", "norm", rk))         # delegation: the callee is held to the same rule
                elif c[1] in ("ep_copy",) and len(c[2]) > 1 and ("ev", "norm", key(fn, c[2][1])) in pre:
                    out.append(("ev", "norm", a0))
                elif c[1] in PRESERVERS and ("ev", "norm", a0) in pre:
                    out.append(("ev", "norm", a0))
                elif c[1] in PRESERVERS and isinstance(a0, tuple) and a0[0] == "m" and ("ev", "norm", a0[1]) in pre:
                    out.append(("ev", "norm", a0[1]))       # a coordinate of a normalised point replaced by +-itself
            return out
        bad = None
        nexits = 0
        for follow, assign in engines.condition_worlds(g):
            F = Facts(prog, g, gen=gen, mark_thrown=True, follow=follow)
            for p, l in g.exit.pred:
                s = F.IN.get(p)
                if s is None:
                    continue
                if follow is not None and not follow(p, g.exit, l):
                    continue
                s2 = F._transfer(p, s)
                if s2 is engines.UNIVERSE:
                    continue
                nexits += 1
                if ("ev", "norm", rk) not in s2:
                    bad = p
        n += 1
        if bad is not None:
            chk.fail("SM-NORM", fn, fn.vars[r]["n"], "a path returns normally with `%s` last written by a step that does not leave it in normalised affine form (no ep_norm / ep_set_infty / delegation after it)" % fn.vars[r]["n"],
                     line=c05_line(bad, fn))
        else:
            chk.ok("SM-NORM", fn, fn.vars[r]["n"], "%d normal return edge(s): result normalised, set to infinity or delegated on each" % nexits, line=fn.line)
    return n


def c05_line(node, fn):
    seen = set()
    work = [node]
    while work:
        n = work.pop(0)
        if n.id in seen:
            continue
        seen.add(n.id)
        if n.line():
            return n.line()
        for p, _ in n.pred:
            work.append(p)
    return fn.line


# ---------------------------------------------------------------------- SM-RED
FIXED_RECODERS = {"bn_rec_naf", "bn_rec_win", "bn_rec_slw", "bn_rec_reg", "bn_rec_jsf", "bn_rec_tnaf", "bn_rec_rtnaf"}


def rule_sm_red(ctx, prog, chk):
    """the scalar argument of a recoder writing into a fixed-size array carries a bit-length bound (C08's transfer
    functions: order getters, bn_mod by such a value, bn_abs, bn_rec_glv) or is a built-in parameter"""
    n = 0
    for fn in family(prog):
        sites = set()
        for el in fn.all_elements():
            for c in ir.calls_in(fn, el.e):
                if c[1] in FIXED_RECODERS or c[1] == "bn_rec_glv":
                    sites.add(el.id)
        if not sites:
            continue
        g = ctx.xcfg(prog, fn)
        F = Facts(prog, g, gen=c08.make_bits_gen(prog, fn, {}), mark_thrown=True)
        ordinal = {}
        for nd in g.nodes:
            if nd.kind != "el" or nd.el.id not in sites:
                continue
            s = F.IN.get(nd)
            if s is None or s is engines.UNIVERSE:
                continue
            for c in ir.calls_in(fn, nd.el.e):
                if c[1] == "bn_rec_glv" and len(c[2]) >= 3:
                    # the decomposition is defined for scalars below the order: a longer one yields sub-scalars longer
                    # than half the order, which every consumer sizes its tables and loops for
                    k = ordinal.get(c[1], 0)
                    ordinal[c[1]] = k + 1
                    n += 1
                    sk = key(fn, c[2][2])
                    bounded = any(a[0] == "cmp" and a[1] == c08.bits_key(sk) and a[2] in ("<=", "<", "==") for a in s) or ("ev", "libparam", sk) in s
                    if not bounded and sk[0] == "v" and fn.vars[sk[1]]["k"] == "p" and fn.static:
                        bounded = callers_reduce(ctx, prog, fn, sk[1])
                    if bounded:
                        chk.ok("SM-RED", fn, "bn_rec_glv#%d" % k, "scalar `%s` was reduced modulo the group order before the decomposition" % fn.fmt(c[2][2]), line=nd.line())
                    else:
                        chk.fail("SM-RED", fn, "bn_rec_glv#%d" % k, "scalar `%s` reaches the GLV decomposition without having been reduced modulo the group order by bn_mod on every path: for scalars of two group orders or more the sub-scalars exceed what the tables and loops are sized for" % fn.fmt(c[2][2]), line=nd.line())
                    continue
                if c[1] not in FIXED_RECODERS:
                    continue
                buf = ir.peel(fn, c[2][0])
                bv = ir.base_var(fn, buf)
                if bv is None or "dims" not in fn.vars[bv] or fn.vars[bv]["k"] == "p":
                    continue        # buffer sized from the scalar itself (RLC_ALLOCA): no reduction needed
                k = ordinal.get(c[1], 0)
                ordinal[c[1]] = k + 1
                obj = "%s#%d" % (c[1], k)
                scalars = [c[2][2]] + ([c[2][3]] if c[1] == "bn_rec_jsf" else [])
                for sc in scalars:
                    n += 1
                    sk = key(fn, sc)
                    bounded = any(a[0] == "cmp" and a[1] == c08.bits_key(sk) and a[2] in ("<=", "<", "==") for a in s) or ("ev", "libparam", sk) in s
                    # static helpers: the obligation moves to their callers
                    if not bounded and sk[0] == "v" and fn.vars[sk[1]]["k"] == "p" and fn.static:
                        bounded = callers_reduce(ctx, prog, fn, sk[1])
                    if bounded:
                        chk.ok("SM-RED", fn, obj, "scalar `%s` was reduced modulo the group order (or decomposed from such a value) on every path" % fn.fmt(sc), line=nd.line())
                    else:
                        chk.fail("SM-RED", fn, obj, "scalar `%s` reaches %s, which writes a fixed-size array, without having been reduced modulo the group order: a scalar longer than the order is refused or overflows instead of yielding [k]P" % (
                            fn.fmt(sc), c[1]), line=nd.line())
    return n


def callers_reduce(ctx, prog, fn, pvar):
    pos = fn.params.index(pvar)
    found = 0
    for caller in prog.by_unit(fn.unit_src):
        sites = [el for el in caller.all_elements() if any(c[1] == fn.name for c in ir.calls_in(caller, el.e))]
        if not sites:
            continue
        g = ctx.xcfg(prog, caller)
        F = Facts(prog, g, gen=c08.make_bits_gen(prog, caller, {}), mark_thrown=True)
        ids = set(el.id for el in sites)
        for nd in g.nodes:
            if nd.kind != "el" or nd.el.id not in ids:
                continue
            st = F.IN.get(nd)
            if st is None or st is engines.UNIVERSE:
                continue
            for c in ir.calls_in(caller, nd.el.e):
                if c[1] != fn.name or pos >= len(c[2]):
                    continue
                found += 1
                sk = key(caller, c[2][pos])
                if not any(a[0] == "cmp" and a[1] == c08.bits_key(sk) for a in st):
                    return False
    return found > 0


def analyse(ctx, prog, chk):
    from .. import alias
    chk.used_program(prog)
    from .. import expsib
    return {"norm": rule_sm_norm(ctx, prog, chk), "red": rule_sm_red(ctx, prog, chk),
            "sign": expsib.rule_sm_sign(ctx, prog, chk, family(prog), FAMILY),
            "palias": alias.rule(ctx, prog, chk, lambda fn: fn.rfile.startswith("src/ep/"), POINT_ALIAS_OK, points=True)[0],
            "rbw": alias.rule_out_rbw(ctx, prog, chk, lambda fn: fn.rfile.startswith("src/ep/"), re.compile(r"^ep_t\b"))}


def selfcheck(ctx, prog, chk):
    analyse(ctx, prog, chk)


def run(ctx, chk):
    c = analyse(ctx, ctx.program("BASE"), chk)
    chk.floor("SM-NORM", "ep_mul* bodies", c["norm"], 25)
    chk.floor("SM-RED", "scalars reaching fixed-size recoders", c["red"], 10)
    chk.floor("SM-SIGN", "scalar parameters of the multiplication siblings", c["sign"], 30)
    chk.floor("ALIAS-RW", "output/input pairs of single points", c["palias"], 50)
    chk.floor("OUT-RBW", "output points of functions that also take an input point", c["rbw"], 50)
    if chk.tier == "thorough":
        # the other field sizes select other curve families (Edwards-birational Curve25519 forms at 255 bits, BLS12 at 381)
        for cfg in ("P255", "P381"):
            analyse(ctx, ctx.program(cfg), chk)
