"""TRUNC (C05, "leftmost-bits truncation of the digest to the order length", FIPS 186-4 6.4): in ECDSA signing and
verification (and the static helpers they hand the digest to) the integer decoded from the digest is, before any
arithmetic use,
  - either decoded from L bytes on a path on which 8 L <= bits(n) is in force (nothing to discard),
  - or shifted right by an amount S that is a function of the number of bytes decoded and of the order length alone
    (never of the decoded value) with S = 8 L - bits(n) for every feasible (L, bits(n)): exactly the leftmost bits(n) bits
    of the digest remain.
The arithmetic identities are decided on the expression trees over a grid of lengths (L up to 80 bytes, orders up to 640
bits), not by running the library.  At least one such truncation exists per entry point."""
import re

from .. import ir, engines
from ..engines import Facts, key, key_vars
from ..facts import AnalysisBroken

ENTRY = ("cp_ecdsa_sig", "cp_ecdsa_ver")
# signer / verifier pairs whose digest truncation must agree (TRUNC-SIB); the EC-Schnorr pair follows no external
# standard, so only the agreement is decided for it
SIB_PAIRS = (("cp_ecdsa_sig", "cp_ecdsa_ver"), ("cp_ecss_sig", "cp_ecss_ver"))
NEUTRAL = {"bn_rsh", "bn_bits", "bn_read_bin", "bn_new", "bn_null", "bn_free", "bn_size_bin", "bn_is_zero", "bn_sign"}
M = 1 << 64


class NoValue(Exception):
    pass


def kev(k, env):
    """value of a canonical key under env: {("v", i): value, ("bits", X): value}"""
    if not isinstance(k, tuple) or not k:
        raise NoValue()
    t = k[0]
    if t == "i" and isinstance(k[1], int):
        return k[1]
    if t == "v":
        if k in env:
            return env[k]
        raise NoValue()
    if t == "c" and k[1] == "bn_bits" and len(k[2]) == 1:
        kk = ("bits", k[2][0])
        if kk in env:
            return env[kk]
        raise NoValue()
    if t == "b":
        a, b = kev(k[2], env), kev(k[3], env)
        op = k[1]
        if op == "+":
            return a + b
        if op == "-":
            return a - b
        if op == "*":
            return a * b
        if op == "/":
            if b == 0:
                raise NoValue()
            return a // b if a >= 0 else -((-a) // b)
        if op == "%":
            if b == 0:
                raise NoValue()
            return a % b
        if op == "<<":
            return a << b
        if op == ">>":
            return a >> b
        if op in ("<", "<=", ">", ">=", "==", "!="):
            return int({"<": a < b, "<=": a <= b, ">": a > b, ">=": a >= b, "==": a == b, "!=": a != b}[op])
    if t == "?" and len(k) == 4:
        return kev(k[2], env) if kev(k[1], env) else kev(k[3], env)
    raise NoValue()


def bits_args(k, out=None):
    if out is None:
        out = set()
    if isinstance(k, tuple):
        if k and k[0] == "c" and k[1] == "bn_bits" and len(k[2]) == 1:
            out.add(k[2][0])
        else:
            for x in k:
                bits_args(x, out)
    return out


def free_vars(k, out=None, inside_bits=False):
    """variables of the key outside bn_bits(..) arguments"""
    if out is None:
        out = set()
    if isinstance(k, tuple) and k:
        if k[0] == "c" and k[1] == "bn_bits":
            return out
        if k[0] == "v" and len(k) == 2:
            out.add(k)
        elif k[0] == "c":
            out.add(("call", k[1]))
        else:
            for x in k[1:]:
                free_vars(x, out)
    return out


REL = {"<": lambda a, b: a < b, "<=": lambda a, b: a <= b, ">": lambda a, b: a > b, ">=": lambda a, b: a >= b, "==": lambda a, b: a == b, "!=": lambda a, b: a != b}


def constraints(st, Lk, X):
    """atoms of the state that are arithmetic relations over L and bits(X) only"""
    out = []
    for a in st:
        if a[0] == "rel" and a[2] in REL:
            keep = key_vars_k(Lk) if Lk is not None else ()
            ks = (subst_defs(a[1], st, keep=keep), subst_defs(a[3], st, keep=keep))
        elif a[0] == "cmp" and a[2] in REL:
            ks = (a[1], ("i", a[3]))
        else:
            continue
        ok = True
        for k in ks:
            if not (bits_args(k) <= {X}):
                ok = False
            for v in free_vars(k):
                if v[0] == "call" or (Lk is None or v not in key_vars_k(Lk)):
                    ok = False
        if ok and (bits_args(ks[0]) | bits_args(ks[1]) or free_vars(ks[0]) | free_vars(ks[1])):
            out.append((ks[0], a[2], ks[1]))
    return out


def key_vars_k(k):
    return set(("v", i) for i in key_vars(k))


def feasible_grid(cons, Lk):
    """(env) for the grid points that satisfy all constraints"""
    lv = sorted(key_vars_k(Lk)) if Lk is not None else []
    if len(lv) > 1:
        return None
    out = []
    for b in range(1, 641):
        for L in (range(0, 81) if lv else (0,)):
            env = {("bits", "X"): b}
            if lv:
                env[lv[0]] = L
            try:
                if all(REL[op](kev(a, env), kev(c, env)) for a, op, c in cons):
                    out.append(env)
            except NoValue:
                return None
    return out


def subst_defs(k, st, depth=0, keep=()):
    """replace locals that still hold the value of an expression over bn_bits(..) (nbits = bn_bits(n)) by that expression"""
    if depth > 4 or not isinstance(k, tuple):
        return k
    if k and k[0] == "v" and len(k) == 2:
        if k in keep:
            return k
        for a in st:
            if a[0] == "rel" and a[1] == k and a[2] == "==" and bits_args(a[3]) and not (key_vars_k(a[3]) & set(keep)):
                return subst_defs(a[3], st, depth + 1, keep)
        return k
    return tuple(subst_defs(x, st, depth + 1, keep) for x in k)


def normX(k, X):
    """replace bn_bits(X) by a canonical symbol"""
    if isinstance(k, tuple):
        if k and k[0] == "c" and k[1] == "bn_bits" and len(k[2]) == 1 and k[2][0] == X:
            return ("c", "bn_bits", ("X",))
        return tuple(normX(x, X) for x in k)
    return k


def shift_signatures(ctx, prog, fn):
    """{(shift amount, length decoded) with the order variable canonicalised} over the truncation sites of fn and its static helpers"""
    out = set()
    scope = [fn]
    for el in fn.all_elements():
        for c in ir.calls_in(fn, el.e):
            g = prog.get(c[1], near=fn) if c[1] else None
            if g is not None and g.static and g not in scope:
                scope.append(g)
    for f in scope:
        g = ctx.xcfg(prog, f)

        def gen(node, s, pre, f=f):
            o = []
            for c in ir.calls_in(f, node.el.e):
                if c[1] == "bn_read_bin" and len(c[2]) == 3:
                    E = key(f, c[2][0])
                    if isinstance(E, tuple) and E[0] == "v":
                        o.append(("ev", "dig", E, key(f, c[2][2])))
            return o
        F = Facts(prog, g, gen=gen, mark_thrown=True)
        for nd in g.nodes:
            if nd.kind != "el" or nd.proto:
                continue
            st = F.IN.get(nd)
            if st is None or st is engines.UNIVERSE:
                continue
            for c in ir.calls_in(f, nd.el.e):
                if c[1] != "bn_rsh" or len(c[2]) != 3:
                    continue
                E = key(f, c[2][0])
                digs = [a for a in st if a[0] == "ev" and a[1] == "dig" and a[2] == E]
                if not digs:
                    continue
                Lk = digs[0][3]
                S = subst_defs(key(f, c[2][2]), st, keep=key_vars_k(Lk))
                Xs = bits_args(S)
                X = next(iter(Xs)) if len(Xs) == 1 else None
                Ldef = Lk
                for a in st:
                    if a[0] == "rel" and a[1] == Lk and a[2] == "==":
                        Ldef = subst_defs(a[3], st)
                # the length variable itself is canonicalised as well
                def canon(k):
                    if isinstance(k, tuple):
                        if k == Lk:
                            return ("L",)
                        return tuple(canon(x) for x in k)
                    return k
                Sc = canon(normX(S, X)) if X is not None else canon(S)
                Lc = canon(normX(Ldef, X)) if X is not None else canon(Ldef)
                # the pair as integer functions of the order length (differently written, equal functions agree);
                # where the trees cannot be evaluated the canonical trees themselves are compared
                vals = []
                try:
                    for b in range(1, 641):
                        env = {("bits", "X"): b}
                        Lval = kev(Lc, env) if Lc != ("L",) else None
                        if Lval is None:
                            raise NoValue()
                        env2 = dict(env)
                        vals.append((Lval, kev(subst_L(Sc, Lval), env2)))
                    out.add(("values", hash(tuple(vals))))
                except NoValue:
                    out.add(("trees", Sc, Lc))
    return out


def subst_L(k, val):
    if isinstance(k, tuple):
        if k == ("L",):
            return ("i", val)
        return tuple(subst_L(x, val) for x in k)
    return k


def rule_trunc_sib(ctx, prog, chk):
    n = 0
    byname = {}
    for f in prog.all:
        byname.setdefault(f.name.split("__")[-1], []).append(f)
    for a, b in SIB_PAIRS:
        for fa in byname.get(a, ()):
            if fa.name.startswith("bad_"):
                continue
            for fb in byname.get(b, ()):
                # a variant is judged against the conforming / the library's sibling
                if fb.name.split("__")[:-1] != fa.name.split("__")[:-1] and not (fb.name.startswith("bad_") and fa.name.startswith("ok_")):
                    continue
                sa, sb = shift_signatures(ctx, prog, fa), shift_signatures(ctx, prog, fb)
                n += 1
                if {x[0] for x in sa} != {x[0] for x in sb}:
                    chk.note("TRUNC-SIB: the truncation of %s / %s can be evaluated on one side only; no claim" % (fa.name, fb.name))
                    continue
                if sa == sb:
                    chk.ok("TRUNC-SIB", fb, "shift", "signer and verifier truncate the digest alike (%d site(s))" % len(sa), line=fb.line)
                else:
                    chk.fail("TRUNC-SIB", fb, "shift", "%s and %s truncate the digest differently (length decoded / shift amount): signatures made on curves whose order is shorter than the digest "
                             "do not verify, which the suite's curve (order as long as the digest) never exercises" % (fa.name, fb.name), line=fb.line)
    return n


def analyse(ctx, prog, chk):
    n = 0
    rule_trunc_sib(ctx, prog, chk)
    entries = [f for f in prog.all if f.name.split("__")[-1] in ENTRY]
    for top in entries:
        scope = [top]
        for el in top.all_elements():
            for c in ir.calls_in(top, el.e):
                g = prog.get(c[1], near=top) if c[1] else None
                if g is not None and g.static and g not in scope:
                    scope.append(g)
        sites = 0
        for fn in scope:
            sites += check_fn(ctx, prog, chk, fn, top)
        n += 1
        if sites == 0:
            chk.fail("TRUNC", top, "present", "no truncation of the digest to the order length is left in %s or the helpers it calls: a digest longer than the order is used whole" % top.name, line=top.line)
        else:
            chk.ok("TRUNC", top, "present", "%d truncation site(s)" % sites, line=top.line)
    return n


def check_fn(ctx, prog, chk, fn, top):
    g = ctx.xcfg(prog, fn)
    byteptr = lambda e: True

    def gen(node, s, pre):
        out = []
        for c in ir.calls_in(fn, node.el.e):
            if c[1] == "bn_read_bin" and len(c[2]) == 3:
                E = key(fn, c[2][0])
                if isinstance(E, tuple) and E[0] == "v":
                    out.append(("ev", "dig", E, key(fn, c[2][2])))
        return out
    F = Facts(prog, g, gen=gen, mark_thrown=True)
    sites = 0
    for nd in g.nodes:
        if nd.kind != "el" or nd.proto:
            continue
        st = F.IN.get(nd)
        if st is None or st is engines.UNIVERSE:
            continue
        for c in ir.calls_in(fn, nd.el.e):
            if c[1] != "bn_rsh" or len(c[2]) != 3:
                continue
            E = key(fn, c[2][0])
            if key(fn, c[2][1]) != E:
                continue
            digs = [a for a in st if a[0] == "ev" and a[1] == "dig" and a[2] == E]
            if not digs:
                continue
            Lk = digs[0][3]
            S = subst_defs(key(fn, c[2][2]), st, keep=key_vars_k(Lk))
            sites += 1
            obj = "shift:%s" % re.sub(r"\s+", "", fn.fmt(c[2][2]))[:40]
            if E[1] in key_vars(S):
                chk.fail("TRUNC", fn, obj, "the number of bits discarded from the digest, `%s`, depends on the decoded value itself: digests that start with zero bits are "
                         "truncated differently from what the standard prescribes" % fn.fmt(c[2][2])[:50], line=nd.line())
                continue
            Xs = bits_args(S)
            if len(Xs) != 1:
                chk.fail("TRUNC", fn, obj, "the shift amount `%s` is not a function of the length decoded and of one order length" % fn.fmt(c[2][2])[:50], line=nd.line())
                continue
            X = next(iter(Xs))
            extra = [v for v in free_vars(S) if v[0] == "call" or v not in key_vars_k(Lk)]
            if extra:
                chk.fail("TRUNC", fn, obj, "the shift amount `%s` depends on more than the number of bytes decoded (`%s`) and the order length" % (fn.fmt(c[2][2])[:50], engines.fmt_key(fn, Lk)), line=nd.line())
                continue
            cons = [(normX(a, X), op, normX(b, X)) for a, op, b in constraints(st, Lk, X)]
            grid = feasible_grid(cons, Lk)
            if grid is None:
                chk.note("TRUNC: the relations in force at %s:%d cannot be evaluated; no claim for this site" % (fn.rfile, nd.line()))
                continue
            bad = None
            Sn, Ln = normX(S, X), normX(Lk, X)
            try:
                for env in grid:
                    Lval = kev(Ln, env)
                    b = env[("bits", "X")]
                    if 8 * Lval < b or kev(Sn, env) != 8 * Lval - b:
                        bad = (Lval, b, kev(Sn, env))
                        break
            except NoValue:
                chk.note("TRUNC: the shift amount at %s:%d cannot be evaluated; no claim for this site" % (fn.rfile, nd.line()))
                continue
            if bad is None:
                chk.ok("TRUNC", fn, obj, "discards exactly 8 L - bits(n) bits for every feasible length (%d grid points)" % len(grid), line=nd.line())
            else:
                chk.fail("TRUNC", fn, obj, "for %d bytes decoded and a %d-bit order the shift discards %d bits instead of %d: not the leftmost bits of the digest" % (
                    bad[0], bad[1], bad[2], 8 * bad[0] - bad[1]), line=nd.line())
    # decoded digests used without any shift: 8 L <= bits(n) must be in force at the decode
    for nd in g.nodes:
        if nd.kind != "el" or nd.proto:
            continue
        for c in ir.calls_in(fn, nd.el.e):
            if c[1] != "bn_read_bin" or len(c[2]) != 3:
                continue
            E = key(fn, c[2][0])
            if not (isinstance(E, tuple) and E[0] == "v"):
                continue
            # only digests: the source is the message parameter / a hash buffer, in a function that truncates somewhere
            if sites == 0:
                continue
            # is a shift of E reachable from here without another decode of E?  then the shift rule above applies
            def follow(a, b, lab, E=E):
                if b.kind == "el" and not b.proto:
                    for cc in ir.calls_in(fn, b.el.e):
                        if cc[1] == "bn_read_bin" and cc[2] and key(fn, cc[2][0]) == E:
                            return False
                return True
            reach = engines.reachable_from(g, [m for m, l in nd.succ], follow)
            shifted = any(b.kind == "el" and any(cc[1] == "bn_rsh" and cc[2] and key(fn, cc[2][0]) == E for cc in ir.calls_in(fn, b.el.e)) for b in reach)
            if shifted:
                continue
            st = F.IN.get(nd)
            if st is None or st is engines.UNIVERSE:
                continue
            Lk = key(fn, c[2][2])
            Xs = set()
            for a in st:
                if a[0] == "rel":
                    Xs |= bits_args(subst_defs(a[1], st, keep=key_vars_k(Lk))) | bits_args(subst_defs(a[3], st, keep=key_vars_k(Lk)))
            ok = False
            for X in Xs:
                cons = [(normX(a, X), op, normX(b, X)) for a, op, b in constraints(st, Lk, X)]
                if not cons:
                    continue
                grid = feasible_grid(cons, Lk)
                if grid is None:
                    continue
                try:
                    if grid and all(8 * kev(normX(Lk, X), env) <= env[("bits", "X")] for env in grid):
                        ok = True
                except NoValue:
                    pass
            obj = "whole:%s" % re.sub(r"\s+", "", fn.fmt(c[2][2]))[:30]
            if ok:
                chk.ok("TRUNC", fn, obj, "decoded whole only where 8 L <= bits(n) is in force", line=nd.line())
            else:
                chk.fail("TRUNC", fn, obj, "`%s` decodes the digest whole and no shift follows, on a path on which nothing makes 8 * %s <= bits(n): a digest longer than the "
                         "order is not truncated to its leftmost bits" % (fn.fmt(c)[:50], engines.fmt_key(fn, Lk)), line=nd.line())
    return sites
