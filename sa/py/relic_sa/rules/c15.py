"""C15 — structural clauses of the Hash_DRBG generator and of integer sampling.

  DRBG-CARRY   every big-endian addition loop of the generator (digit = s & mask; carry = s >> k) accumulates in a type that
               holds the exact sum for every value its operands can take (interval analysis incl. the reseed counter)
  DRBG-LEN     no length that sizes an allocation was narrowed on the way (value-changing conversion of a size)
  DRBG-LIMIT   output is produced only for requests within the per-call limit (2^16 bytes); larger ones are refused
  DRBG-UPDATE  every normal return of the generate function has produced the output from V and then updated
               V <- V + H(03 || V) + C + counter (all four addends, the carry of the short addition propagated) and
               incremented the counter after adding it
  DRBG-SEED    every normal return of the seeding function has derived V from the seed (reseed: from 01 || V || seed) and C
               from 00 || V, after V, and reset the counter and the seeded flag to 1
  RAND-RANGE   bn_rand_mod returns only after a reduction modulo (a copy of) the bound, with the non-zero test on the exit edge
  RAND-BITS    bn_rand masks the top digit to the requested bit length and normalises after the last fill
  RAND-SOURCE  the generator and the samplers reach no other source of randomness or time (call graph)
"""
import re

from .. import ir, engines, intervals
from ..engines import Facts, key
from ..facts import AnalysisBroken
from .c03 import c05_line

EXPLANATION = (
    "Static decision of structural necessary conditions of C15 over the Hash_DRBG unit (src/rand/relic_rand_hashd.c) and the "
    "integer samplers bn_rand / bn_rand_mod: an interval analysis (C integer types, promotions, wrap-around; interprocedural "
    "over the static helpers; the reseed counter bounded only by its type) shows that every carry-propagating addition "
    "accumulates exactly - this is what breaks for call histories longer than the suite's two-call vectors; forward "
    "must-dataflow over the exploded CFG shows that output is produced only within the request limit, that every normal "
    "return of generate/seed has performed each step of the state update in a valid order, and that sampled integers are "
    "reduced, non-zero and masked. Equality of the byte stream with SP 800-90A for concrete inputs (the hash function, "
    "hash_df counters' values) is not decided. Nothing of RELIC is executed.")

UNIT = "src/rand/relic_rand_hashd.c"
LIMIT = 1 << 16
ALLOCS = {"alloca", "__builtin_alloca", "malloc", "calloc", "_alloca"}
INC_OPS = ("++", "p++", "++p", "post++", "pre++")


def in_scope(fn):
    return fn.rfile == UNIT or "selftest" in fn.file


def scope(prog):
    return [fn for fn in prog.all if in_scope(fn)]


def lib(prog):
    p = prog
    while getattr(p, "library", None) is not None:
        p = p.library
    return p


def make_intervals(ctx, prog):
    fns = scope(prog)
    t = intervals.ctype("int")
    fi = intervals.field_interval(lib(prog), "_ctx_t", "counter", t)
    fields = {}
    if fi is not None:
        fields[("_ctx_t", "counter")] = fi
    else:
        fields[("_ctx_t", "counter")] = (intervals.trange(t), t)
    cache = {}

    def facts_of(fn):
        if fn.name not in cache:
            cache[fn.name] = Facts(prog, ctx.xcfg(prog, fn), mark_thrown=True)
        return cache[fn.name]
    return intervals.Analysis(prog, fns, fields=fields, facts_of=facts_of), fields


# ---------------------------------------------------------------------- DRBG-CARRY / DRBG-LEN
def rule_carry(ctx, prog, chk, A):
    n = 0
    for fn in scope(prog):
        # pattern: X[..] = s & M ; c = s >> k  with M == 2^k - 1
        digit = {}
        carry = {}
        for el in fn.all_elements():
            e = el.e
            if e[0] != "=":
                continue
            r = ir.peel(fn, e[2])
            l = ir.strip_casts(e[1])
            if isinstance(r, list) and r[0] == "b" and r[1] == "&" and isinstance(l, list) and l[0] == "x":
                a, m = ir.peel(fn, r[2]), ir.peel(fn, r[3])
                if isinstance(a, list) and a[0] == "v" and isinstance(m, list) and m[0] == "i":
                    digit[a[1]] = (m[1], el)
            if isinstance(r, list) and r[0] == "b" and r[1] == ">>" and isinstance(l, list) and l[0] == "v":
                a, k = ir.peel(fn, r[2]), ir.peel(fn, r[3])
                if isinstance(a, list) and a[0] == "v" and isinstance(k, list) and k[0] == "i":
                    carry[a[1]] = (k[1], l[1], el)
        # second idiom: the sum of bytes is assigned to a variable that is stored back whole (`state[i] = s`), the carry being
        # derived some other way (a comparison with an operand, say): the variable is the accumulator all the same
        accs = set(s for s in digit if s in carry and digit[s][0] == (1 << carry[s][0]) - 1)
        stored = set()
        summed = set()
        for el in fn.all_elements():
            for sub in ir.walk(fn, el.e):
                if sub[0] == "=":
                    l = ir.strip_casts(sub[1])
                    r = ir.peel(fn, sub[2])
                    if isinstance(l, list) and l[0] == "x" and isinstance(r, list) and r[0] == "v":
                        stored.add(r[1])
                tgt = rhs = None
                if sub[0] == "d" and sub[2] is not None:
                    tgt, rhs = sub[1], sub[2]
                elif sub[0] == "=" and ir.strip_casts(sub[1])[0] == "v":
                    tgt, rhs = ir.strip_casts(sub[1])[1], sub[2]
                if tgt is not None:
                    r = ir.peel(fn, rhs)
                    if isinstance(r, list) and r[0] == "b" and r[1] == "+" and any(isinstance(x, list) and x and x[0] == "x" for x in ir.walk(fn, r)):
                        summed.add(tgt)
        accs |= (stored & summed)
        for s in sorted(accs):
            # every assignment of the accumulator
            for (fname, eid, v), val in A.narrowings.items():
                if fname != fn.name or v != s:
                    continue
                n += 1
                t = A.vtype(fn, s)
                el = fn.elems[eid]
                nm = fn.vars[s]["n"]
                if val.wrapped:
                    chk.fail("DRBG-CARRY", fn, nm, "the sum accumulated in `%s` can exceed the type it is computed in for operand values the callers can pass: the carry chain is not exact" % nm, line=el.line)
                elif not intervals.fits(val.iv, t) or val.iv[0] < 0:
                    chk.fail("DRBG-CARRY", fn, nm, "the accumulator `%s` (%s, range %s) cannot hold the sum it is assigned, whose range is [%d, %d] given the values the callers pass (the reseed counter is only bounded by its type): digits and carries are wrong once the sum no longer fits" % (
                        nm, fn.vars[s]["t"], list(intervals.trange(t)), val.iv[0], val.iv[1]), line=el.line)
                else:
                    chk.ok("DRBG-CARRY", fn, nm, "sum in [%d, %d] fits %s" % (val.iv[0], val.iv[1], fn.vars[s]["t"]), line=el.line)
        # hand-rolled ripples: bytes of a multi-byte value incremented through constant indices
        touched = {}
        for el in fn.all_elements():
            for sub in ir.walk(fn, el.e):
                tgt = None
                if sub[0] == "u" and ("++" in sub[1] or "--" in sub[1]):
                    tgt = sub[2]
                elif sub[0] == "o=" and sub[1] in ("+=", "-="):
                    tgt = sub[2]
                if tgt is None:
                    continue
                l = ir.strip_casts(fn.resolve(tgt))
                if not (isinstance(l, list) and l[0] == "x"):
                    continue
                idx = ir.peel(fn, l[2])
                bv = ir.base_var(fn, l[1])
                if bv is None or not (isinstance(idx, list) and idx[0] == "i"):
                    continue
                et = intervals.elem_type(fn.vars[bv].get("c")) if not is_rand_state(fn, l[1]) else (8, False)
                if et != (8, False):
                    continue
                touched.setdefault(bv, (set(), el.line))[0].add(idx[1])
        for bv, (idxs, line) in touched.items():
            if len(idxs) < 2:
                continue        # a single byte stepped on its own is a one-byte counter (hash_df), not a ripple
            n += 1
            dims = fn.vars[bv].get("dims")
            width = dims[0] if dims else None
            nm = fn.vars[bv]["n"]
            if width is not None and len(idxs) >= width:
                chk.ok("DRBG-CARRY", fn, nm, "unrolled ripple over all %d bytes" % width, line=line)
            else:
                chk.fail("DRBG-CARRY", fn, nm, "`%s` is incremented byte by byte through %d fixed position(s) only: a carry out of the last of them is lost, so the value is not the sum modulo 2^(8*%s)" % (
                    nm, len(idxs), width if width is not None else "len"), line=line)
    return n


def rule_len(ctx, prog, chk, A):
    """variables that size an allocation or a copy were not narrowed with a possible change of value"""
    n = 0
    for fn in scope(prog):
        for el in fn.all_elements():
            for c in ir.calls_in(fn, el.e):
                if c[1] not in ALLOCS and c[1] not in ("memcpy", "memset", "memmove"):
                    continue
                szarg = c[2][-1] if c[1] != "calloc" else c[2][0]
                for sub in ir.walk(fn, szarg, follow_refs=True):
                    if sub[0] != "v":
                        continue
                    v = sub[1]
                    t = A.vtype(fn, v)
                    if t is None or fn.vars[v]["k"] == "p":
                        continue
                    n += 1
                    bad = None
                    for (fname, eid, vv), val in A.narrowings.items():
                        if fname == fn.name and vv == v and (not intervals.fits(val.iv, t)) and not val.wrapped is None:
                            if not intervals.fits(val.iv, t):
                                bad = (eid, val)
                    nm = fn.vars[v]["n"]
                    if bad:
                        chk.fail("DRBG-LEN", fn, nm, "`%s` (%s) sizes %s but is assigned a length whose range [%d, %d] does not fit it: for long inputs the size is truncated while the data are not" % (
                            nm, fn.vars[v]["t"], c[1], bad[1].iv[0], bad[1].iv[1]), line=fn.elems[bad[0]].line)
                    else:
                        chk.ok("DRBG-LEN", fn, nm, "length variable of %s assigned without narrowing" % c[1], line=el.line)
    return n


# ---------------------------------------------------------------------- DRBG-LIMIT / DRBG-UPDATE
def is_rand_state(fn, e, off=False):
    """expression derived from ctx->rand (pointer arithmetic allowed)"""
    for sub in ir.walk(fn, e, follow_refs=True):
        if sub[0] == "m" and sub[2] == "rand":
            return True
    return False


def mentions_var(fn, e, v):
    return any(sub[0] == "v" and sub[1] == v for sub in ir.walk(fn, e, follow_refs=True))


def generate_functions(prog):
    return [fn for fn in scope(prog) if re.match(r"^(\w+__)?rand_bytes$", fn.name)]


def seed_functions(prog):
    return [fn for fn in scope(prog) if re.match(r"^(\w+__)?rand_seed$", fn.name)]


def rule_generate(ctx, prog, chk):
    n = 0
    for fn in generate_functions(prog):
        if len(fn.params) < 2:
            raise AnalysisBroken("DRBG-UPDATE: %s no longer takes (buffer, size)" % fn.name)
        buf, size = fn.params[0], fn.params[1]
        g = ctx.xcfg(prog, fn)
        calls = [c[1] for el in fn.all_elements() for c in ir.calls_in(fn, el.e)]
        if not any(c and re.search(r"rand_add|rand_inc", c) for c in calls):
            # the update may have been moved into a static helper of the unit (rand_bytes -> rand_update -> rand_add):
            # then the sequence is spread over two bodies and this rule, which reads one body, makes no claim
            moved = False
            for c in calls:
                h = prog.get(c, near=fn) if c else None
                if h is not None and h.static and in_scope(h):
                    hc = [x[1] for el in h.all_elements() for x in ir.calls_in(h, el.e)]
                    if any(x and re.search(r"rand_add|rand_inc", x) for x in hc):
                        moved = True
            if moved:
                chk.gen_moved = True
                chk.note("DRBG-UPDATE / DRBG-LIMIT: %s performs the state update in a static helper; the step sequence is not decided for this shape" % fn.name)
                continue
            raise AnalysisBroken("DRBG-UPDATE: %s no longer calls the big-endian addition helpers; the state update is not recognisable" % fn.name)

        def gen(node, s, pre):
            out = []
            e = node.el.e
            for sub in ir.walk(fn, e):
                if sub[0] == "=":
                    l = ir.strip_casts(sub[1])
                    r = ir.peel(fn, sub[2])
                    if isinstance(l, list) and l[0] == "x" and is_rand_state(fn, l[1]) and (ir.peel(fn, l[2]) or [0, 1])[:2] == ["i", 0] \
                            and isinstance(r, list) and r[0] == "i":
                        out.append(("ev", "tag", r[1]))
                    if isinstance(l, list) and l[0] == "m" and l[2] == "counter":
                        if isinstance(r, list) and r[0] == "b" and r[1] == "+" and (ir.peel(fn, r[3]) or [0, 0])[:2] == ["i", 1] \
                                and (ir.peel(fn, r[2]) or [0])[0] == "m" and ir.peel(fn, r[2])[2] == "counter":
                            out.append(("ev", "ctrinc"))
                    if isinstance(l, list) and l[0] == "v" and isinstance(r, list) and r[0] == "c" and r[1] == "rand_add" \
                            and ("ev", "H") in pre and not is_rand_state(fn, r[2][1]):
                        out.append(("ev", "carryvar", l[1]))
                elif sub[0] == "u" and sub[1] in INC_OPS:
                    l = ir.strip_casts(sub[2])
                    if isinstance(l, list) and l[0] == "m" and l[2] == "counter":
                        out.append(("ev", "ctrinc"))
                elif sub[0] == "o=" and sub[1] == "+=":
                    l = ir.strip_casts(sub[2])
                    if isinstance(l, list) and l[0] == "m" and l[2] == "counter" and (ir.peel(fn, sub[3]) or [0, 0])[:2] == ["i", 1]:
                        out.append(("ev", "ctrinc"))
            for c in ir.calls_in(fn, e):
                if not c[1]:
                    continue
                if any(mentions_var(fn, a, buf) for a in c[2]) and not re.search(r"rand_add|rand_inc|md_map", c[1]):
                    out.append(("ev", "out"))
                elif re.match(r"^md_map", c[1]) and len(c[2]) >= 2 and is_rand_state(fn, c[2][1]) and ("ev", "tag", 3) in pre \
                        and ("ev", "out") in pre and not any(x[0] == "ev" and x[1] in ("addC", "addH", "addCtr") for x in pre):
                    out.append(("ev", "H"))
                    out.append(("ev", "Hvar", key(fn, c[2][0])))
                elif c[1] == "rand_add" and len(c[2]) >= 2 and is_rand_state(fn, c[2][0]):
                    if is_rand_state(fn, c[2][1]):
                        if ("ev", "out") in pre:
                            out.append(("ev", "addC"))
                    elif ("ev", "Hvar", key(fn, c[2][1])) in pre:
                        out.append(("ev", "addH"))
                elif c[1] == "rand_inc" and len(c[2]) >= 3 and is_rand_state(fn, c[2][0]):
                    a = ir.peel(fn, c[2][2])
                    if isinstance(a, list) and a[0] == "m" and a[2] == "counter":
                        if ("ev", "ctrinc") not in pre and ("ev", "out") in pre:
                            out.append(("ev", "addCtr"))
                    elif isinstance(a, list) and a[0] == "v" and ("ev", "carryvar", a[1]) in pre:
                        out.append(("ev", "carryH"))
            return out

        def kill(node, s):
            # a second hash of the state invalidates nothing; writing rand[0] replaces the tag
            for sub in ir.walk(fn, node.el.e):
                if sub[0] == "=":
                    l = ir.strip_casts(sub[1])
                    if isinstance(l, list) and l[0] == "x" and is_rand_state(fn, l[1]):
                        s = frozenset(x for x in s if not (x[0] == "ev" and x[1] == "tag"))
            return s
        F = Facts(prog, g, gen=gen, extra_kill=kill, mark_thrown=True)
        # DRBG-LIMIT: at every node that hands the caller's buffer to a producer
        nlim = 0
        for nd in g.nodes:
            if nd.kind != "el" or nd.proto:
                continue
            st = F.IN.get(nd)
            if st is None or st is engines.UNIVERSE:
                continue
            for c in ir.calls_in(fn, nd.el.e):
                if c[1] and any(mentions_var(fn, a, buf) for a in c[2]) and not re.search(r"rand_add|rand_inc|md_map", c[1]):
                    nlim += 1
                    n += 1
                    ub = None
                    for a in st:
                        if a[0] == "cmp" and a[1] == ("v", size) and a[2] in ("<=", "<", "==") and isinstance(a[3], int):
                            c2 = a[3] - 1 if a[2] == "<" else a[3]
                            ub = c2 if ub is None else min(ub, c2)
                    if ub is not None and ub <= LIMIT:
                        chk.ok("DRBG-LIMIT", fn, c[1], "output produced only for size <= %d" % ub, line=nd.line())
                    else:
                        chk.fail("DRBG-LIMIT", fn, c[1], "`%s` produces output for requests not shown to be within the per-call limit of 2^16 bytes (bound known here: %s)" % (c[1], ub), line=nd.line())
        if nlim == 0:
            raise AnalysisBroken("DRBG-LIMIT: no producer of output found in %s" % fn.name)
        # DRBG-UPDATE at normal returns
        steps = [("out", "the output is generated from V"), ("H", "H = Hash(03 || V) is computed after the output and before V changes"),
                 ("addC", "C is added to V"), ("addH", "H is added to V"), ("carryH", "the carry of the short addition of H is propagated into the upper bytes of V"),
                 ("addCtr", "the reseed counter is added to V before it is incremented"), ("ctrinc", "the reseed counter is incremented")]
        nret = 0
        missing = {}
        for p, l in g.exit.pred:
            st = F.IN.get(p)
            if st is None:
                continue
            st = F._transfer(p, st)
            if st is engines.UNIVERSE:
                continue
            nret += 1
            for tok, what in steps:
                if ("ev", tok) not in st:
                    missing.setdefault(tok, (what, p))
        if nret == 0:
            raise AnalysisBroken("DRBG-UPDATE: %s has no normal return" % fn.name)
        for tok, what in steps:
            n += 1
            if tok in missing:
                chk.fail("DRBG-UPDATE", fn, tok, "a normal return is reachable on which this step of the generate function is missing or out of order: %s" % what, line=c05_line(missing[tok][1], fn))
            else:
                chk.ok("DRBG-UPDATE", fn, tok, what + " on every normal return", line=fn.line)
    return n


def rule_seed(ctx, prog, chk):
    n = 0
    for fn in seed_functions(prog):
        if len(fn.params) < 2:
            continue
        buf = fn.params[0]
        g = ctx.xcfg(prog, fn)
        if not any(c[1] == "rand_hash" for el in fn.all_elements() for c in ir.calls_in(fn, el.e)):
            raise AnalysisBroken("DRBG-SEED: %s no longer calls the derivation function rand_hash" % fn.name)

        def gen(node, s, pre):
            out = []
            e = node.el.e
            for sub in ir.walk(fn, e):
                if sub[0] == "=":
                    l = ir.strip_casts(sub[1])
                    r = ir.peel(fn, sub[2])
                    while isinstance(r, list) and r[0] == "=":
                        # chained assignment a = b = 1
                        l2 = ir.strip_casts(r[1])
                        r2 = ir.peel(fn, r[2])
                        if isinstance(l2, list) and l2[0] == "m" and l2[2] in ("counter", "seeded") and isinstance(r2, list) and r2[0] == "i" and r2[1] == 1:
                            out.append(("ev", "set", l2[2]))
                        r = r2 if not (isinstance(r2, list) and r2[0] == "=") else r2
                        if not (isinstance(r, list) and r[0] == "="):
                            break
                    if isinstance(l, list) and l[0] == "x" and (ir.peel(fn, l[2]) or [0, 1])[:2] == ["i", 0] and isinstance(r, list) and r[0] == "i":
                        if is_rand_state(fn, l[1]):
                            out.append(("ev", "tag", r[1]))
                        else:
                            bv = ir.base_var(fn, l[1])
                            if bv is not None:
                                out.append(("ev", "ltag", bv, r[1]))
                    if isinstance(l, list) and l[0] == "m" and l[2] in ("counter", "seeded") and isinstance(r, list) and r[0] == "i" and r[1] == 1:
                        out.append(("ev", "set", l[2]))
            for c in ir.calls_in(fn, e):
                if c[1] == "memcpy" and len(c[2]) >= 3:
                    bv = ir.base_var(fn, c[2][0])
                    if bv is not None and fn.vars[bv]["k"] != "p":
                        if is_rand_state(fn, c[2][1]):
                            out.append(("ev", "cpV", bv))
                        elif mentions_var(fn, c[2][1], buf):
                            out.append(("ev", "cpSeed", bv))
                elif c[1] == "rand_hash" and len(c[2]) >= 4 and is_rand_state(fn, c[2][0]):
                    src = c[2][2]
                    if is_rand_state(fn, src):
                        # C = hash_df(00 || V): after V, with the zero tag in place, output above V
                        if ("ev", "V") in pre and ("ev", "tag", 0) in pre:
                            out.append(("ev", "C"))
                    elif mentions_var(fn, src, buf):
                        out.append(("ev", "V"))
                    else:
                        bv = ir.base_var(fn, src)
                        if bv is not None and ("ev", "cpV", bv) in pre and ("ev", "cpSeed", bv) in pre and ("ev", "ltag", bv, 1) in pre:
                            out.append(("ev", "V"))
            return out

        def kill(node, s):
            for sub in ir.walk(fn, node.el.e):
                if sub[0] == "=":
                    l = ir.strip_casts(sub[1])
                    if isinstance(l, list) and l[0] == "x" and is_rand_state(fn, l[1]):
                        s = frozenset(x for x in s if not (x[0] == "ev" and x[1] == "tag"))
                    if isinstance(l, list) and l[0] == "m" and l[2] in ("counter", "seeded"):
                        s = frozenset(x for x in s if not (x[0] == "ev" and x[1] == "set" and x[2] == l[2]))
            for c in ir.calls_in(fn, node.el.e):
                if c[1] == "rand_hash" and c[2] and is_rand_state(fn, c[2][0]) and not is_rand_state(fn, c[2][2] if len(c[2]) > 2 else None):
                    s = frozenset(x for x in s if not (x[0] == "ev" and x[1] == "C"))   # a new V invalidates C
            return s
        F = Facts(prog, g, gen=gen, extra_kill=kill, mark_thrown=True)
        steps = [("V", "V is derived with hash_df from the seed (reseed: from 01 || V || seed)"),
                 ("C", "C is derived from 00 || V after V"),
                 (("set", "counter"), "the reseed counter is reset to 1"), (("set", "seeded"), "the seeded flag is set")]
        missing = {}
        nret = 0
        for p, l in g.exit.pred:
            st = F.IN.get(p)
            if st is None:
                continue
            st = F._transfer(p, st)
            if st is engines.UNIVERSE:
                continue
            nret += 1
            for tok, what in steps:
                f = ("ev", tok) if isinstance(tok, str) else ("ev",) + tok
                if f not in st:
                    missing.setdefault(tok, (what, p))
        if nret == 0:
            raise AnalysisBroken("DRBG-SEED: %s has no normal return" % fn.name)
        for tok, what in steps:
            n += 1
            obj = tok if isinstance(tok, str) else tok[1]
            if tok in missing:
                chk.fail("DRBG-SEED", fn, obj, "a normal return is reachable on which this step of (re)seeding is missing or out of order: %s" % what, line=c05_line(missing[tok][1], fn))
            else:
                chk.ok("DRBG-SEED", fn, obj, what + " on every normal return", line=fn.line)
    return n


# ---------------------------------------------------------------------- samplers
def rule_samplers(ctx, prog, chk):
    n = 0
    for fn in prog.all:
        base = fn.name.split("__")[-1]
        if base == "bn_rand_mod" and len(fn.params) >= 2:
            a, b = fn.params[0], fn.params[1]
            ak = ("v", a)
            g = ctx.xcfg(prog, fn)

            def gen(node, s, pre, fn=fn, a=a, b=b, ak=ak):
                out = []
                for c in ir.calls_in(fn, node.el.e):
                    if c[1] == "bn_copy" and len(c[2]) == 2 and key(fn, c[2][1]) == ("v", b):
                        out.append(("ev", "bound", key(fn, c[2][0])))
                    elif c[1] in ("bn_mod", "bn_mod_basic") and len(c[2]) >= 3 and key(fn, c[2][0]) == ak:
                        mk = key(fn, c[2][2])
                        if mk == ("v", b) or ("ev", "bound", mk) in pre:
                            out.append(("ev", "reduced"))
                return out

            def kill(node, s, fn=fn, ak=ak):
                # any other write of the result voids the reduction
                for c in ir.calls_in(fn, node.el.e):
                    if c[1] and c[2] and key(fn, c[2][0]) == ak and c[1] not in ("bn_mod", "bn_mod_basic", "bn_is_zero", "bn_cmp_abs", "bn_cmp", "bn_bits", "bn_sign"):
                        s = frozenset(x for x in s if x != ("ev", "reduced"))
                return s
            F = Facts(prog, g, gen=gen, extra_kill=kill, mark_thrown=True)
            bad_red = bad_zero = None
            nret = 0
            for p, l in g.exit.pred:
                st = F.IN.get(p)
                if st is None:
                    continue
                st = F._transfer(p, st)
                if st is engines.UNIVERSE:
                    continue
                nret += 1
                if ("ev", "reduced") not in st:
                    bad_red = p
                if not any(x[0] == "cmp" and isinstance(x[1], tuple) and x[1][0] == "c" and x[1][1] == "bn_is_zero" and x[1][2] == (ak,) and engines.entails(x[2], x[3], "==", 0) for x in st):
                    bad_zero = p
            if nret == 0:
                raise AnalysisBroken("RAND-RANGE: %s has no normal return" % fn.name)
            n += 2
            nm = fn.vars[a]["n"]
            if bad_red is not None:
                chk.fail("RAND-RANGE", fn, "reduced", "`%s` is returned on some path without having been reduced modulo the bound after its last write" % nm, line=c05_line(bad_red, fn))
            else:
                chk.ok("RAND-RANGE", fn, "reduced", "result reduced modulo (a copy of) the bound after its last write on every normal return", line=fn.line)
            if bad_zero is not None:
                chk.fail("RAND-RANGE", fn, "nonzero", "`%s` can be returned without the zero test having failed on the way out: 0 is outside [1, bound)" % nm, line=c05_line(bad_zero, fn))
            else:
                chk.ok("RAND-RANGE", fn, "nonzero", "every normal return is dominated by bn_is_zero(%s) == 0 after the last write" % nm, line=fn.line)
        elif base == "bn_rand" and len(fn.params) >= 3:
            a = fn.params[0]
            ak = ("v", a)
            g = ctx.xcfg(prog, fn)

            def gen(node, s, pre, fn=fn, ak=ak):
                out = []
                e = node.el.e
                for c in ir.calls_in(fn, e):
                    if c[1] == "bn_trim" and c[2] and key(fn, c[2][0]) == ak:
                        out.append(("ev", "trim"))
                    if c[1] == "rand_bytes":
                        out.append(("ev", "fill"))
                for sub in ir.walk(fn, e):
                    if sub[0] == "o=" and sub[1] == "&=":
                        l = ir.strip_casts(sub[2])
                        if isinstance(l, list) and l[0] == "x" and any(x[0] == "m" and x[2] == "dp" for x in ir.walk(fn, l[1])) and ("ev", "fill") in pre:
                            out.append(("ev", "mask"))
                return out

            def kill(node, s, fn=fn):
                for c in ir.calls_in(fn, node.el.e):
                    if c[1] == "rand_bytes":
                        s = frozenset(x for x in s if x not in (("ev", "mask"), ("ev", "trim")))
                return s

            def edge_gen(node, label, atoms, fn=fn):
                # the branch `remaining bits > 0` not taken: nothing to mask
                out = []
                for at in atoms:
                    if at[0] == "cmp" and isinstance(at[1], tuple) and at[1][0] == "v" and fn.vars[at[1][1]]["k"] == "p" and engines.entails(at[2], at[3], "<=", 0):
                        if ("ev", "fill") in getattr(edge_gen, "F").edge_state:
                            out.append(("ev", "mask"))
                return out
            F = Facts.__new__(Facts)
            edge_gen.F = F
            Facts.__init__(F, prog, g, gen=gen, extra_kill=kill, edge_gen=edge_gen, mark_thrown=True)
            bad = {}
            nret = 0
            for p, l in g.exit.pred:
                st = F.IN.get(p)
                if st is None:
                    continue
                st = F._transfer(p, st)
                if st is engines.UNIVERSE:
                    continue
                nret += 1
                for tok in ("fill", "mask", "trim"):
                    if ("ev", tok) not in st:
                        bad.setdefault(tok, p)
            if nret == 0:
                raise AnalysisBroken("RAND-BITS: %s has no normal return" % fn.name)
            what = {"fill": "the digits are filled from the generator", "mask": "the top digit is masked to the requested bit length after the last fill (or no bits remain)",
                    "trim": "the result is normalised after the last fill"}
            for tok in ("fill", "mask", "trim"):
                n += 1
                if tok in bad:
                    chk.fail("RAND-BITS", fn, tok, "a normal return is reachable on which this does not hold: %s" % what[tok], line=c05_line(bad[tok], fn))
                else:
                    chk.ok("RAND-BITS", fn, tok, what[tok], line=fn.line)
    return n


# ---------------------------------------------------------------------- RAND-SOURCE
SOURCE_ALLOWED = re.compile(r"^(mem(cpy|set|move|cmp)|alloca|__builtin_\w+|malloc|calloc|free|longjmp|_?setjmp|md_\w+|core_get|err_\w+|util_\w+|rand_(hash|inc|add|gen|bytes|check)|"
                            r"bn_(grow|trim|mod|mod_basic|copy|is_zero|cmp_abs|cmp|bits|sign|new\w*|free\w*|init|clean|make|rand|null|zero|rsh|div\w*|set_dig|get_bit|lsh|sub|add)\w*|dv_\w+)$")


def rule_source(ctx, prog, chk):
    n = 0
    roots = [fn for fn in prog.all if fn.name.split("__")[-1] in ("rand_bytes", "bn_rand", "bn_rand_mod") and (in_scope(fn) or fn.rfile.endswith("bn/relic_bn_util.c"))]
    for fn in roots:
        seen = set()
        work = [fn]
        while work:
            f = work.pop()
            if f.name in seen:
                continue
            seen.add(f.name)
            for el in f.all_elements():
                for c in ir.calls_in(f, el.e):
                    if not c[1]:
                        continue
                    callee = lib(prog).get(c[1], near=f) if c[1] not in prog.functions else prog.functions[c[1]]
                    if callee is not None and (in_scope(callee) or callee.rfile.endswith("bn/relic_bn_util.c")) and callee.name.split("__")[-1] in (
                            "rand_gen", "rand_hash", "rand_add", "rand_inc", "rand_bytes", "bn_rand"):
                        work.append(callee)
                    n += 1
                    if callee is not None and callee.static and in_scope(callee) and callee.rfile == f.rfile:
                        work.append(callee)     # a static helper of the generator unit: judged by what it reaches
                        continue
                    if SOURCE_ALLOWED.match(c[1]) or (c[1].startswith(("st_", "ok_", "bad_")) and "selftest" in f.file):
                        continue
                    chk.fail("RAND-SOURCE", f, c[1], "`%s` is reachable from %s: the generator and the samplers must be a function of the generator state alone (hash, copies and integer helpers only)" % (c[1], fn.name), line=el.line)
        chk.ok("RAND-SOURCE", fn, "callees", "callees of %d function(s) reachable within the generator are all hash/copy/integer helpers" % len(seen), line=fn.line)
    return n


# ---------------------------------------------------------------------- DRBG-CLAMP / HASHGEN-INC / RAND-FILL
def rule_clamp(ctx, prog, chk):
    """DRBG-CLAMP: inside the generator no length parameter is replaced by the smaller of itself and something else
    (`len = RLC_MIN(len, cap)`): input that does not fit a buffer is an error, not something to drop - seed material cut
    silently gives a stream that differs from Hash_DRBG's for that seed.  Expected count zero (kept alive by its miniature)"""
    n = 0
    for fn in scope(prog):
        lens = [p for p in fn.params if re.search(r"(^|_)(len|size)$", fn.vars[p]["n"]) and "pc" not in fn.vars[p]]
        if not lens:
            continue
        n += 1
        bad = None
        for el in fn.all_elements():
            for sub in ir.walk(fn, el.e):
                if sub[0] == "=" and ir.strip_casts(sub[1])[0] == "v" and ir.strip_casts(sub[1])[1] in lens:
                    r = ir.peel(fn, sub[2])
                    if isinstance(r, list) and r[0] == "?" and len(r) == 4 and mentions_var(fn, r, ir.strip_casts(sub[1])[1]):
                        bad = bad or (el, fn.fmt(sub)[:60])
        if bad is None:
            chk.ok("DRBG-CLAMP", fn, "lengths", "no length parameter is clamped", line=fn.line)
        else:
            chk.fail("DRBG-CLAMP", fn, "lengths", "`%s` silently shortens an input length inside the generator: the bytes beyond it never reach the hash, so the state is not the one "
                     "Hash_DRBG derives from that input" % bad[1], line=bad[0].line)
    return n


def rule_hashgen_inc(ctx, prog, chk):
    """HASHGEN-INC: in the output loop of the generator (Hashgen: w_i = Hash(data); data = data + 1 mod 2^b) every hash of
    the working copy `data` is followed, before the next hash of it and before the function returns, by the increment of
    the *whole* working copy through the carry-exact routine (rand_inc(data, its full size, 1))"""
    n = 0
    for fn in scope(prog):
        g = None
        sites = []
        for el in fn.all_elements():
            for c in ir.calls_in(fn, el.e):
                if c[1] and re.match(r"^md_map(_\w+)?$", c[1]) and len(c[2]) == 3:
                    d = ir.base_var(fn, c[2][1])
                    if d is not None and fn.vars[d].get("dims") and fn.vars[d]["k"] != "p" and not is_rand_state(fn, c[2][1]):
                        # a local working copy that was filled from the generator state
                        filled = any(cc[1] == "memcpy" and len(cc[2]) == 3 and ir.base_var(fn, cc[2][0]) == d and is_rand_state(fn, cc[2][1])
                                     for e2 in fn.all_elements() for cc in ir.calls_in(fn, e2.e))
                        if filled:
                            sites.append((el, d))
        if not sites:
            continue
        g = ctx.xcfg(prog, fn)
        for el, d in sites:
            n += 1
            width = fn.vars[d]["dims"][0]
            nodes = [nd for nd in g.nodes if nd.kind == "el" and nd.el is el]

            def is_inc(nd, d=d, width=width):
                if nd.kind != "el" or nd.proto:
                    return False
                for c in ir.calls_in(fn, nd.el.e):
                    if c[1] and c[1].split("__")[-1] == "rand_inc" and len(c[2]) >= 2 and ir.base_var(fn, c[2][0]) == d:
                        k = engines.key(fn, c[2][1])
                        a0 = ir.strip_casts(fn.resolve(c[2][0]))
                        if isinstance(k, tuple) and k[0] == "i" and k[1] == width and isinstance(a0, list) and a0[0] == "v":
                            return True
                return False

            def is_hash(nd, d=d):
                return nd.kind == "el" and not nd.proto and any(c[1] and re.match(r"^md_map(_\w+)?$", c[1]) and len(c[2]) == 3 and ir.base_var(fn, c[2][1]) == d for c in ir.calls_in(fn, nd.el.e))
            starts = [m for nd in nodes for m, l in nd.succ]
            reach = engines.reachable_from(g, starts, lambda a, b, lab: not is_inc(a))
            bad = any((is_hash(x) and not is_inc(x)) or x is g.exit for x in reach if not is_inc(x)) and not all(is_inc(x) for x in starts)
            # nodes reached *through* an increment are cut by the follow function; what remains reachable without one is the defect
            nm = fn.vars[d]["n"]
            if bad:
                chk.fail("HASHGEN-INC", fn, nm, "after `%s` the next hash of `%s` (or the return) is reachable without rand_inc(%s, %d, ..) over the whole working copy: "
                         "successive output blocks are not Hash(V), Hash(V + 1), ... modulo 2^(8*%d)" % (fn.fmt(el.e)[:40], nm, nm, width, width), line=el.line)
            else:
                chk.ok("HASHGEN-INC", fn, nm, "every hash of the working copy is followed by the carry-exact increment of all %d bytes" % width, line=el.line)
    return n


def rule_fill(ctx, prog, chk):
    """RAND-FILL: a sampler that fills the digits of an integer from the generator asks for as many bytes as the digits it
    declares in use hold (rand_bytes(a->dp, U * sizeof(dig_t)) with a->used = U): fewer bytes leave the top digit's high
    bytes as they were (zero, or stale), which the final mask does not repair"""
    n = 0
    for fn in prog.all:
        if not (fn.rfile.endswith("bn/relic_bn_util.c") or "selftest" in fn.file):
            continue
        for el in fn.all_elements():
            for c in ir.calls_in(fn, el.e):
                if c[1] != "rand_bytes" or len(c[2]) != 2:
                    continue
                a0 = ir.strip_casts(fn.resolve(c[2][0]))
                X = None
                for sub in ir.walk(fn, c[2][0], follow_refs=True):
                    if sub[0] == "m" and sub[2] == "dp":
                        X = ir.base_var(fn, sub[1])
                if X is None:
                    continue
                used = [sub[2] for e2 in fn.all_elements() for sub in ir.walk(fn, e2.e)
                        if sub[0] == "=" and engines.lvalue_path(fn, sub[1]) == (X, "used")]
                if not used:
                    continue
                n += 1
                U = engines.key(fn, used[-1])
                N = engines.key(fn, c[2][1])
                # locals that hold an expression: one step of substitution
                for e2 in fn.all_elements():
                    for sub in ir.walk(fn, e2.e):
                        if sub[0] == "=" and ir.strip_casts(sub[1]) == ["v", N[1]] if (isinstance(N, tuple) and N[0] == "v") else False:
                            N = engines.key(fn, sub[2])
                ok = isinstance(N, tuple) and N[0] == "b" and N[1] == "*" and ((N[2] == U and N[3][0] in ("i", "sizeof")) or (N[3] == U and N[2][0] in ("i", "sizeof")))
                if ok:
                    chk.ok("RAND-FILL", fn, fn.vars[X]["n"], "all digits declared in use are filled from the generator", line=el.line)
                else:
                    chk.fail("RAND-FILL", fn, fn.vars[X]["n"], "`%s` asks the generator for `%s` bytes while %s digits are declared in use: the bytes of the top digit beyond that count are not random" % (
                        fn.fmt(c)[:50], fn.fmt(c[2][1])[:30], fn.fmt(used[-1])[:20]), line=el.line)
    return n


def analyse(ctx, prog, chk):
    chk.used_program(prog)
    A, fields = make_intervals(ctx, prog)
    c = {"carry": rule_carry(ctx, prog, chk, A), "len": rule_len(ctx, prog, chk, A), "gen": rule_generate(ctx, prog, chk),
         "seed": rule_seed(ctx, prog, chk), "samplers": rule_samplers(ctx, prog, chk), "source": rule_source(ctx, prog, chk),
         "clamp": rule_clamp(ctx, prog, chk), "hashgen": rule_hashgen_inc(ctx, prog, chk), "fill": rule_fill(ctx, prog, chk)}
    return c


def selfcheck(ctx, prog, chk):
    analyse(ctx, prog, chk)


def run(ctx, chk):
    prog = ctx.program("BASE")
    c = analyse(ctx, prog, chk)
    fi = intervals.field_interval(prog, "_ctx_t", "counter", intervals.ctype("int"))
    chk.note("reseed counter ctx->counter: %s" % ("written only by non-negative constants and increments: interval [%d, %d]" % fi[0] if fi else "written in ways the analysis does not model: full range of int assumed"))
    chk.floor("DRBG-CARRY", "carry-chain accumulators", c["carry"], 2)
    chk.floor("HASHGEN-INC", "hashes of the working copy in the output loop", c["hashgen"], 1)
    chk.floor("RAND-FILL", "samplers that fill digits from the generator", c["fill"], 1)
    chk.floor("DRBG-CLAMP", "generator functions with length parameters", c["clamp"], 3)
    chk.floor("DRBG-LEN", "length variables of allocations/copies", c["len"], 2)
    if not getattr(chk, "gen_moved", False):
        chk.floor("DRBG-UPDATE", "steps of generate and limit sites", c["gen"], 8)
    chk.floor("DRBG-SEED", "steps of seeding", c["seed"], 4)
    chk.floor("RAND-RANGE", "sampler obligations", c["samplers"], 5)
    if chk.tier == "thorough":
        from .. import facts
        for name, opts in (("MD512", ["-DMD_METHD=SH512"]), ("MD384", ["-DMD_METHD=SH384"]), ("DYN", None)):
            if opts is not None:
                facts.CONFIGS.setdefault(name, opts)
            analyse(ctx, ctx.program(name), chk)
