"""C09 — structural clauses of the number-theoretic integer functions.

  GEN-POST  every normal return of a prime generator is reached with `bn_is_prime(a)` tested true after the last write of the
            result; for the generators that promise it by construction (basic, strong) also with `bn_bits(a) == bits`
  MXP-SIB   every modular-exponentiation sibling consults the sign of the exponent on every path that returns a power (negative
            exponents reach the modular inverse), and where it tells the zero exponent apart that path answers 1
  PRIME-PIPE  the primality predicate accepts only where the trial division and a probabilistic test (Miller-Rabin or
            Solovay-Strassen) both accepted; a path that skips the probabilistic test must be dominated by a bound on the
            candidate that is at most the square of the last trial-division prime (constants evaluated from the table)
  ARG-GUARD the functions whose contract excludes part of the integers (square root of a negative number, Legendre/Jacobi
            symbol for an even or non-positive modulus) return normally only where the excluded case was tested false
  (the recoders' buffer contracts are decided under C08: REC-GUARD, BUF-LEN)
"""
import re

from .. import ir, engines
from ..engines import Facts, key
from ..facts import AnalysisBroken
from .c03 import c05_line

EXPLANATION = (
    "Static decision of structural necessary conditions of C09 over src/bn: forward must-dataflow with branch atoms over "
    "the exploded CFG (flag-conditioned facts for the found/retry idiom) shows that the prime generators return only "
    "values that passed the primality test after their last write and, where the construction promises it, have exactly the "
    "requested bit length (the suite only asserts primality); that every modular-exponentiation sibling honours negative "
    "exponents; and that domain restrictions are enforced before a normal return. Values of reductions, inverses, gcds, "
    "symbols and the soundness of the primality tests themselves are not decided; recoder buffer contracts are decided "
    "under C08. Nothing of RELIC is executed.")

GEN = re.compile(r"^bn_gen_prime_(basic|safep|stron)$")
GEN_BITS = {"bn_gen_prime_basic", "bn_gen_prime_stron"}     # exact length is established by a loop condition
MXP = re.compile(r"^bn_mxp_(basic|slide|monty)$")
PRIME_TESTS = re.compile(r"^bn_is_prime(_basic|_rabin|_solov)?$")


def base(fn):
    return fn.name.split("__")[-1]


def flags_of(fn):
    """local int variables that are only ever assigned integer constants: (var, set of constants)"""
    cands = {}
    bad = set()
    for el in fn.all_elements():
        for sub in ir.walk(fn, el.e):
            if sub[0] == "d" and sub[2] is not None:
                v, rhs = sub[1], sub[2]
            elif sub[0] == "=":
                l = ir.strip_casts(sub[1])
                if not (isinstance(l, list) and l[0] == "v"):
                    continue
                v, rhs = l[1], sub[2]
            elif sub[0] in ("o=", "u"):
                l = ir.strip_casts(sub[2])
                if isinstance(l, list) and l[0] == "v" and (sub[0] == "o=" or "+" in sub[1] or "-" in sub[1]):
                    bad.add(l[1])
                continue
            else:
                continue
            if fn.vars[v]["k"] == "p":
                continue
            r = ir.peel(fn, rhs)
            if isinstance(r, list) and r[0] == "i" and isinstance(r[1], int):
                cands.setdefault(v, set()).add(r[1])
            else:
                bad.add(v)
    return {v: cs for v, cs in cands.items() if v not in bad and fn.vars[v].get("c") in ("int", "unsigned int", "_Bool")}


def rule_gen_post(ctx, prog, chk):
    n = 0
    for fn in prog.all:
        b = base(fn)
        if not GEN.match(b) or len(fn.params) < 2:
            continue
        a, bits = fn.params[0], fn.params[1]
        ak = ("v", a)
        flags = flags_of(fn)
        g = ctx.xcfg(prog, fn)

        def all_tokens(kind):
            out = [("ev", kind, a, -1, 0)]
            for f, cs in flags.items():
                for c in cs:
                    out.append(("ev", kind, a, f, c))
            return out

        def edge_gen(node, label, atoms):
            out = []
            for at in atoms:
                if at[0] == "cmp" and isinstance(at[1], tuple) and at[1][0] == "c" and isinstance(at[1][1], str) and PRIME_TESTS.match(at[1][1]) \
                        and at[1][2] == (ak,) and engines.entails(at[2], at[3], "!=", 0):
                    out += all_tokens("prime")
                if at[0] == "rel" and at[2] == "==" and {at[1], at[3]} == {("c", "bn_bits", (ak,)), ("v", bits)}:
                    out += all_tokens("bits")
                if at[0] == "cmp" and isinstance(at[1], tuple) and at[1][0] == "v" and at[1][1] in flags and at[2] == "==" and isinstance(at[3], int):
                    # the flag is known to have this value: facts conditional on its being different hold vacuously
                    out.append(("ev", "prime", a, at[1][1], at[3]))
                    out.append(("ev", "bits", a, at[1][1], at[3]))
            return out

        def gen(node, s, pre):
            out = []
            for sub in ir.walk(fn, node.el.e):
                if sub[0] == "=":
                    l = ir.strip_casts(sub[1])
                    r = ir.peel(fn, sub[2])
                    if isinstance(l, list) and l[0] == "v" and l[1] in flags and isinstance(r, list) and r[0] == "i":
                        # while the flag has this value the conditional facts hold vacuously
                        out.append(("ev", "prime", a, l[1], r[1]))
                        out.append(("ev", "bits", a, l[1], r[1]))
            return out

        def kill(node, s):
            w = engines.written_vars(prog, fn, node.el.e)
            if a in w:
                keep = []
                for x in s:
                    if x[0] == "ev" and x[1] in ("prime", "bits") and x[2] == a:
                        # survives only if it is conditional on a flag value that is currently excluded
                        if x[3] >= 0 and any(y[0] == "cmp" and y[1] == ("v", x[3]) and engines.entails(y[2], y[3], "==", x[4]) for y in s):
                            keep.append(x)
                        continue
                    keep.append(x)
                s = frozenset(keep)
            for f in flags:
                if f in w:
                    s = frozenset(x for x in s if not (x[0] == "ev" and x[1] in ("prime", "bits") and x[3] == f))
            return s
        F = Facts(prog, g, gen=gen, extra_kill=kill, edge_gen=edge_gen, mark_thrown=True)

        def holds(st, kind):
            if ("ev", kind, a, -1, 0) in st:
                return True
            for x in st:
                if x[0] == "ev" and x[1] == kind and x[2] == a and x[3] >= 0:
                    if any(y[0] == "cmp" and y[1] == ("v", x[3]) and engines.entails(y[2], y[3], "!=", x[4]) for y in st):
                        return True
            return False
        bad_p = bad_b = None
        nret = 0
        for p, st in engines.normal_exit_states(F, g):
            nret += 1
            if not holds(st, "prime"):
                bad_p = p
            if not holds(st, "bits"):
                bad_b = p
        if nret == 0:
            raise AnalysisBroken("GEN-POST: %s has no normal return" % fn.name)
        n += 1
        nm = fn.vars[a]["n"]
        if bad_p is not None:
            chk.fail("GEN-POST", fn, "prime", "a normal return is reachable on which `%s` was not found prime by the primality test after its last write" % nm, line=c05_line(bad_p, fn))
        else:
            chk.ok("GEN-POST", fn, "prime", "every normal return: bn_is_prime(%s) tested true after the last write" % nm, line=fn.line)
        if b in GEN_BITS:
            n += 1
            if bad_b is not None:
                chk.fail("GEN-POST", fn, "bits", "a normal return is reachable on which `bn_bits(%s) == %s` is not established after the last write: the generator can return a prime of another length than requested" % (nm, fn.vars[bits]["n"]), line=c05_line(bad_b, fn))
            else:
                chk.ok("GEN-POST", fn, "bits", "every normal return: bn_bits(%s) == %s established after the last write" % (nm, fn.vars[bits]["n"]), line=fn.line)
    return n


def rule_mxp_sib(ctx, prog, chk):
    n = 0
    for fn in prog.all:
        if not MXP.match(base(fn)) or len(fn.params) != 4:
            continue
        c, a, b, m = fn.params
        bk = ("v", b)
        g = ctx.xcfg(prog, fn)

        def edge_gen(node, label, atoms, bk=bk):
            out = []
            st = engines.CURRENT.edge_state
            for at in atoms:
                if at[0] == "cmp" and isinstance(at[1], tuple) and at[1][0] == "c" and at[1][1] == "bn_sign" and len(at[1][2]) == 1 \
                        and (at[1][2][0] == bk or ("ev", "copyof", at[1][2][0]) in st):
                    out.append(("ev", "signchk"))
                if at[0] == "cmp" and isinstance(at[1], tuple) and at[1][0] == "m" and at[1][2] == "sign" and (at[1][1] == bk or ("ev", "copyof", at[1][1]) in st):
                    out.append(("ev", "signchk"))
            return out

        def gen(node, s, pre, fn=fn, c=c, bk=bk):
            out = []
            for cl in ir.calls_in(fn, node.el.e):
                if cl[1] == "bn_copy" and len(cl[2]) == 2 and key(fn, cl[2][1]) == bk:
                    out.append(("ev", "copyof", key(fn, cl[2][0])))     # its sign is the exponent's sign
                if cl[1] == "bn_set_dig" and len(cl[2]) == 2 and key(fn, cl[2][0]) == ("v", c) and (ir.peel(fn, cl[2][1]) or [0, 0])[:2] == ["i", 1]:
                    out.append(("ev", "one"))
            return out

        def kill(node, s, fn=fn, c=c):
            w = engines.written_vars(prog, fn, node.el.e)
            if c in w and not any(cl[1] == "bn_set_dig" for cl in ir.calls_in(fn, node.el.e)):
                s = frozenset(x for x in s if x != ("ev", "one"))
            return s
        F = Facts(prog, g, gen=gen, extra_kill=kill, edge_gen=edge_gen, mark_thrown=True)
        bad_zero = bad_sign = None
        nret = 0
        for p, st in engines.normal_exit_states(F, g):
            nret += 1
            zero = any(x[0] == "cmp" and x[1] == ("c", "bn_is_zero", (bk,)) and engines.entails(x[2], x[3], "!=", 0) for x in st)
            triv = any(x[0] == "cmp" and isinstance(x[1], tuple) and x[1][0] == "c" and x[1][1] == "bn_cmp_dig" and x[1][2] == (("v", m), ("i", 1)) and engines.entails(x[2], x[3], "==", 0) for x in st)
            if triv:
                continue            # modulus 1: everything is 0
            if zero:
                if ("ev", "one") not in st:
                    bad_zero = p
            elif ("ev", "signchk") not in st:
                bad_sign = p
        if nret == 0:
            raise AnalysisBroken("MXP-SIB: %s has no normal return" % fn.name)
        n += 2
        nm = fn.vars[b]["n"]
        if bad_zero is not None:
            chk.fail("MXP-SIB", fn, "zero", "the path taken for a zero exponent returns without having set the result to 1", line=c05_line(bad_zero, fn))
        else:
            chk.ok("MXP-SIB", fn, "zero", "wherever bn_is_zero(%s) is known true the result was set to 1" % nm, line=fn.line)
        if bad_sign is not None:
            chk.fail("MXP-SIB", fn, "sign", "a path returns a power without ever consulting the sign of `%s`: negative exponents yield a^|%s| instead of the inverse power" % (nm, nm), line=c05_line(bad_sign, fn))
        else:
            chk.ok("MXP-SIB", fn, "sign", "every path returning a power branches on the sign of the exponent", line=fn.line)
    return n


PROB_TESTS = ("bn_is_prime_rabin", "bn_is_prime_solov")


def const_eval(prog, fn, k):
    """value of a key built from constants, util_bits_dig and elements of constant integer tables; None if unknown"""
    if not isinstance(k, tuple):
        return None
    if k[0] == "i":
        return int(k[1])
    if k[0] == "b" and len(k) >= 4:
        a, b = const_eval(prog, fn, k[2]), const_eval(prog, fn, k[3])
        if a is None or b is None:
            return None
        try:
            return {"+": a + b, "-": a - b, "*": a * b, "/": a // b if b else None, "<<": a << b if 0 <= b < 4096 else None, ">>": a >> b if b >= 0 else None}.get(k[1])
        except Exception:
            return None
    if k[0] == "c" and k[1] == "util_bits_dig" and len(k[2]) == 1:
        a = const_eval(prog, fn, k[2][0])
        return None if a is None or a < 0 else a.bit_length()
    if k[0] == "x":
        idx = const_eval(prog, fn, k[2])
        base = k[1]
        if idx is None or not (isinstance(base, tuple) and base[0] == "v"):
            return None
        name = fn.vars[base[1]]["n"]
        lib = prog
        while getattr(lib, "library", None) is not None:
            lib = lib.library
        for pg in (prog, lib):
            for gl in pg.globals:
                if gl["n"] == name and gl.get("vals") and 0 <= idx < len(gl["vals"]):
                    return int(gl["vals"][idx])
    return None


def last_trial_prime(prog):
    lib = prog
    while getattr(lib, "library", None) is not None:
        lib = lib.library
    fn = lib.get("bn_is_prime_basic")
    tab = [gl for gl in lib.globals if gl["n"] == "primes" and gl.get("vals") and gl["file"].endswith("bn/relic_bn_prime.c")]
    if fn is None or not tab:
        raise AnalysisBroken("PRIME-PIPE: bn_is_prime_basic or its table of trial-division primes not found")
    vals = [int(v) for v in tab[0]["vals"]]
    n = None
    for b in fn.blocks.values():
        t = getattr(b, "term", None)
        if t and t.get("c") is not None:
            c = ir.peel(fn, t["c"])
            if isinstance(c, list) and c[0] == "b" and c[1] == "<":
                r = ir.peel(fn, c[3])
                if isinstance(r, list) and r[0] == "i":
                    n = r[1]
    if n is None or not (0 < n <= len(vals)):
        raise AnalysisBroken("PRIME-PIPE: bound of the trial-division loop not recognised")
    return vals[n - 1]


def rule_prime_pipe(ctx, prog, chk):
    from . import c05
    n = 0
    for fn in prog.all:
        if base(fn) != "bn_is_prime" or not fn.params or not (fn.rfile.startswith("src/bn/") or "selftest" in fn.file):
            continue
        a = fn.params[0]
        ak = ("v", a)
        P = last_trial_prime(prog)
        vv = c05.verdict_var(fn)
        g = ctx.xcfg(prog, fn)
        F = Facts(prog, g, mark_thrown=True)

        def call_true(st, names):
            return any(x[0] == "cmp" and isinstance(x[1], tuple) and x[1][0] == "c" and x[1][1] in names and x[1][2] == (ak,) and engines.entails(x[2], x[3], "!=", 0) for x in st)

        def small(st):
            """a bound on the candidate that makes trial division conclusive"""
            for x in st:
                if x[0] not in ("cmp", "rel") or not isinstance(x[1], tuple) or x[1][0] != "c":
                    continue
                rhs = x[3] if x[0] == "cmp" else const_eval(prog, fn, x[3])
                if rhs is None:
                    continue
                if x[1][1] == "bn_bits" and x[1][2] == (ak,) and x[2] in ("<=", "<"):
                    bits = rhs if x[2] == "<=" else rhs - 1
                    if (1 << bits) <= P * P:
                        return True
                if x[1][1] == "bn_cmp_dig" and len(x[1][2]) == 2 and x[1][2][0] == ak and x[0] == "cmp":
                    c = const_eval(prog, fn, x[1][2][1])
                    if c is not None and ((engines.entails(x[2], x[3], "==", -1) and c <= P * P) or (engines.entails(x[2], x[3], "<=", 0) and c < P * P)):
                        return True
            return False
        accepts = []
        for nd in g.nodes:
            if nd.kind != "el" or nd.proto:
                continue
            e = nd.el.e
            acc = False
            if e[0] == "ret" and e[1] is not None:
                r = ir.peel(fn, e[1])
                if isinstance(r, list) and r[0] == "i" and r[1] != 0:
                    acc = True
                elif isinstance(r, list) and r[0] != "i" and not (r[0] == "v" and r[1] == vv):
                    acc = True      # returns an expression: judged like an assignment of it
            elif vv is not None and e[0] == "=" and ir.strip_casts(e[1]) == ["v", vv]:
                r = ir.peel(fn, e[2])
                if not (isinstance(r, list) and r[0] == "i" and r[1] == 0):
                    acc = True
            if acc:
                accepts.append(nd)
        if not accepts:
            raise AnalysisBroken("PRIME-PIPE: no accepting statement found in %s" % fn.name)
        for nd in accepts:
            st = F.IN.get(nd)
            if st is None or st is engines.UNIVERSE:
                continue
            n += 1
            if not call_true(st, ("bn_is_prime_basic",)):
                chk.fail("PRIME-PIPE", fn, "accept@%s" % nd.line(), "the candidate is accepted on a path where the trial division was not consulted", line=nd.line())
            elif call_true(st, PROB_TESTS) or small(st):
                chk.ok("PRIME-PIPE", fn, "accept@%s" % nd.line(), "accepted only after trial division and a probabilistic test (or below %d^2)" % P, line=nd.line())
            else:
                chk.fail("PRIME-PIPE", fn, "accept@%s" % nd.line(), "the candidate is accepted on a path that skips the probabilistic test without a bound that makes trial division conclusive (it must be at most %d^2 = %d, the square of the last trial prime): composites with two larger prime factors are accepted" % (P, P * P), line=nd.line())
    return n


# function -> (parameter position, atom that must hold at every normal return, what is excluded)
ARG_GUARDS = {
    "bn_srt": (1, [("bn_sign", "!=", 1)], "negative radicand"),
    "bn_smb_leg": (1, [("bn_sign", "!=", 1)], "negative modulus"),
    "bn_smb_jac": (1, [("bn_is_even", "==", 0), ("bn_sign", "!=", 1)], "even or negative modulus"),
}


def rule_arg_guard(ctx, prog, chk):
    n = 0
    for fn in prog.all:
        b = base(fn)
        if b not in ARG_GUARDS or not (fn.rfile.startswith("src/bn/") or "selftest" in fn.file):
            continue
        pos, atoms, what = ARG_GUARDS[b]
        if pos >= len(fn.params):
            raise AnalysisBroken("ARG-GUARD: %s lost its parameter %d" % (fn.name, pos))
        pk = ("v", fn.params[pos])
        g = ctx.xcfg(prog, fn)
        F = Facts(prog, g, mark_thrown=True)
        nm = fn.vars[fn.params[pos]]["n"]
        for callee, op, k in atoms:
            bad = None
            nret = 0
            for p, st in engines.normal_exit_states(F, g):
                nret += 1
                ok = any(x[0] == "cmp" and isinstance(x[1], tuple) and x[1][0] == "c" and x[1][1] == callee and x[1][2] and x[1][2][0] == pk and engines.entails(x[2], x[3], op, k) for x in st)
                if not ok:
                    bad = p
            if nret == 0:
                raise AnalysisBroken("ARG-GUARD: %s has no normal return" % fn.name)
            n += 1
            if bad is not None:
                chk.fail("ARG-GUARD", fn, "%s:%s" % (nm, callee), "a normal return is reachable for the %s: `%s(%s) %s %d` was not established, so a value is returned where the function is undefined" % (what, callee, nm, op, k), line=c05_line(bad, fn))
            else:
                chk.ok("ARG-GUARD", fn, "%s:%s" % (nm, callee), "every normal return knows %s(%s) %s %d; the %s leaves by the error" % (callee, nm, op, k, what), line=fn.line)
    return n


SIMFAM = re.compile(r"^bn_mxp_sim(_\w+)?$")


def analyse(ctx, prog, chk):
    chk.used_program(prog)
    from .. import expsib
    simfam = [fn for fn in prog.all if SIMFAM.match(base(fn)) and (fn.rfile.startswith("src/bn/") or "selftest" in fn.file)]
    # handing an exponent to any bn_mxp sibling delegates its sign (the 4-parameter forms are held to MXP-SIB)
    nsim = expsib.rule_sm_sign(ctx, prog, chk, simfam, MXP, rule_name="MXP-SIM-SIGN", only_named={"b", "e"})
    return {"simsign": nsim, "gen": rule_gen_post(ctx, prog, chk), "mxp": rule_mxp_sib(ctx, prog, chk), "arg": rule_arg_guard(ctx, prog, chk),
            "pipe": rule_prime_pipe(ctx, prog, chk),
            "bits": __import__("relic_sa.expsib", fromlist=["x"]).rule_loop_bits(ctx, prog, chk, [fn for fn in prog.all if re.match(r"^bn_mxp(_\w+)?$", base(fn)) and (fn.rfile.startswith("src/bn/") or "selftest" in fn.file)])}


def selfcheck(ctx, prog, chk):
    analyse(ctx, prog, chk)


def run(ctx, chk):
    c = analyse(ctx, ctx.program("BASE"), chk)
    chk.floor("GEN-POST", "generator obligations", c["gen"], 5)
    chk.floor("MXP-SIM-SIGN", "exponents of the simultaneous exponentiations", c["simsign"], 4)
    chk.floor("MXP-SIB", "exponentiation siblings (2 obligations each)", c["mxp"], 6)
    chk.floor("ARG-GUARD", "guard obligations", c["arg"], 4)
    chk.floor("LOOP-BITS", "bit scans of exponents", c["bits"], 2)
    chk.floor("PRIME-PIPE", "accepting statements of bn_is_prime", c["pipe"], 1)
