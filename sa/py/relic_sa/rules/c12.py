"""C12 — shape of the subgroup-membership predicates g1_is_valid, g2_is_valid, gt_is_valid.

  VALID-ID     the identity is rejected: every accepting return is dominated by X_is_infty(a) == 0 / gt_is_unity(a) == 0
  VALID-CURVE  a truthy verdict implies the on-curve test (G1, G2) resp. the cyclotomic-subgroup test (GT) of the element
  VALID-REL    a truthy verdict implies an equality comparison (the order relation of that family's arm), except where the
               cofactor was tested to be 1 (G1) or the curve is in the reviewed table of GT-strong identifiers
  EXP-RED      the integer handed to the Frobenius decomposition of an exponent was reduced modulo the group order (bn_mod)
  SM-SIGN      every exponentiation/multiplication front end of the three groups honours the sign of its exponent on every path
               (sign test, reduction modulo the order, delegation)
  EXP-SIGN     a fast path that takes the low digit of the exponent as the whole exponent consults its sign
  VALID-SHORTCUT  a branch keyed on the curve identifier (ctx->ep_id == K) inside a predicate is only live for the curve it
               was reviewed for: the curve that K names in the identifier enum of relic_ep.h is either that curve or
               belongs to a family that never reaches the arm
  VALID-MUL    G1, G2: the element under test is only multiplied by routines that neither assume the endomorphism eigenvalue
               nor reduce the scalar modulo the group order (the *_mul_basic / *_mul_dig family) - a GLV/GLS routine computes
               k0*P + k1*psi(P), which equals [k]P only for members.  GT: the group order itself never goes as exponent
               through an exponentiation that reduces modulo the order (the result would be 1 for every input); the
               generic arm's a^(r-1) == a^-1 idiom is accepted.
"""
import re

from .. import ir, engines
from ..engines import Facts, key
from ..facts import AnalysisBroken
from . import c05

EXPLANATION = (
    "Static decision of the shape of the three validity predicates of the pairing groups and of the exponent handling of "
    "the G1/G2/GT exponentiation front ends, under each configuration header (256-bit BN/SM9 and 381-bit BLS12 quick; the "
    "k = 8, 16, 18, 24, 48 family configurations thorough): forward must-dataflow over the exploded CFG with a 'verdict "
    "implies' fact set (conjuncts of the assigned expression, later narrowings with &=) shows that on every path a truthy "
    "verdict implies the identity test, the on-curve resp. cyclotomic test (or the exact a^(r-1) == a^-1 check) and an "
    "order-relation comparison (or the tested cofactor-one shortcut) across all arms of the family switch incl. the default "
    "arm; that the multiplications applied to the element under test do not presuppose membership; that identifier-keyed "
    "shortcuts are live only for the curve they were derived for (identifier values taken from the enum in relic_ep.h); "
    "that exponents reach the Frobenius decomposition reduced modulo the order, and that digit fast paths honour the sign. "
    "Does not decide that a family's shortcut relation is equivalent to multiplication by r, nor the value of any "
    "exponentiation. Nothing of RELIC is executed.")

PREDICATES = {"g1_is_valid": "g1", "g2_is_valid": "g2", "gt_is_valid": "gt"}
IDENT = re.compile(r"^(ep\d*|g1|g2)_is_infty$|^gt_is_unity$")
UNITY = re.compile(r"^fp\d+_cmp_dig$")
ONCURVE = re.compile(r"^(ep\d*)_on_curve$")
CYC = re.compile(r"^fp\d+_test_cyc$")
CMP = re.compile(r"^(ep\d*|g1|g2|gt|fp\d*)_cmp$")
BASIC_MUL = re.compile(r"^(ep\d*)_mul_(basic|dig|big)$")
ANY_MUL = re.compile(r"^(ep\d*|g1|g2)_mul(_\w+)?$")
ANY_EXP = re.compile(r"^(gt|fp\d+)_exp(_\w+)?$")
ORD_GETTERS = re.compile(r"^(pc|gt|g1|g2|ep\d*)_(curve_)?get_ord$")
# curves for which the identifier-keyed shortcuts of g2_is_valid / gt_is_valid were reviewed (the comment in the source
# derives them from p mod n = r for the 383-bit BLS12 curve); any other curve of a family whose arm holds such a shortcut
# must not reach it
SHORTCUT_REVIEWED = {"B12_P383"}
SHORTCUT_FAMILIES = {"B12", "B24", "B48"}


def desc_call(fn, c):
    args = []
    for a in c[2]:
        a = ir.peel(fn, a)
        if isinstance(a, list) and a[0] == "v" and fn.vars[a[1]]["k"] == "p":
            args.append(fn.vars[a[1]]["n"])
        elif isinstance(a, list) and a[0] == "i":
            args.append(str(a[1]))
        else:
            args.append("*")
    return "%s(%s)" % (c[1], ",".join(args))


def conjuncts(fn, e, out=None):
    """(call, truthy?) conjuncts of a verdict expression: A && B, A & B, (cmp(..) == RLC_EQ), !f(..)"""
    if out is None:
        out = []
    e = ir.peel(fn, e)
    if not isinstance(e, list):
        return out
    if e[0] == "b" and e[1] in ("&&", "&"):
        conjuncts(fn, e[2], out)
        conjuncts(fn, e[3], out)
    elif e[0] == "b" and e[1] in ("==", "!="):
        l, r = ir.peel(fn, e[2]), ir.peel(fn, e[3])
        if isinstance(l, list) and l[0] == "c" and isinstance(r, list) and r[0] == "i":
            out.append((l, e[1], r[1]))
        elif isinstance(r, list) and r[0] == "c" and isinstance(l, list) and l[0] == "i":
            out.append((r, e[1], l[1]))       # the constant written first: RLC_EQ == cmp(..)
    elif e[0] == "c":
        out.append((e, "!=", 0))
    elif e[0] == "u" and e[1] == "!":
        s = ir.peel(fn, e[2])
        if isinstance(s, list) and s[0] == "c":
            out.append((s, "==", 0))
    elif e[0] == "?" and len(e) == 4:
        pass
    return out


def analyse_predicate(ctx, prog, chk, fn, kind):
    from .c03 import c05_line
    vv = c05.verdict_var(fn)
    if vv is None:
        # a pure delegation (g2_is_valid on k=1/2 curves) or an unrecognised shape
        dels = [c[1] for el in fn.all_elements() if el.e[0] == "ret" for c in ir.calls_in(fn, el.e) if c[1] in PREDICATES]
        if dels:
            chk.ok("VALID-CURVE", fn, "delegation", "delegates to %s" % dels[0], line=fn.line)
            return 1
        raise AnalysisBroken("VALID-SHAPE: %s does not return a verdict variable" % fn.name)
    g = ctx.xcfg(prog, fn)
    a = fn.params[0]
    an = fn.vars[a]["n"]
    ak = ("v", a)

    def is_elem(fn_, e):
        k = key(fn_, e)
        while isinstance(k, tuple) and k[0] in ("u",):
            k = k[2]
        return k == ak

    def strip_key(k):
        while isinstance(k, tuple) and k and k[0] in ("u",):
            k = k[2]
        return k

    def tokens(e, pre):
        """obligation tokens a truthy value of e implies; tests already decided on the path to the assignment (the facts
        in force: `if (on_curve(a)) r = (cmp == EQ); else r = 0;`) count like conjuncts of the assigned expression"""
        out = set()
        items = []
        for c, op, k in conjuncts(fn, e):
            items.append((c[1] or "", [key(fn, x) for x in c[2]], [ir.peel(fn, x) for x in c[2]], op, k))
        for x in pre:
            if x[0] == "cmp" and isinstance(x[1], tuple) and x[1] and x[1][0] == "c" and isinstance(x[1][1], str):
                items.append((x[1][1], list(x[1][2]), [None] * len(x[1][2]), x[2], x[3]))
        for nm, ak_, ap_, op, k in items:
            first_is_elem = bool(ak_) and strip_key(ak_[0]) == ak
            second_is_one = len(ak_) == 2 and (ak_[1] == ("i", 1) or (isinstance(ap_[1], list) and ap_[1][:2] == ["i", 1]))
            if (ONCURVE.match(nm) if kind != "gt" else CYC.match(nm)) and ak_ and first_is_elem and engines.entails(op, k, "!=", 0):
                out.add("CURVE")
            elif CMP.match(nm) and engines.entails(op, k, "==", 0):
                out.add("REL")
                if kind == "gt" and any(("ev", "exact", x) in pre for x in ak_):
                    out.add("CURVE")    # a^(r-1) == a^-1 decides membership without the cyclotomic test
            elif IDENT.match(nm) and ak_ and not first_is_elem and engines.entails(op, k, "!=", 0):
                out.add("REL")          # the relation is `combination == identity`
            elif IDENT.match(nm) and ak_ and first_is_elem and engines.entails(op, k, "==", 0):
                out.add("ID")
            elif UNITY.match(nm) and second_is_one and not first_is_elem and engines.entails(op, k, "==", 0):
                out.add("REL")          # `combination == unity`
            elif UNITY.match(nm) and second_is_one and first_is_elem and engines.entails(op, k, "!=", 0):
                out.add("ID")
        # path conditions that replace the relation
        for x in pre:
            if x[0] != "cmp" or not isinstance(x[1], tuple):
                continue
            if kind == "g1" and x[1][0] == "c" and x[1][1] == "bn_cmp_dig" and len(x[1][2]) == 2 and x[1][2][1] == ("i", 1) \
                    and ("ev", "cofv", x[1][2][0]) in pre and engines.entails(x[2], x[3], "==", 0):
                out.add("REL")
            if kind == "gt" and x[1][0] == "m" and x[1][2] == "ep_id" and x[2] == "==":
                out.add("REL")          # which curve that is, is judged by VALID-SHORTCUT
        return out

    def gen(node, s, pre):
        out = []
        e = node.el.e
        for c in ir.calls_in(fn, e):
            if not c[1] or not c[2]:
                continue
            k0 = key(fn, c[2][0])
            if ORD_GETTERS.match(c[1]):
                out += [("ev", "ord", k0), ("ev", "ordm", k0)]
            elif re.match(r"^(ep\d*)_curve_get_cof$", c[1]):
                out.append(("ev", "cofv", k0))
            elif c[1] == "bn_copy" and len(c[2]) >= 2 and ("ev", "ord", key(fn, c[2][1])) in pre:
                out += [("ev", "ord", k0), ("ev", "ordm", k0)]
            elif c[1] in ("bn_sub_dig", "bn_add_dig", "bn_copy", "bn_neg", "bn_abs") and len(c[2]) >= 2 and ("ev", "ordm", key(fn, c[2][1])) in pre:
                out.append(("ev", "ordm", k0))      # r - 1 and the like: derived from the order, no longer a multiple of it
            elif kind == "gt" and ANY_EXP.match(c[1]) and len(c[2]) >= 3 and is_elem(fn, c[2][1]) and ("ev", "ordm", key(fn, c[2][2])) in pre:
                out.append(("ev", "exact", k0))      # a^(r-1): the explicit order check of the generic arm
            elif re.search(r"_inv(_cyc)?$|_neg$", c[1]) and len(c[2]) >= 2 and ("ev", "exact", key(fn, c[2][1])) in pre:
                out.append(("ev", "exact", k0))
        for sub in ir.walk(fn, e):
            if sub[0] == "d" and sub[1] == vv and sub[2] is not None:
                rhs, old = sub[2], False
            elif sub[0] == "=" and ir.strip_casts(sub[1]) == ["v", vv]:
                rhs = sub[2]
                old = any(x == ["v", vv] for x in ir.walk(fn, rhs, follow_refs=True))
            elif sub[0] == "o=" and sub[1] in ("&=", "&") and ir.strip_casts(sub[2]) == ["v", vv]:
                rhs, old = sub[3], True
            else:
                continue
            r = ir.peel(fn, rhs)
            if not old and isinstance(r, list) and r[0] == "i" and r[1] == 0:
                out.append(("ev", "vg0"))
                continue
            if old or engines.holds_cmp(pre, ("v", vv), "!=", 0):
                # the old value is kept (&=), or the assignment stands where the old verdict was found truthy
                out += [x for x in pre if x[0] == "ev" and x[1] == "vg"] + ([x for x in pre if x == ("ev", "vg0")] if old else [])
            for t in tokens(rhs, pre):
                out.append(("ev", "vg", t))
        return out

    def kill(node, s):
        for sub in ir.walk(fn, node.el.e):
            if (sub[0] == "=" and ir.strip_casts(sub[1]) == ["v", vv]) or (sub[0] == "d" and sub[1] == vv and sub[2] is not None) \
                    or (sub[0] == "o=" and ir.strip_casts(sub[2]) == ["v", vv]):
                # a fresh verdict: earlier implications no longer apply (gen re-adds them when the old value is kept)
                return frozenset(x for x in s if not (x[0] == "ev" and x[1] in ("vg", "vg0")))
        return s
    def edge_gen(node, label, atoms):
        for at in atoms:
            if at[0] == "cmp" and at[1] == ("v", vv) and engines.entails(at[2], at[3], "==", 0):
                return [("ev", "vg0")]
        return []
    F = Facts(prog, g, gen=gen, extra_kill=kill, edge_gen=edge_gen, mark_thrown=True)
    rets = []
    for p, l in g.exit.pred:
        s = F.IN.get(p)
        if s is None:
            continue
        s2 = F._transfer(p, s)
        if s2 is engines.UNIVERSE:
            continue
        if p.kind == "el" and p.el.e[0] == "ret":
            r = ir.peel(fn, p.el.e[1]) if p.el.e[1] is not None else None
            if isinstance(r, list) and r[0] == "i" and r[1] == 0:
                continue
        if ("ev", "vg0") in s2:
            continue        # the verdict is the literal 0 on every path reaching this return
        rets.append((p, s2))
    if not rets:
        raise AnalysisBroken("VALID-SHAPE: %s has no accepting return any more" % fn.name)

    def ident_excluded(s):
        if ("ev", "vg", "ID") in s:
            return True
        for x in s:
            if x[0] == "cmp" and isinstance(x[1], tuple) and x[1][0] == "c" and isinstance(x[1][1], str) and x[1][2] and x[1][2][0] == ak:
                if IDENT.match(x[1][1]) and engines.entails(x[2], x[3], "==", 0):
                    return True
                if UNITY.match(x[1][1]) and len(x[1][2]) == 2 and x[1][2][1] == ("i", 1) and engines.entails(x[2], x[3], "!=", 0):
                    return True     # gt_is_unity(a) is fpN_cmp_dig(a, 1) == RLC_EQ
        return False

    n = 3
    bad = [p for p, s in rets if not ident_excluded(s)]
    if bad:
        chk.fail("VALID-ID", fn, an, "an accepting return is reachable without the identity having been excluded", line=c05_line(bad[0], fn))
    else:
        chk.ok("VALID-ID", fn, an, "every accepting return is dominated by the identity test", line=fn.line)
    what = "cyclotomic-subgroup" if kind == "gt" else "on-curve"
    bad = [p for p, s in rets if ("ev", "vg", "CURVE") not in s]
    if bad:
        chk.fail("VALID-CURVE", fn, an, "a truthy verdict does not imply the %s test of `%s` on some path (an arm assigns the verdict without it)" % (what, an), line=c05_line(bad[0], fn))
    else:
        chk.ok("VALID-CURVE", fn, an, "truthy verdict implies the %s test on every path (all arms of the family switch)" % what, line=fn.line)
    bad = [p for p, s in rets if ("ev", "vg", "REL") not in s]
    if bad:
        chk.fail("VALID-REL", fn, an, "a truthy verdict is possible on a path without any order-relation comparison, where neither the cofactor was tested to be 1 nor the curve is in the reviewed GT-strong table", line=c05_line(bad[0], fn))
    else:
        chk.ok("VALID-REL", fn, an, "every accepting path carries an order-relation comparison or a reviewed shortcut", line=fn.line)
    # VALID-SHORTCUT
    for nd in g.nodes:
        if nd.kind != "br":
            continue
        t = nd.info.get("term")
        if not t or t.get("c") is None:
            continue
        for at in engines.cond_atoms(fn, t["c"], True):
            if at[0] == "cmp" and isinstance(at[1], tuple) and at[1][0] == "m" and at[1][2] == "ep_id" and at[2] == "==":
                n += 1
                names = [nm for nm, v in curve_ids(prog).items() if v == at[3]]
                live = [nm for nm in names if nm.split("_")[0] in SHORTCUT_FAMILIES and nm not in SHORTCUT_REVIEWED]
                if live:
                    chk.fail("VALID-SHORTCUT", fn, "ep_id==%s" % live[0], "the identifier-keyed shortcut (value %s) is taken for curve %s, for which it was never derived: membership degenerates to the weaker test of that branch" % (at[3], live[0]), line=t.get("l") or fn.line)
                else:
                    chk.ok("VALID-SHORTCUT", fn, "ep_id==%s" % (names[0] if names else at[3]), "shortcut keyed on value %s: %s" % (
                        at[3], "reviewed curve" if names and names[0] in SHORTCUT_REVIEWED else "names %s, which never reaches this family arm (dead branch)" % (names[0] if names else "no curve")), line=t.get("l") or fn.line)
    # VALID-MUL
    for nd in g.nodes:
        if nd.kind != "el" or nd.proto:
            continue
        s = F.IN.get(nd)
        if s is None or s is engines.UNIVERSE:
            continue
        for c in ir.calls_in(fn, nd.el.e):
            if not c[1]:
                continue
            if kind in ("g1", "g2") and ANY_MUL.match(c[1]) and len(c[2]) >= 3 and not re.search(r"_mul_(cof|gen|fix|sim)", c[1]):
                n += 1
                if BASIC_MUL.match(c[1]):
                    chk.ok("VALID-MUL", fn, c[1], "plain multiplication", line=nd.line())
                else:
                    chk.fail("VALID-MUL", fn, c[1], "the membership test multiplies with `%s`, which presupposes membership (endomorphism-based recoding and/or reduction of the scalar modulo the order): the relation it feeds becomes a tautology" % c[1], line=nd.line())
            elif kind == "gt" and ANY_EXP.match(c[1]) and len(c[2]) >= 3:
                ek = key(fn, c[2][2])
                if ("ev", "ord", ek) in s:
                    n += 1
                    if re.search(r"_exp_(cyc|dig|basic)", c[1]) or re.match(r"^fp\d+_exp$", c[1]):
                        chk.ok("VALID-MUL", fn, c[1], "the order itself as exponent through a non-reducing exponentiation", line=nd.line())
                    else:
                        chk.fail("VALID-MUL", fn, c[1], "the group order itself goes as exponent through `%s`, which reduces exponents modulo the order first: the result is the unity for every input and the order check is vacuous" % c[1], line=nd.line())
                elif ("ev", "ordm", ek) in s:
                    n += 1
                    chk.ok("VALID-MUL", fn, c[1], "exponent derived from the order but not a multiple of it (r - 1, compared with the inverse)", line=nd.line())
    return n


def curve_ids(prog):
    """enumerators of the curve-identifier enum of relic_ep.h (the one ep_param_set switches over)"""
    p = prog
    while not p.enums and getattr(p, "library", None) is not None:
        p = p.library
    best = None
    for (f, line), names in p.enums.items():
        if f.endswith("include/relic_ep.h") and sum(1 for x in names if re.match(r"^[A-Z0-9]+_P\d+$", x)) >= 20:
            best = names
    if best is None:
        raise AnalysisBroken("VALID-SHORTCUT: the curve-identifier enum of include/relic_ep.h was not found")
    return best


# ---------------------------------------------------------------------- exponentiation: EXP-RED, EXP-SIGN
def exp_family(prog):
    return [fn for fn in prog.all if re.match(r"^(g1|g2)_mul(_\w+)?$|^gt_exp(_\w+)?$", fn.name.split("__")[-1])
            and (fn.rfile.endswith("pc/relic_pc_exp.c") or "selftest" in fn.file)]


def rule_exp(ctx, prog, chk):
    """EXP-RED: the integer handed to the Frobenius decomposition (bn_rec_frb) is bounded by the bit length of the
    group order on every path (bn_mod by a value from an order getter) - the decomposition has only as many limbs
    as the order needs and silently drops the rest.
    EXP-SIGN: a path that uses the low digit of the exponent (b->dp[0]) as the whole exponent also branches on the
    sign of that exponent before returning."""
    from . import c08
    nred = nsign = 0
    for fn in exp_family(prog):
        g = ctx.xcfg(prog, fn)
        bnparams = [v for v in fn.params if fn.vars[v].get("ot", "").replace("const ", "") == "bn_t"]
        frb = any(c[1] == "bn_rec_frb" for el in fn.all_elements() for c in ir.calls_in(fn, el.e))
        if frb:
            F = Facts(prog, g, gen=c08.make_bits_gen(prog, fn, {}), mark_thrown=True)
            for nd in g.nodes:
                if nd.kind != "el":
                    continue
                st = F.IN.get(nd)
                if st is None or st is engines.UNIVERSE:
                    continue
                for c in ir.calls_in(fn, nd.el.e):
                    if c[1] != "bn_rec_frb" or len(c[2]) < 3:
                        continue
                    nred += 1
                    sk = key(fn, c[2][2])
                    if any(a[0] == "cmp" and a[1] == c08.bits_key(sk) and a[2] in ("<=", "<", "==") for a in st):
                        chk.ok("EXP-RED", fn, "bn_rec_frb", "exponent `%s` reduced modulo the group order on every path" % fn.fmt(c[2][2]), line=nd.line())
                    else:
                        chk.fail("EXP-RED", fn, "bn_rec_frb", "exponent `%s` reaches the Frobenius decomposition without having been reduced modulo the group order by bn_mod on every path: limbs beyond the dimension are dropped and the power is wrong for long exponents" % fn.fmt(c[2][2]), line=nd.line())
        # EXP-SIGN
        for b in bnparams:
            bk = ("v", b)

            def uses_low_digit(e):
                for sub in ir.walk(fn, e):
                    if sub[0] == "x":
                        k = key(fn, sub)
                        if k == ("x", ("m", bk, "dp"), ("i", 0)):
                            return True
                return False
            sites = [el for el in fn.all_elements() if any(any(uses_low_digit(a) for a in c[2]) for c in ir.calls_in(fn, el.e))]
            if not sites:
                continue
            ids = set(el.id for el in sites)

            def gen(node, s, pre, ids=ids, bk=bk):
                out = []
                if node.el.id in ids:
                    out.append(("ev", "lowdig", bk))
                return out

            def edge_gen(node, label, atoms, bk=bk):
                out = []
                for a in atoms:
                    if a[0] == "cmp" and isinstance(a[1], tuple) and ((a[1][0] == "c" and a[1][1] == "bn_sign" and a[1][2] and a[1][2][0] == bk)
                                                                      or (a[1][0] == "m" and a[1][1] == bk and a[1][2] == "sign")):
                        out.append(("ev", "signchk", bk))
                return out
            F = Facts(prog, g, gen=gen, edge_gen=edge_gen, mark_thrown=True)
            bad = None
            for p, l in g.exit.pred:
                st = F.IN.get(p)
                if st is None:
                    continue
                st = F._transfer(p, st)
                if st is engines.UNIVERSE:
                    continue
                if ("ev", "lowdig", bk) in st and ("ev", "signchk", bk) not in st:
                    bad = p
            nsign += 1
            nm = fn.vars[b]["n"]
            if bad is not None:
                from .c03 import c05_line
                chk.fail("EXP-SIGN", fn, nm, "a path uses the low digit of `%s` as the whole exponent and returns without ever consulting its sign: negative exponents yield the power of |%s|" % (nm, nm), line=sites[0].line)
            else:
                chk.ok("EXP-SIGN", fn, nm, "digit fast path consults the sign of the exponent", line=sites[0].line)
    return nred, nsign


def analyse(ctx, prog, chk):
    chk.used_program(prog)
    n = 0
    found = 0
    for fn in prog.all:
        base = fn.name.split("__")[-1]
        if base in PREDICATES:
            found += 1
            n += analyse_predicate(ctx, prog, chk, fn, PREDICATES[base])
    nred, nsign = rule_exp(ctx, prog, chk)
    from .. import expsib
    famre = re.compile(r"^(g1_mul|g2_mul|gt_exp)(_\w+)?$")
    fam = [fn for fn in prog.all if famre.match(fn.name.split("__")[-1]) and (fn.rfile.endswith("pc/relic_pc_exp.c") or "selftest" in fn.file)]
    nsm = expsib.rule_sm_sign(ctx, prog, chk, fam, famre)
    return {"predicates": found, "obligations": n, "red": nred, "sign": nsign, "smsign": nsm}


def selfcheck(ctx, prog, chk):
    analyse(ctx, prog, chk)


def run(ctx, chk):
    c = analyse(ctx, ctx.program("BASE"), chk)
    chk.floor("VALID-CURVE", "validity predicates (BASE)", c["predicates"], 3)
    chk.floor("EXP-RED", "Frobenius decompositions of exponents", c["red"], 4)
    chk.floor("EXP-SIGN", "digit fast paths", c["sign"], 2)
    chk.floor("SM-SIGN", "exponent parameters of the G1/G2/GT front ends", c["smsign"], 10)
    analyse(ctx, ctx.program("P381"), chk)
    if chk.tier == "thorough":
        from .. import facts
        for bits in (315, 330, 354, 455, 508, 569, 575, 638):
            name = "P%d" % bits
            facts.CONFIGS.setdefault(name, ["-DFP_PRIME=%d" % bits] + (["-DBN_PRECI=%d" % (2 * bits + 64)] if bits > 512 else []))
            try:
                analyse(ctx, ctx.program(name), chk)
            except AnalysisBroken as e:
                chk.note("thorough: configuration %s: %s" % (name, str(e)[:160]))
            ctx._prog.pop(name, None)
