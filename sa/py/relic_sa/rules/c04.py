"""C04 — the identity clause of the pairing ("a pairing with the identity element in either slot is the identity of the
target group", also inside multi-pairings).

  MIL-GUARD    every Miller-loop call of a single pairing is dominated by the tests that neither operand (nor the point it
               was normalised from) is the identity
  MIL-COMPACT  in the multi-pairing forms the loop receives the compacted local arrays and the compaction counter: the counter
               is incremented, and the compacted arrays are written, only where both points of the pair were tested not to
               be the identity; the caller's arrays and length never reach the loop
  MIL-NORM     the points handed to a Miller loop are normalised copies: the local operand arrays are written by the
               normalisers only (the loops read x and y as affine coordinates), never by a plain copy of the caller's point
  MAP-DISPATCH under each selectable pairing (optimal ate, Tate, Weil) the single pairing and the multi-pairing that the
               pc_map / pc_map_sim macros expand to are the same variant
  ID-ONE       on every normal return the result is either the product of a Miller loop or was last set to one (set_dig(.,1)
               or a product of such values)
"""
import re

from .. import ir, engines
from ..engines import Facts, key
from ..facts import AnalysisBroken
from .c03 import c05_line

EXPLANATION = (
    "Static decision of the identity clause of C04 over every pairing entry point of every embedding degree compiled under "
    "the analysed configuration headers (k = 12 at 256 and 381 bits, plus the k = 1, 2, 8, 16, 18, 24, 48, 54 files, which "
    "compile in every configuration but are run by none of the suite's): forward must-dataflow with branch atoms over the "
    "exploded CFG shows that a pair with an identity component never reaches a Miller loop, that multi-pairings hand the "
    "loop the compacted arrays and the compaction counter, and that the value returned without a loop is one. Bilinearity, "
    "non-degeneracy and the order of pairing values are algebraic and are not decided. Nothing of RELIC is executed.")

MAP = re.compile(r"^pp_map_(sim_)?(tatep|weilp|oatep)_k\d+$")
MIL = re.compile(r"^pp_mil_(lit_)?(k\d+|sps_k\d+)\w*$|^pp_mil_\w+$")
INFTY = re.compile(r"^ep\d*_is_infty$")
NORM = re.compile(r"^ep\d*_(norm|copy)$")
NORM_ONLY = re.compile(r"^ep\d*_norm(_sim)?$")
KEEPS_NORM = re.compile(r"^ep\d*_(neg|null|new|free|frb|psi)$|^fp\d*_\w+$")
POINT_T = re.compile(r"^(const )?ep\d*_t\b")
FPX_T = re.compile(r"^(const )?fp\d*_t\b")
SET_DIG = re.compile(r"^fp\d*_set_dig$")
FMUL = re.compile(r"^fp\d*_mul(_\w+)?$")
FCOPY = re.compile(r"^fp\d*_copy$")
FUNARY = re.compile(r"^fp\d*_(sqr|inv|inv_cyc|inv_uni|frb|conv_cyc|back_cyc|sqr_cyc|sqr_pck)(_\w+)?$|^pp_exp_k\d+$")


def base(fn):
    return fn.name.split("__")[-1]


def maps(prog):
    return [fn for fn in prog.all if MAP.match(base(fn)) and (fn.rfile.startswith("src/pp/") or "selftest" in fn.file)]


def is_point_var(fn, v):
    return bool(POINT_T.match(fn.vars[v].get("t", "")) or POINT_T.match(fn.vars[v].get("ot", "") or ""))


def analyse_map(ctx, prog, chk, fn):
    sim = "_sim_" in base(fn)
    g = ctx.xcfg(prog, fn)
    r = fn.params[0]
    fvars = [i for i, v in enumerate(fn.vars) if FPX_T.match(v.get("t", "")) or FPX_T.match(v.get("ot", "") or "")]
    mil_sites = [el for el in fn.all_elements() if any(c[1] and MIL.match(c[1]) for c in ir.calls_in(fn, el.e))]
    if not mil_sites:
        # delegating entry point (e.g. a k=1 form that calls another map): nothing to decide here
        return 0

    # flow-insensitive: which local point (array) is a normalised copy of which other
    origin = {}
    for el in fn.all_elements():
        for c in ir.calls_in(fn, el.e):
            if c[1] and NORM.match(c[1]) and len(c[2]) == 2:
                d, sv = ir.base_var(fn, c[2][0]), ir.base_var(fn, c[2][1])
                if d is not None and sv is not None and d != sv:
                    origin.setdefault(d, set()).add(sv)

    def gen(node, s, pre):
        out = []
        e = node.el.e
        for c in ir.calls_in(fn, e):
            if not c[1] or not c[2]:
                continue
            if MIL.match(c[1]):
                out.append(("ev", "mil"))
                for v in fvars:
                    out.append(("ev", "unit", v))        # after a loop ran no claim is made about the value
            elif SET_DIG.match(c[1]) and len(c[2]) == 2 and (ir.peel(fn, c[2][1]) or [0, 0])[:2] == ["i", 1]:
                v = ir.base_var(fn, c[2][0])
                if v is not None:
                    out.append(("ev", "unit", v))
            elif FMUL.match(c[1]) and len(c[2]) == 3:
                d, a, b = (ir.base_var(fn, x) for x in c[2])
                if d is not None and ("ev", "unit", a) in pre and ("ev", "unit", b) in pre:
                    out.append(("ev", "unit", d))
            elif (FCOPY.match(c[1]) or FUNARY.match(c[1])) and len(c[2]) >= 2:
                d, a = ir.base_var(fn, c[2][0]), ir.base_var(fn, c[2][1])
                if d is not None and ("ev", "unit", a) in pre:
                    out.append(("ev", "unit", d))       # copies, squares, inverses, Frobenius and powers of one are one
        return out

    def outer_field(e):
        """member selected last on an lvalue / pointer expression (a[0]->x -> 'x'), None if none"""
        e = ir.strip_casts(fn.resolve(e)) if hasattr(fn, "resolve") else ir.strip_casts(e)
        while isinstance(e, list) and e and e[0] in ("k", "r"):
            e = ir.peel(fn, e)
        if isinstance(e, list) and e and e[0] == "m":
            return e[2]
        if isinstance(e, list) and e and e[0] == "x":
            return outer_field(e[1])
        return None

    def written_exprs(e):
        for sub in ir.walk(fn, e):
            if sub[0] == "=":
                yield sub[1]
            elif sub[0] == "o=":
                yield sub[2]
            elif sub[0] == "c" and sub[1]:
                for i, a in enumerate(sub[2]):
                    if ir.arg_is_pointer(sub, i) and engines.callee_writes_arg(prog, fn, sub[1], i):
                        yield a

    def edge_gen(node, label, atoms):
        out = []
        for x in atoms:
            if x[0] == "cmp" and isinstance(x[1], tuple) and x[1][0] == "c" and isinstance(x[1][1], str) and INFTY.match(x[1][1]) and engines.entails(x[2], x[3], "==", 0):
                vs = set()
                engines.key_vars(x[1][2][0], vs)
                for v in vs:
                    if is_point_var(fn, v):
                        out.append(("ev", "notinf", v))
        return out

    def kill(node, s):
        # a point stays finite when only its affine coordinates are rewritten (twisting by a Frobenius constant)
        dead = set()
        for we in written_exprs(node.el.e):
            v = ir.base_var(fn, we)
            if v is not None and ("ev", "notinf", v) in s and outer_field(we) not in ("x", "y"):
                dead.add(v)
        if dead:
            s = frozenset(x for x in s if not (x[0] == "ev" and x[1] == "notinf" and x[2] in dead))
        if ("ev", "mil") in s:
            return s        # a loop ran on every path reaching here: no claim about values any more
        w = engines.written_vars(prog, fn, node.el.e)
        if w:
            s = frozenset(x for x in s if not (x[0] == "ev" and x[1] == "unit" and x[2] in w))
        return s
    F = Facts(prog, g, gen=gen, extra_kill=kill, edge_gen=edge_gen, mark_thrown=True)

    def guarded_bases(st):
        """base variables of expressions known not to be the identity"""
        out = set(x[2] for x in st if x[0] == "ev" and x[1] == "notinf")
        for x in st:
            if x[0] == "cmp" and isinstance(x[1], tuple) and x[1][0] == "c" and isinstance(x[1][1], str) and INFTY.match(x[1][1]) and engines.entails(x[2], x[3], "==", 0):
                vs = set()
                engines.key_vars(x[1][2][0], vs)
                out |= vs
        return out

    def sources(st, v):
        return {v} | origin.get(v, set())
    n = 0
    params = set(fn.params)
    for nd in g.nodes:
        if nd.kind != "el" or nd.proto:
            continue
        st = F.IN.get(nd)
        if st is None or st is engines.UNIVERSE:
            continue
        e = nd.el.e
        for c in ir.calls_in(fn, e):
            if not c[1] or not MIL.match(c[1]):
                continue
            gb = guarded_bases(st)
            operands = []
            for a in c[2]:
                v = ir.base_var(fn, a)
                if v is None or not is_point_var(fn, v):
                    continue
                if v in params or v in origin:
                    operands.append(v)
            if len(operands) < 2:
                raise AnalysisBroken("MIL-GUARD: cannot identify the two point operands of %s in %s" % (c[1], fn.name))
            if not sim:
                for v in operands:
                    n += 1
                    nm = fn.vars[v]["n"]
                    if sources(st, v) & gb:
                        chk.ok("MIL-GUARD", fn, "%s:%s" % (c[1], nm), "reached only where `%s` (or the point it was normalised from) tested not to be the identity" % nm, line=nd.line())
                    else:
                        chk.fail("MIL-GUARD", fn, "%s:%s" % (c[1], nm), "the Miller loop is reachable with `%s` not tested against the identity: a pairing with the identity in this slot is computed by the loop instead of being 1" % nm, line=nd.line())
            else:
                # MIL-COMPACT (b): arrays and count are the local, compacted ones
                n += 1
                bad = [fn.vars[v]["n"] for v in operands if v in params]
                cnt = [ir.base_var(fn, a) for a in c[2] if ir.base_var(fn, a) is not None and fn.vars[ir.base_var(fn, a)].get("c") in ("int", "unsigned long", "unsigned int", "long")
                       and not is_point_var(fn, ir.base_var(fn, a))]
                badc = [fn.vars[v]["n"] for v in cnt if v in params]
                if bad or badc:
                    chk.fail("MIL-COMPACT", fn, "%s:args" % c[1], "the Miller loop receives the caller's %s: identity pairs are not compacted away" % ", ".join("`%s`" % x for x in bad + badc), line=nd.line())
                else:
                    chk.ok("MIL-COMPACT", fn, "%s:args" % c[1], "loop receives local arrays and counter", line=nd.line())
    if sim:
        # MIL-COMPACT (a): increments of the counter and writes of the compacted arrays are guarded
        cnts = set()
        arrays = set()
        for el in mil_sites:
            for c in ir.calls_in(fn, el.e):
                if c[1] and MIL.match(c[1]):
                    for a in c[2]:
                        v = ir.base_var(fn, a)
                        if v is None or v in params:
                            continue
                        if is_point_var(fn, v):
                            arrays.add(v)
                        elif fn.vars[v].get("c") in ("int", "unsigned long", "unsigned int", "long"):
                            cnts.add(v)
        point_params = [v for v in fn.params if is_point_var(fn, v)]
        for nd in g.nodes:
            if nd.kind != "el" or nd.proto:
                continue
            st = F.IN.get(nd)
            if st is None or st is engines.UNIVERSE:
                continue
            incs = []
            for sub in ir.walk(fn, nd.el.e):
                if sub[0] == "u" and ("++" in sub[1]):
                    l = ir.strip_casts(sub[2])
                    if isinstance(l, list) and l[0] == "v" and l[1] in cnts:
                        incs.append(l[1])
                elif sub[0] == "o=" and sub[1] == "+=":
                    l = ir.strip_casts(sub[2])
                    if isinstance(l, list) and l[0] == "v" and l[1] in cnts:
                        incs.append(l[1])
            wr = []
            for c in ir.calls_in(fn, nd.el.e):
                if c[1] and NORM.match(c[1]) and len(c[2]) == 2:
                    d, sv = ir.base_var(fn, c[2][0]), ir.base_var(fn, c[2][1])
                    if d in arrays and sv in point_params:
                        wr.append(d)
            if not incs and not wr:
                continue
            gb = guarded_bases(st)
            n += 1
            missing = [fn.vars[v]["n"] for v in point_params if v not in gb]
            what = "counter `%s` incremented" % fn.vars[incs[0]]["n"] if incs else "compacted array `%s` written" % fn.vars[wr[0]]["n"]
            if missing:
                chk.fail("MIL-COMPACT", fn, "compaction@%s" % (fn.vars[(incs or wr)[0]]["n"]), "%s where %s not tested against the identity: an identity pair enters the loop" % (what, ", ".join("`%s[i]`" % x for x in missing)), line=nd.line())
            else:
                chk.ok("MIL-COMPACT", fn, "compaction@%s" % (fn.vars[(incs or wr)[0]]["n"]), what + " only for pairs without identity", line=nd.line())
    # MIL-NORM: every writer of a local operand array is a normaliser (or keeps the normal form)
    ops = set()
    for el in mil_sites:
        for c in ir.calls_in(fn, el.e):
            if c[1] and MIL.match(c[1]):
                for a in c[2]:
                    v = ir.base_var(fn, a)
                    if v is not None and v not in params and is_point_var(fn, v) and v in origin:
                        ops.add(v)
    for v in sorted(ops):
        bad_w = None
        for el in fn.all_elements():
            for c in ir.calls_in(fn, el.e):
                if not c[1] or MIL.match(c[1]) or NORM_ONLY.match(c[1]) or KEEPS_NORM.match(c[1]):
                    continue
                for i, a in enumerate(c[2]):
                    if ir.arg_is_pointer(c, i) and ir.base_var(fn, a) == v and engines.callee_writes_arg(prog, fn, c[1], i):
                        bad_w = (c[1], el.line)
        n += 1
        nm = fn.vars[v]["n"]
        if bad_w:
            chk.fail("MIL-NORM", fn, nm, "`%s`, which the Miller loop reads as affine coordinates, is written by `%s`, which does not normalise: a projective input (the result of an addition or doubling) gives a different pairing value" % (nm, bad_w[0]), line=bad_w[1])
        else:
            chk.ok("MIL-NORM", fn, nm, "operand array written by normalisers only", line=fn.line)
    # ID-ONE
    bad = None
    nret = 0
    for p, st in engines.normal_exit_states(F, g):
        nret += 1
        if ("ev", "unit", r) not in st:
            bad = p
    if nret == 0:
        raise AnalysisBroken("ID-ONE: %s has no normal return" % fn.name)
    n += 1
    if bad is not None:
        chk.fail("ID-ONE", fn, fn.vars[r]["n"], "a normal return is reachable on which no Miller loop ran and `%s` was not last set to one: the pairing with an identity is not the identity of the target group" % fn.vars[r]["n"], line=c05_line(bad, fn))
    else:
        chk.ok("ID-ONE", fn, fn.vars[r]["n"], "result is one wherever no Miller loop ran", line=fn.line)
    return n


def rule_dispatch(ctx, prog, chk):
    """the variant reached through pc_map and through pc_map_sim is the same"""
    seen = {"pc_map": set(), "pc_map_sim": set()}
    for fn in prog.all:
        for el in fn.all_elements():
            ms = [m for m, _ in el.ms]
            for top in seen:
                if top in ms:
                    for c in ir.calls_in(fn, el.e):
                        m = re.match(r"^pp_map_(sim_)?(tatep|weilp|oatep)_k\d+$", c[1] or "")
                        if m:
                            seen[top].add(m.group(2))
    if not seen["pc_map"] or not seen["pc_map_sim"]:
        raise AnalysisBroken("MAP-DISPATCH: no expansion of pc_map / pc_map_sim found in the library under %s" % prog.config)
    if seen["pc_map"] == seen["pc_map_sim"] and len(seen["pc_map"]) == 1:
        chk.ok("MAP-DISPATCH", "pc_map", prog.config, "pc_map and pc_map_sim both expand to the %s pairing" % sorted(seen["pc_map"])[0], file="include/relic_pp.h")
    else:
        chk.fail("MAP-DISPATCH", "pc_map", prog.config, "under configuration %s pc_map expands to %s but pc_map_sim to %s: a multi-pairing is no longer the product of the single pairings" % (
            prog.config, sorted(seen["pc_map"]), sorted(seen["pc_map_sim"])), file="include/relic_pp.h")
    return 1


def analyse(ctx, prog, chk):
    chk.used_program(prog)
    n = 0
    nf = 0
    for fn in maps(prog):
        k = analyse_map(ctx, prog, chk, fn)
        if k:
            nf += 1
        n += k
    return {"maps": nf, "obligations": n}


def selfcheck(ctx, prog, chk):
    analyse(ctx, prog, chk)


def run(ctx, chk):
    from .. import facts
    c = analyse(ctx, ctx.program("BASE"), chk)
    chk.floor("MIL-GUARD", "pairing entry points with a Miller loop", c["maps"], 20)
    analyse(ctx, ctx.program("P381"), chk)
    rule_dispatch(ctx, ctx.program("BASE"), chk)
    for name, meth in (("PPTATE", "LAZYR;TATEP"), ("PPWEIL", "LAZYR;WEILP")):
        facts.CONFIGS.setdefault(name, ["-DPP_METHD=" + meth])
        prog = ctx.program(name)
        chk.used_program(prog)
        rule_dispatch(ctx, prog, chk)
        ctx._prog.pop(name, None)
    if chk.tier == "thorough":
        for bits in (315, 330, 354, 455, 508, 544, 575, 638, 1536):
            name = "P%d" % bits
            facts.CONFIGS.setdefault(name, ["-DFP_PRIME=%d" % bits] + (["-DBN_PRECI=%d" % (2 * bits + 64)] if bits > 512 else []))
            try:
                analyse(ctx, ctx.program(name), chk)
            except AnalysisBroken as e:
                chk.note("thorough: configuration %s: %s" % (name, str(e)[:160]))
            ctx._prog.pop(name, None)
