"""C16 — structural clauses of the binary field.

  INV0      all eight selectable inversion algorithms return normally only where fb_is_zero(a) was tested false (sibling
            agreement: the zero side leaves by the error in every variant)
  EXP-SIB   every exponentiation sibling consults the sign of the exponent on every path returning a power and answers one for
            a zero exponent it tells apart
  ALIAS-RW  no input element is read in a later statement than a write of an output element that may be the same object
  CONST-IN  no function of the module stores through a parameter it declares const
  SM-SIGN   every binary-curve scalar-multiplication sibling honours the sign of each scalar parameter
  OUT-RBW   no coordinate of an output point is read before it was written on every path
"""
import re

from .. import expsib, alias
from . import c02

EXPLANATION = (
    "Static decision of four structural clauses of C16 over src/fb and src/fbx: forward must-dataflow shows that all eight "
    "inversion variants (the build selects one) agree on the zero argument and that the three exponentiation siblings honour "
    "sign and zero of the exponent; a may-analysis shows that no input is read after the output was written in an earlier "
    "statement; parameter-write summaries show that inputs are not written. Polynomial arithmetic over GF(2), reduction modulo "
    "the configured polynomial, the curve group law, point halving and every scalar-multiplication value are value properties "
    "and are not decided (the binary-curve decoders, buffers and ladders are decided under C07, C08 and C20). Nothing of RELIC "
    "is executed.")

INV = re.compile(r"^fb_inv_(basic|binar|exgcd|almos|itoht|bruch|ctaia|lower)$")
EXP = re.compile(r"^fb_exp_(basic|slide|monty)$")
OUT_RBW_OK = {
    ("eb_mul_lnaf_imp", "r"): "the result is first written under `naf[l - 1] > 0`; the leading digit of a non-adjacent form of a positive integer is +1",
    ("eb_mul_fix_plain", "r"): "as eb_mul_lnaf_imp: the leading digit of the recoding is +1",
}
EBFAM = re.compile(r"^eb_mul(_\w+)?$")
EBNOT = re.compile(r"_mul_(pre|cof|tab)|_mul_pre_|_mul_fix_tab")
ALIAS_OK = {
    ("fb_inv_sim", "c", "a", "*", "fb_copy"): "batch inversion in place: element i of the input is read before element i of the output is written, later elements are untouched",
    ("fb_inv_sim", "c", "a", "*", "fb_mul"): "as above (whichever multiplication variant the configuration selects)",
}


def analyse(ctx, prog, chk):
    chk.used_program(prog)
    ni = c02.rule_inv0(ctx, prog, chk, pattern=INV, zero_fn="fb_is_zero")
    fam = [fn for fn in prog.all if EXP.match(fn.name.split("__")[-1]) and (fn.rfile.startswith("src/fb/") or "selftest" in fn.file)]
    ne = expsib.rule(ctx, prog, chk, fam, re.compile(r"^fb_set_dig$"))
    na, used = alias.rule(ctx, prog, chk, lambda fn: fn.rfile.startswith(("src/fb/", "src/fbx/")), ALIAS_OK)
    nc = c02.rule_const_in(ctx, prog, chk, prefix=("src/fb/", "src/fbx/", "src/low/easy/relic_fb", "src/eb/"))
    ebfam = [fn for fn in prog.all if EBFAM.match(fn.name.split("__")[-1]) and not EBNOT.search(fn.name) and (fn.rfile.startswith("src/eb/") or "selftest" in fn.file)]
    ns = expsib.rule_sm_sign(ctx, prog, chk, ebfam, EBFAM)
    nb = expsib.rule_loop_bits(ctx, prog, chk, fam + ebfam)
    npa = alias.rule(ctx, prog, chk, lambda fn: fn.rfile.startswith("src/eb/"), {}, points=True)[0]
    nr = alias.rule_out_rbw(ctx, prog, chk, lambda fn: fn.rfile.startswith("src/eb/"), re.compile(r"^eb_t\b"), exceptions=OUT_RBW_OK)
    from .. import outfull
    nf = outfull.rule(ctx, prog, chk, lambda fn: fn.rfile.startswith("src/fbx/"))
    return {"inv": ni, "exp": len(fam), "alias": na, "const": nc, "sign": ns, "rbw": nr, "palias": npa, "bits": nb, "full": nf}


def selfcheck(ctx, prog, chk):
    analyse(ctx, prog, chk)


def run(ctx, chk):
    c = analyse(ctx, ctx.program("BASE"), chk)
    chk.floor("INV0", "inversion variants", c["inv"], 8)
    chk.floor("EXP-SIB", "exponentiation siblings", c["exp"], 3)
    chk.floor("ALIAS-RW", "output/input pairs of the same type", c["alias"], 40)
    chk.floor("CONST-IN", "const pointer parameters of the module", c["const"], 80)
    chk.floor("ALIAS-RW", "output/input pairs incl. single binary-curve points", c["alias"] + c["palias"], 80)
    chk.floor("LOOP-BITS", "bit scans of exponents and scalars", c["bits"], 5)
    chk.floor("SM-SIGN", "scalar parameters of the binary-curve multiplication siblings", c["sign"], 25)
    chk.floor("OUT-RBW", "output points of binary-curve functions that also take an input point", c["rbw"], 40)
    chk.floor("OUT-FULL", "quadratic-extension outputs written component by component", c["full"], 4)
    if chk.tier == "thorough":
        # the other binary fields (their trinomial/pentanomial-specific code and curves are compiled only there)
        from .. import facts
        from ..facts import AnalysisBroken
        for m in (163, 233, 409, 571):
            name = "B%d" % m
            facts.CONFIGS.setdefault(name, ["-DFB_POLYN=%d" % m])
            try:
                analyse(ctx, ctx.program(name), chk)
            except AnalysisBroken as e:
                chk.note("thorough: configuration %s: %s" % (name, str(e)[:160]))
            ctx._prog.pop(name, None)
