"""HIST-FREE (C19, "after any sequence of parameter selections the library computes exactly what a freshly initialised
library with the last selection computes"): a field of the library context whose new value is computed from its own
old value (ctx->f++, ctx->f op= e, ctx->f = .. ctx->f .., F(ctx->f, .., ctx->f, ..)) has been assigned from something
else earlier in the same call, on every path.  Otherwise what the function leaves in the context depends on what an
earlier selection left there: the second selection of a parameter set does not compute what the first one computed.

Static helpers are judged together with their callers (the definition may precede the call).  Genuine accumulators
(generator state, benchmark totals) are listed one per line with their reason."""
from .. import ir, engines
from ..engines import Facts, key
from ..facts import AnalysisBroken

# field -> reason: state that is meant to depend on the history of calls
ACCUMULATORS = {
    "counter": "reseed counter of the Hash_DRBG: the generator is a state machine by definition (C15)",
    "total": "benchmark timer accumulating over BENCH_ADD rounds (src/relic_bench.c, not library state)",
}


# (function, field) -> reason: reviewed self-updates that cannot influence anything computed later
HIST_OK = {
    ("find_solve", "fb_half"): "fb_rsh(ctx->fb_half[l][j], ..) after the inner loop runs with j == 16, i.e. on element 0 of row l + 1, which the next "
                               "iteration assigns with fb_copy before any use; for the last row it touches row ceil(m/8), which no reader of the table indexes",
}


def ctx_field(fn, e):
    """(field, index keys) if e denotes a field of the library context, its address, or an element of it"""
    e = ir.strip_casts(e)
    idx = ()
    while isinstance(e, list) and e and ((e[0] == "u" and e[1] in ("&", "*")) or e[0] == "x"):
        if e[0] == "x":
            idx = (key(fn, e[2]),) + idx
            e = ir.strip_casts(e[1])
        else:
            e = ir.strip_casts(e[2])
    if isinstance(e, list) and e and e[0] == "m":
        b = ir.strip_casts(fn.resolve(e[1]))
        if isinstance(b, list) and b and b[0] == "u" and b[1] == "*":
            b = ir.strip_casts(fn.resolve(b[2]))
        if isinstance(b, list) and b and b[0] == "v":
            v = fn.vars[b[1]]
            if "ctx_t" in (v.get("t") or ""):
                return (e[2], idx)
        if isinstance(b, list) and b and b[0] == "c" and b[1] == "core_get":
            return (e[2], idx)
        inner = ctx_field(fn, b)
        if inner is not None:
            # a member of a structured field (ctx->prime.used, ctx->ep_g.x): the outer field, member as pseudo-index
            return (inner[0], inner[1] + (("f", e[2]),) + idx)
    return None


def overlap(a, b):
    """may the two (field, index keys) denote overlapping storage?"""
    if a[0] != b[0]:
        return False
    for x, y in zip(a[1], b[1]):
        if x != y and _const_idx(x) and _const_idx(y):
            return False
        if x != y and isinstance(x, tuple) and isinstance(y, tuple) and x[0] == "f" and y[0] == "f":
            return False
    return True


def uses(fn, e, out=None):
    """maximal context-field access paths in an expression (indices are searched separately)"""
    if out is None:
        out = []
    if not isinstance(e, list) or not e:
        return out
    e0 = ir.strip_casts(e)
    if isinstance(e0, list) and e0 and e0[0] in ("x", "m", "u"):
        f = ctx_field(fn, e0)
        if f is not None:
            out.append(f)
            # the index expressions may use other fields
            x = e0
            while isinstance(x, list) and x and x[0] in ("x", "u", "m"):
                if x[0] == "x":
                    uses(fn, x[2], out)
                    x = ir.strip_casts(x[1])
                elif x[0] == "u":
                    x = ir.strip_casts(x[2])
                else:
                    x = ir.strip_casts(x[1])
            return out
    for c in e[1:]:
        if isinstance(c, list):
            if c and isinstance(c[0], list):
                for d in c:
                    uses(fn, d, out)
            else:
                uses(fn, c, out)
    return out


def mentions(fn, e, field):
    return any(overlap(f, field) for f in uses(fn, e))


def accesses(prog, fn, e):
    """([self-updates (field, how)], [plain definitions field]) of the element"""
    selfs, defs = [], []
    for sub in ir.walk(fn, e):
        t = sub[0]
        if t == "u" and sub[1] in ("++", "--", "p++", "p--"):
            f = ctx_field(fn, sub[2])
            if f is not None:
                selfs.append((f, sub[1]))
        elif t == "o=":
            f = ctx_field(fn, sub[2])
            if f is not None:
                selfs.append((f, sub[1]))
        elif t == "=":
            f = ctx_field(fn, sub[1])
            if f is not None:
                if mentions(fn, sub[2], f):
                    selfs.append((f, "= .. itself .."))
                else:
                    defs.append(f)
        elif t == "c" and sub[2]:
            # output-first convention of the library: the first argument is written when the callee writes through it
            for pos, a in enumerate(sub[2]):
                f = ctx_field(fn, a)
                if f is None:
                    continue
                if not isinstance(sub[1], str) or not engines.callee_writes_arg(prog, fn, sub[1], pos):
                    continue
                others = [b for j, b in enumerate(sub[2]) if j != pos]
                if any(mentions(fn, b, f) for b in others):
                    selfs.append((f, "%s(.., itself, ..)" % sub[1]))
                else:
                    defs.append(f)
    return selfs, defs


def defined(st, f):
    """a definition of the same element, or of an enclosing part (shorter index path), is in the state"""
    for k in range(len(f[1]) + 1):
        if ("ev", "def", f[0], f[1][:k]) in st:
            return True
    # ... or it was assembled from its components: elements 0..k-1 (k >= 2) one level below are all in the state
    kids = set()
    for a in st:
        if a[0] == "ev" and a[1] == "def" and a[2] == f[0] and len(a[3]) == len(f[1]) + 1 and a[3][:len(f[1])] == f[1] and _const_idx(a[3][-1]):
            kids.add(a[3][-1][1])
    return len(kids) >= 2 and kids == set(range(len(kids)))


def analyse(ctx, prog, chk, field_re=None, rule="HIST-FREE"):
    n = 0
    callers = {}
    for fn in prog.all:
        for el in fn.all_elements():
            for c in ir.calls_in(fn, el.e):
                if isinstance(c[1], str):
                    callers.setdefault(c[1], []).append(fn)
    facts = {}

    def F_of(fn):
        if fn.name not in facts:
            g = ctx.xcfg(prog, fn)

            def gen(node, s, pre, fn=fn):
                _, defs = accesses(prog, fn, node.el.e)
                return [("ev", "def", f[0], f[1]) for f in defs]
            facts[fn.name] = (g, Facts(prog, g, gen=gen, mark_thrown=True))
        return facts[fn.name]

    def defined_before_calls(fn, f, depth=0):
        """is the field defined at every call site of the static helper fn (in every caller)?"""
        if depth > 2 or not fn.static:
            return False
        cs = [c for c in callers.get(fn.name, []) if c is not fn]
        if not cs:
            return False
        for c in cs:
            g, F = F_of(c)
            for nd in g.nodes:
                if nd.kind != "el" or nd.proto:
                    continue
                if not any(cc[1] == fn.name for cc in ir.calls_in(c, nd.el.e)):
                    continue
                st = F.IN.get(nd)
                if st is None or st is engines.UNIVERSE:
                    continue
                if not defined(st, (f[0], tuple(x for x in f[1] if _const_idx(x) or (isinstance(x, tuple) and x and x[0] == "f")) if all(_const_idx(x) or (isinstance(x, tuple) and x and x[0] == "f") for x in f[1]) else ())) and not defined_before_calls(c, f, depth + 1):
                    return False
        return True

    used_ok = set()
    for fn in prog.all:
        sites = []
        for el in fn.all_elements():
            s, _ = accesses(prog, fn, el.e)
            if s:
                sites.append(el)
        if not sites:
            continue
        g, F = F_of(fn)
        seen = set()
        for nd in g.nodes:
            if nd.kind != "el" or nd.proto:
                continue
            selfs, _ = accesses(prog, fn, nd.el.e)
            if not selfs:
                continue
            st = F.IN.get(nd)
            if st is None or st is engines.UNIVERSE:
                continue
            for f, how in selfs:
                if field_re is not None and not field_re.search(f[0]):
                    continue
                obj = "%s%s" % (f[0], "".join((".%s" % x[1]) if (isinstance(x, tuple) and x and x[0] == "f") else "[%s]" % engines.fmt_key(fn, x) for x in f[1]))
                if (obj, nd.line()) in seen:
                    continue
                seen.add((obj, nd.line()))
                n += 1
                if f[0] in ACCUMULATORS:
                    chk.ok(rule, fn, obj, "listed accumulator: " + ACCUMULATORS[f[0]], line=nd.line())
                elif defined(st, f):
                    chk.ok(rule, fn, obj, "->%s is assigned from other data earlier in the call on every path to this update" % f[0], line=nd.line())
                elif defined_before_calls(fn, f):
                    chk.ok(rule, fn, obj, "->%s is assigned before every call of this static helper" % f[0], line=nd.line())
                elif (fn.name.split("__")[-1], f[0]) in HIST_OK:
                    used_ok.add((fn.name.split("__")[-1], f[0]))
                    chk.ok(rule, fn, obj, "reviewed exception: " + HIST_OK[(fn.name.split("__")[-1], f[0])], line=nd.line())
                else:
                    chk.fail(rule, fn, obj, "the context field ->%s is updated from its own old value (%s) on a path on which this call has not assigned it before: "
                             "what the call leaves in the context depends on what an earlier call left there" % (f[0], how), line=nd.line())
    if prog.library is None and field_re is None:
        for k in HIST_OK:
            if k not in used_ok and prog.get(k[0]) is not None:
                raise AnalysisBroken("HIST-FREE: the reviewed exception %s/%s no longer matches a self-update; remove it" % k)
    return n


def _const_idx(k):
    return isinstance(k, tuple) and k and k[0] == "i"


def run(ctx, chk):
    n = analyse(ctx, ctx.program("BASE"), chk)
    chk.floor("HIST-FREE", "self-updates of context fields", n, 40)
    for cfg in ("P255", "P381"):
        analyse(ctx, ctx.program(cfg), chk)
