"""STALE-READ (C19, "after any sequence of parameter selections the library computes exactly what a freshly initialised
library with the last selection computes"): a function that assigns a field of the library context does not read that
field, on any path, before its own assignment of it.  Such a read sees what the *previous* selection left there: a flag
derived from it describes the previous curve, a "computed already" shortcut keyed on it skips work the new parameters need.
(HIST-FREE is the special case where the stale value flows back into the same field; INSTALL-MUST judges the skip keyed
on a parameter identifier, which is admissible when every installer maintains the identifier.)

State machines whose next state is by definition a function of the previous one (error record, generator, benchmark
totals) are out of scope; reviewed exceptions are listed one per line with their reason."""
from .. import ir, engines
from ..engines import Facts
from ..facts import AnalysisBroken
from . import c19_hist as H

OUT_OF_SCOPE_FILES = ("src/relic_err.c", "src/rand/", "src/relic_bench.c", "src/relic_core.c", "include/relic_err.h")
# identifiers that INSTALL-MUST judges: `if (param == ctx->X_id) return` is that rule's business
IDENTIFIER_FIELDS = {"fp_id", "fb_id", "ep_id", "eb_id", "ed_id"}

STALE_OK = {
    ("find_chain", "chain"): "chain[i - 1] is read after the loop at the head of the function assigned every element chain[0 .. RLC_TERMS - 1]; "
                             "the per-element index of that loop is symbolic",
}


def in_scope(fn):
    return not fn.rfile.startswith(OUT_OF_SCOPE_FILES) or "selftest" in fn.file


def analyse(ctx, prog, chk):
    n = 0
    used = set()
    for fn in prog.all:
        if not in_scope(fn):
            continue
        alld = []
        for el in fn.all_elements():
            _, d = H.accesses(prog, fn, el.e)
            alld += d
        if not alld:
            continue
        g = ctx.xcfg(prog, fn)

        def gen(node, s, pre, fn=fn):
            _, defs = H.accesses(prog, fn, node.el.e)
            return [("ev", "def", f[0], f[1]) for f in defs]
        F = Facts(prog, g, gen=gen, mark_thrown=True)
        seen = set()
        for nd in g.nodes:
            if nd.kind not in ("el",) or nd.proto:
                continue
            st = F.IN.get(nd)
            if st is None or st is engines.UNIVERSE:
                continue
            e = nd.el.e
            selfs, defs = H.accesses(prog, fn, e)
            for f in H.uses(fn, e):
                if f in defs and not _read_besides_def(prog, fn, e, f):
                    continue          # the assignment target itself
                if f[0] in H.ACCUMULATORS or f[0] in IDENTIFIER_FIELDS:
                    continue
                own = [d for d in alld if H.overlap(d, f)]
                if not own:
                    continue
                k = (f[0], nd.line())
                if k in seen:
                    continue
                seen.add(k)
                n += 1
                obj = f[0]
                base = fn.name.split("__")[-1]
                if H.defined(st, f) or any(sf == f for sf, _ in selfs):
                    # (a self-update is HIST-FREE's business)
                    chk.ok("STALE-READ", fn, obj, "->%s was assigned earlier in the call on every path to this read" % f[0], line=nd.line())
                elif (base, f[0]) in STALE_OK:
                    used.add((base, f[0]))
                    chk.ok("STALE-READ", fn, obj, "reviewed exception: " + STALE_OK[(base, f[0])], line=nd.line())
                else:
                    chk.fail("STALE-READ", fn, obj, "`%s` reads the context field ->%s on a path on which this call has not assigned it yet, although the function assigns it: "
                             "the value read is what an earlier selection left there, so the outcome depends on the history of selections" % (fn.fmt(e)[:60], f[0]), line=nd.line())
    if prog.library is None:
        for k in STALE_OK:
            if k not in used and prog.get(k[0]) is not None:
                raise AnalysisBroken("STALE-READ: the reviewed exception %s/%s no longer matches a read; remove it" % k)
    return n


FLAG_OK = {
    ("ep4_curve_set_twist", "frb4"): "stored only in the M-type, b = 0 branch; every other path keeps what fp4_field_init stored, and that routine runs "
                                     "(through fp_prime_calc) at every selection of the field, which every curve selection performs first: the value "
                                     "found on entry is always the one a fresh library has there",
}
NOT_SETTERS = ("_clean", "_init")


def rule_flag_both(ctx, prog, chk):
    """FLAG-BOTH: a context field that a setter only ever gives constants (a kind flag: 1 under a condition) is stored on
    every path of the setter that returns normally; a flag that is raised but never lowered keeps describing the previous
    selection (Koblitz flag after K-283 then B-283)"""
    n = 0
    used = set()
    for fn in prog.all:
        base = fn.name.split("__")[-1]
        if not in_scope(fn) or base.endswith(NOT_SETTERS) or fn.rfile.startswith("src/arch/"):
            continue
        consts, nonconst = {}, set()
        for el in fn.all_elements():
            for sub in ir.walk(fn, el.e):
                if sub[0] == "=":
                    f = H.ctx_field(fn, sub[1])
                    if f is None or f[0] in ("code", "error", "number", "last", "caught", "reason") or f[0] in H.ACCUMULATORS:
                        continue
                    r = ir.peel(fn, sub[2])
                    if isinstance(r, list) and r and r[0] == "i":
                        consts.setdefault(f, set()).add(r[1])
                    else:
                        nonconst.add(f)
            _, defs = H.accesses(prog, fn, el.e)
            for f in defs:
                if f not in consts:
                    nonconst.add(f)
        flags = [f for f in consts if f not in nonconst and not f[1]]
        if not flags:
            continue
        g = ctx.xcfg(prog, fn)

        def gen(node, s, pre, fn=fn):
            _, defs = H.accesses(prog, fn, node.el.e)
            return [("ev", "def", f[0], f[1]) for f in defs]
        F = Facts(prog, g, gen=gen, mark_thrown=True)
        for f in sorted(flags, key=str):
            miss = None
            nex = 0
            for p, st in engines.normal_exit_states(F, g):
                nex += 1
                if not H.defined(st, f):
                    miss = p
                    break
            if nex == 0:
                continue
            n += 1
            if miss is None:
                chk.ok("FLAG-BOTH", fn, f[0], "->%s is stored on every returning path" % f[0], line=fn.line)
            elif (base, f[0]) in FLAG_OK:
                used.add((base, f[0]))
                chk.ok("FLAG-BOTH", fn, f[0], "reviewed exception: " + FLAG_OK[(base, f[0])], line=fn.line)
            else:
                chk.fail("FLAG-BOTH", fn, f[0], "the flag ->%s only ever receives the constant(s) %s here and a returning path stores nothing: on that path it keeps what an earlier selection left, "
                         "so it can be raised but never lowered (or the reverse)" % (f[0], sorted(consts[f])), line=miss.line() if hasattr(miss, "line") else fn.line)
    if prog.library is None:
        for k in FLAG_OK:
            if k not in used and prog.get(k[0]) is not None:
                raise AnalysisBroken("FLAG-BOTH: the reviewed exception %s/%s no longer matches; remove it" % k)
    return n


def _read_besides_def(prog, fn, e, f):
    """is the field also read in the element that defines it (rhs of the store / other arguments of the call)?  Self-updates
    are classified by HIST-FREE; here only `X = g(.., X_other_index ..)` style reads of other elements count"""
    return False
