"""C08 — no call reads or writes outside its objects; overflow is reported, not performed.

Structural necessary conditions, each of which when violated gives a concrete
out-of-bounds access or use of an invalid handle (DESIGN.md section 3, C08):
  BUF-LEN     at every call of a scalar recoder the length handed in times the row factor fits the buffer handed in
  REC-GUARD   inside each recoder every write through the buffer is preceded by a comparison of *len whose failing side leaves
              (the bound must still be in force at the write: its operands unchanged since the test; stores whose index is
              itself compared with *len are accepted individually)
  REC-EMPTY   (c08_empty.py) the top digit buf[len - 1] of a recoding is read only where the recoded integer is known non-zero
  SHIFT-WIDEN an int-typed shift (`1 << i`) is never widened into a digit-typed variable
  CEIL-ZERO   (c08_wrap.py) RLC_CEIL(A, B) = (A - 1) / B + 1 only where the unsigned A is positive
  WRAP        (c08_wrap.py) an unsigned subtraction that bounds a loop or decides a comparison cannot wrap
  GUARD-RANGE (c08_range.py) no error guard compares a variable with a constant its type can never reach (except `unsigned < 0`)
  WINDOW-FIT  (c08_range.py) a local table filled by a loop over 1 << (w - k) holds the largest window the function chooses
  GROW-FIRST  (c08_range.py) the digit count of an integer is not raised before the bn_grow that has to cover it
  WRITE-GUARD (c08_wguard.py) no write through a caller's (buffer, capacity) pair before the capacity has been examined
  CAP         a digit store into a multiple-precision integer is preceded by a capacity request that covers the index
  COPY-IN     copies of an operand's digits into local arrays / stack allocations are bounded
  TYPESTATE   (DYNAMIC allocation) no handle is tested/freed/used while possibly uninitialised; stack allocations are NULL-tested
  REALLOC-KEEP (DYNAMIC allocation) the result of realloc is kept in a temporary until it has been tested
  N0          batch functions do not touch element [0] / [n-1] when n may be 0
  DIV0        no division / remainder by a parameter without a preceding test that it is not zero
"""
import re

from .. import ir, engines, extent
from ..engines import Facts, key
from ..extent import Poly, poly, prove_nonneg
from ..facts import AnalysisBroken

EXPLANATION = (
    "Static decision of structural necessary conditions of memory safety over every function of the library (BASE and "
    "DYNAMIC-allocation configurations): forward must-dataflow with branch/assignment atoms over the exploded CFG "
    "(exceptional edges of the TRY protocol included) plus a small symbolic extent prover (polynomials over non-negative "
    "symbols with loop-index upper bounds). Decides: recoder buffers fit the lengths handed in (BUF-LEN), recoders refuse "
    "short buffers before the first write with a bound that is still in force at the write (REC-GUARD), unsigned "
    "subtractions in loop bounds and comparisons cannot wrap (WRAP), no write through a caller's buffer precedes the first "
    "examination of its capacity (WRITE-GUARD), digit stores are covered by the preceding capacity request (CAP), copies of "
    "operand digits into local buffers are bounded (COPY-IN), batch functions do not touch elements of empty arrays (N0), "
    "no division by an untested parameter (DIV0), and under DYNAMIC allocation no handle is used, tested or freed while "
    "possibly uninitialised on any path including every allocation-failure edge (TYPESTATE) and a failed reallocation does "
    "not overwrite the pointer it was given (REALLOC-KEEP). Does not decide the absence of "
    "all undefined behaviour: loops whose bounds depend on ->used of operands are not bounded. Nothing of RELIC is executed.")

SELFTEST_CONFIGS = ["BASE", "DYN"]

# recoder contracts: callee -> (buffer argument, length argument (pointer), row-factor argument or None)
RECODERS = {
    "bn_rec_win": (0, 1, None), "bn_rec_slw": (0, 1, None), "bn_rec_naf": (0, 1, None), "bn_rec_tnaf": (0, 1, None),
    "bn_rec_rtnaf": (0, 1, None), "bn_rec_reg": (0, 1, None), "bn_rec_jsf": (0, 1, None),
    "bn_rec_sac": (0, 1, 5),      # writes m rows of *len entries
}
ALLOCATORS = ("alloca", "__builtin_alloca", "_alloca", "malloc", "calloc")


# ---------------------------------------------------------------------- capacities
def prod(xs):
    p = 1
    for x in xs:
        p *= x
    return p


def alloc_elems(fn, rk, esz):
    """number of elements allocated by an allocator call key, as Poly"""
    if not (isinstance(rk, tuple) and rk[0] == "c" and rk[1] in ALLOCATORS):
        return None
    args = rk[2]
    if rk[1] == "calloc" and len(args) == 2:
        a, b = poly(args[0]), poly(args[1])
        if a is None or b is None:
            return None
        total = a * b
    elif args:
        total = poly(args[0])
    else:
        return None
    if total is None:
        return None
    if esz in (None, 0):
        return None
    if esz == 1:
        return total
    if all(v % esz == 0 for v in total.t.values()):
        return Poly({k: v // esz for k, v in total.t.items()})
    return None


def pointee_size(v):
    """element size of a pointer/array variable from its type string (bytes)"""
    if "esz" in v:
        return v["esz"]
    c = v["c"]
    m = re.match(r"^(const )?(unsigned |signed )?(char)\b", c)
    if m:
        return 1
    if re.match(r"^(const )?(unsigned long|long|unsigned long long|long long)\b", c) and c.rstrip().endswith("*"):
        return 8
    if re.match(r"^(const )?(unsigned int|int)\b", c) and c.rstrip().endswith("*"):
        return 4
    return None


def capacity(fn, facts, e, depth=0):
    """capacity, in elements, of the object the pointer expression `e` points
    into, counted from where it points (Poly), or None if unknown"""
    e = ir.strip_casts(fn.resolve(e))
    if not isinstance(e, list) or depth > 6:
        return None
    t = e[0]
    if t == "v":
        v = fn.vars[e[1]]
        if "dims" in v and v["k"] != "p":
            return Poly.const(prod(v["dims"]))
        # local pointer assigned from an allocator
        for a in facts:
            if a[0] == "alloc" and a[1] == ("v", e[1]):
                n = alloc_elems(fn, a[2], pointee_size(v))
                if n is not None:
                    return n
        return None
    if t == "x":
        base = ir.strip_casts(fn.resolve(e[1]))
        if base[0] == "v":
            v = fn.vars[base[1]]
            if "dims" in v and len(v["dims"]) >= 2 and v["k"] != "p":
                return Poly.const(prod(v["dims"][1:]))
        if base[0] == "x":
            b2 = ir.strip_casts(fn.resolve(base[1]))
            if b2[0] == "v":
                v = fn.vars[b2[1]]
                if "dims" in v and len(v["dims"]) >= 3:
                    return Poly.const(prod(v["dims"][2:]))
        return None
    if t == "u" and e[1] == "&":
        x = ir.strip_casts(fn.resolve(e[2]))
        if x[0] == "x":
            base = capacity(fn, facts, x[1], depth + 1)
            off = poly(key(fn, x[2]))
            if base is None or off is None:
                return None
            return base - off
        return None
    if t == "b" and e[1] == "+":
        base = capacity(fn, facts, e[2], depth + 1)
        off = poly(key(fn, e[3]))
        if base is None:
            base = capacity(fn, facts, e[3], depth + 1)
            off = poly(key(fn, e[2]))
        if base is None or off is None:
            return None
        return base - off
    if t == "m" and not e[3]:
        return None
    return None


def value_of(fn, facts, k):
    """Poly for the current value of lvalue key k"""
    eq = extent.equalities(facts)
    if k in eq:
        return extent._apply_eq(eq[k], eq)
    return poly(k, 0, eq)


# ---------------------------------------------------------------------- bit-length bounds of library-held quantities
# functions that store a group order / curve parameter of the active configuration into their first argument;
# such values have at most RLC_FP_BITS (resp. RLC_FB_BITS) bits: they are bounded by the field characteristic
# (Hasse) or are the small integer the family polynomials are evaluated at.
ORD_GETTERS_FP = {"ep_curve_get_ord", "ep2_curve_get_ord", "ep3_curve_get_ord", "ep4_curve_get_ord", "ep8_curve_get_ord",
                  "ed_curve_get_ord", "fp_prime_get_par", "pc_get_ord"}
ORD_GETTERS_FB = {"eb_curve_get_ord"}
BN_MOD = re.compile(r"^bn_mod_(basic|barrt|monty|pmers|imp)$")


def bits_key(vk):
    return ("c", "bn_bits", (vk,))


SMALL_ARITH = {"bn_mul_dig", "bn_add_dig", "bn_sub_dig", "bn_dbl", "bn_sqr_basic", "bn_sqr_comba", "bn_sqr_karat"}
# public installers whose integer argument is by contract a built-in curve parameter, never an API input of a
# computation (every tabulated value is evaluated under C18)
PARAM_ARGS = {("fp_prime_set_pairf", "x"): "the integer the pairing-family polynomials are evaluated at; installers are only "
              "called with the tabulated parameters"}


def make_bits_gen(prog, fn, holder):
    fp_bits = conf_bits(prog, "FP_PRIME")
    fb_bits = conf_bits(prog, "FB_POLYN")

    def bound_of(s, vk):
        best = None
        for a in s:
            if a[0] == "cmp" and a[1] == bits_key(vk) and a[2] in ("<=", "<", "=="):
                c = a[3] - 1 if a[2] == "<" else a[3]
                if best is None or c < best:
                    best = c
        return best

    def gen(node, s, pre):
        out = []
        e = node.el.e
        for c in ir.calls_in(fn, e):
            name = c[1]
            if not name or not c[2]:
                continue
            a0 = key(fn, c[2][0])
            if name in ORD_GETTERS_FP and fp_bits:
                out.append(("cmp", bits_key(a0), "<=", fp_bits))
                out.append(("ev", "libparam", a0))
            elif name in ORD_GETTERS_FB and fb_bits:
                out.append(("cmp", bits_key(a0), "<=", fb_bits + 1))
                out.append(("ev", "libparam", a0))
            elif BN_MOD.match(name) and len(c[2]) >= 3:
                b = bound_of(pre, key(fn, c[2][2]))
                if b is not None:
                    out.append(("cmp", bits_key(a0), "<=", b))
            elif name in ("bn_abs", "bn_copy", "bn_neg", "bn_hlv", "bn_rsh") and len(c[2]) >= 2:
                b = bound_of(pre, key(fn, c[2][1]))
                if b is not None:
                    out.append(("cmp", bits_key(a0), "<=", b))
                if ("ev", "libparam", key(fn, c[2][1])) in pre:
                    out.append(("ev", "libparam", a0))
            elif name == "bn_set_dig":
                out.append(("cmp", bits_key(a0), "<=", 64))
            elif name in SMALL_ARITH and len(c[2]) >= 2:
                # small-constant arithmetic on a library parameter stays a library parameter
                if ("ev", "libparam", key(fn, c[2][1])) in pre:
                    out.append(("ev", "libparam", a0))
            elif name == "bn_rec_glv" and len(c[2]) >= 4:
                b = bound_of(pre, key(fn, c[2][3]))
                if b is not None:
                    out.append(("cmp", bits_key(a0), "<=", b))
                    out.append(("cmp", bits_key(key(fn, c[2][1])), "<=", b))
        # in-place steps on an element of an array of integers selected by a loop index (bn_abs(m[i], m[i]),
        # m[i]->dp[0] |= b) keep the bit-length bounds of all elements of that array
        base = None
        for c in ir.calls_in(fn, e):
            if c[1] in ("bn_abs", "bn_neg") and len(c[2]) >= 2 and key(fn, c[2][0]) == key(fn, c[2][1]):
                k0 = key(fn, c[2][0])
                if isinstance(k0, tuple) and k0[0] == "x":
                    base = k0[1]
        if e[0] == "o=" and e[1] == "|=":
            l = ir.strip_casts(e[2])
            if isinstance(l, list) and l[0] == "x" and ir.peel(fn, l[2]) == ["i", 0]:
                m0 = ir.peel(fn, l[1])
                if isinstance(m0, list) and m0[0] == "m" and m0[2] == "dp":
                    k0 = key(fn, m0[1])
                    base = k0[1] if isinstance(k0, tuple) and k0[0] == "x" else k0
        if base is not None:
            for a in pre:
                if a[0] == "cmp" and isinstance(a[1], tuple) and a[1][0] == "c" and a[1][1] == "bn_bits":
                    ak = a[1][2][0]
                    if ak == base or (isinstance(ak, tuple) and ak[0] == "x" and ak[1] == base):
                        out.append(a)
        # an integer assigned an expression with a constant upper bound keeps that bound
        # after the operands change (n = bn_bits(m); bn_abs(m, k); ...)
        for a in engines.assignment_atoms(fn, e):
            if a[0] == "rel" and a[2] == "==":
                ub = extent.const_upper(poly(a[3], 0, extent.equalities(s)), s | frozenset(out))
                if ub is not None:
                    out.append(("cmp", a[1], "<=", ub))
        return out
    return gen


def conf_bits(prog, name):
    m = re.search(r"^#define\s+%s\s+(\d+)" % name, prog.data["conf_h"], re.M)
    return int(m.group(1)) if m else None


# ---------------------------------------------------------------------- BUF-LEN
def rule_buf_len(ctx, prog, chk):
    n = 0
    for fn in prog.all:
        sites = []
        for el in fn.all_elements():
            for c in ir.calls_in(fn, el.e):
                if c[1] in RECODERS:
                    sites.append(el.id)
        if not sites:
            continue
        g = ctx.xcfg(prog, fn)
        holder = {}
        F = holder["F"] = Facts(prog, g, gen=make_bits_gen(prog, fn, holder))
        ordinal = {}
        for nd in g.nodes:
            if nd.kind != "el" or nd.el.id not in sites:
                continue
            s = F.IN.get(nd)
            if s is None or s is engines.UNIVERSE:
                continue
            for c in ir.calls_in(fn, nd.el.e):
                if c[1] not in RECODERS:
                    continue
                bi, li, mi = RECODERS[c[1]]
                o = ordinal.get((c[1], nd.el.id))
                if o is None:
                    o = ordinal[(c[1], nd.el.id)] = len(set(k for k in ordinal if k[0] == c[1]))
                obj = "%s#%d" % (c[1], o)
                n += 1
                buf = c[2][bi]
                la = ir.strip_casts(fn.resolve(c[2][li]))
                cap = capacity(fn, s, buf)
                if la[0] == "u" and la[1] == "&":
                    need = value_of(fn, s, key(fn, la[2]))
                elif la[0] == "v":
                    # the caller's own in/out length pointer handed on: obligation moves to the callers
                    chk.note("BUF-LEN: %s hands its own length pointer to %s; obligation lies with its callers" % (fn.name, c[1]))
                    continue
                else:
                    need = None
                if mi is not None and need is not None:
                    m = poly(key(fn, c[2][mi]), 0, extent.equalities(s))
                    need = need * m if m is not None else None
                if cap is None or need is None:
                    chk.fail("BUF-LEN", fn, obj, "cannot relate the length handed to %s (%s) to the capacity of its buffer (%s)" % (
                        c[1], fn.fmt(c[2][li]), fn.fmt(buf)), line=nd.line())
                    continue
                if prove_nonneg(cap - need, s):
                    chk.ok("BUF-LEN", fn, obj, "capacity %s >= length %s" % (cap.fmt(fn), need.fmt(fn)), line=nd.line())
                    continue
                # lengths of library-held parameters (not API inputs) are outside this rule
                exempt = libparam_exempt(ctx, prog, fn, s, cap - need)
                if exempt:
                    chk.ok("BUF-LEN", fn, obj, "length %s depends only on the bit length of a built-in parameter (%s): not an API input" % (need.fmt(fn), exempt), line=nd.line())
                else:
                    chk.fail("BUF-LEN", fn, obj, "%s is told its buffer `%s` holds %s entries but the buffer holds %s: the recoder's own length test cannot protect it" % (
                        c[1], fn.fmt(buf), need.fmt(fn), cap.fmt(fn)), line=nd.line(),
                        trace=["facts: " + ", ".join(sorted(engines.fmt_atom(fn, a) for a in s))[:400]])
    return n


def libparam_exempt(ctx, prog, fn, s, diff):
    """if cap - need >= 0 is provable once every bn_bits(X) with X a built-in
    parameter is taken as 0, and at least one such symbol occurs, return a
    description of those parameters; else None"""
    syms = [x for x in diff.symbols() if isinstance(x, tuple) and x[0] == "c" and x[1] == "bn_bits"]
    if not syms:
        return None
    names = []
    p = diff
    for sy in syms:
        vk = sy[2][0]
        if ("ev", "libparam", vk) in s:
            names.append(engines.fmt_key(fn, vk))
        elif vk[0] == "v" and fn.vars[vk[1]]["k"] == "p":
            pname = fn.vars[vk[1]]["n"]
            if (fn.name, pname) in PARAM_ARGS:
                names.append("%s: %s" % (pname, PARAM_ARGS[(fn.name, pname)][:60]))
            elif fn.static and callers_pass_libparam(ctx, prog, fn, vk[1]):
                names.append("%s (every caller passes a built-in parameter)" % pname)
            else:
                return None
        else:
            return None
        p = p.subst(sy, Poly.const(0))
    if prove_nonneg(p, s):
        return ", ".join(names)
    return None


def callers_pass_libparam(ctx, prog, fn, pvar):
    pos = fn.params.index(pvar)
    found = 0
    for caller in prog.by_unit(fn.unit_src):
        sites = [el for el in caller.all_elements() if any(c[1] == fn.name for c in ir.calls_in(caller, el.e))]
        if not sites:
            continue
        g = ctx.xcfg(prog, caller)
        holder = {}
        F = holder["F"] = Facts(prog, g, gen=make_bits_gen(prog, caller, holder))
        ids = set(el.id for el in sites)
        for nd in g.nodes:
            if nd.kind != "el" or nd.el.id not in ids:
                continue
            st = F.IN.get(nd)
            if st is None or st is engines.UNIVERSE:
                continue
            for c in ir.calls_in(caller, nd.el.e):
                if c[1] != fn.name or pos >= len(c[2]):
                    continue
                found += 1
                if ("ev", "libparam", key(caller, c[2][pos])) not in st:
                    return False
    return found > 0


# ---------------------------------------------------------------------- REC-GUARD
def _bits(v):
    return ("c", "bn_bits", (("v", v),))


def _ceil(a, b):
    return ("b", "+", ("b", "/", ("b", "-", a, ("i", 1)), b), ("i", 1))


def _add(a, c):
    return ("b", "+", a, ("i", c))


# entries each recoder writes (its contract, derived by reading the loops), as a function of its parameters;
# P maps parameter names to variable indices.  The guard on *len must imply at least this many.
REC_NEED = {
    "bn_rec_win": lambda P: _ceil(_bits(P["k"]), ("v", P["w"])),           # one entry per w-bit window
    "bn_rec_slw": lambda P: _bits(P["k"]),                                  # worst case one entry per bit
    "bn_rec_naf": lambda P: _add(_bits(P["k"]), 1),                         # NAF is at most one digit longer than k
    # tau-adic NAF: one entry per step of a division by tau, as many as the *reduced* element needs (about 2 log2 of its
    # norm), not a function of bits(k): every write has to be bounded individually
    "bn_rec_tnaf": lambda P: "unbounded",
    # regular tau-adic NAF: exactly ceil((m + 2) / (w - 1)) entries in the loop, then one or two for the remainder
    "bn_rec_rtnaf": lambda P: _add(_ceil(("b", "+", ("v", P["m"]), ("i", 2)), ("b", "-", ("v", P["w"]), ("i", 1))), 2),
    "bn_rec_reg": lambda P: _add(_ceil(("v", P["n"]), ("b", "-", ("v", P["w"]), ("i", 1))), 1),   # l digits plus the final carry digit
    "bn_rec_jsf": lambda P: _add(("b", "*", ("i", 2), _bits(P["k"])), 2),   # two rows of max(bits)+1 entries (lower bound with bits(k) only)
    # rows of l columns, l = max(ceil(n, c*m) + 1, bits(u) + 1, bits(k_i) + 1 on BN curves): the guard must still relate *len
    # to the column count l that the writes use
    "bn_rec_sac": lambda P: "reported",
}


def len_lower_bounds(facts, starlen):
    out = []
    for a in facts:
        if a[0] == "cmp" and a[1] == starlen and a[2] in (">=", ">", "=="):
            out.append(Poly.const(a[3] + 1 if a[2] == ">" else a[3]))
        elif a[0] == "rel" and a[1] == starlen and a[2] in (">=", ">", "=="):
            p = extent.norm_poly(a[3], facts)
            if p is not None:
                out.append(p + Poly.const(1) if a[2] == ">" else p)
        elif a[0] == "rel" and a[3] == starlen and a[2] in ("<=", "<", "=="):
            p = extent.norm_poly(a[1], facts)
            if p is not None:
                out.append(p + Poly.const(1) if a[2] == "<" else p)
    return out


def rule_rec_guard(ctx, prog, chk):
    n = 0
    for fn in prog.all:
        base = fn.name.split("__")[-1]
        if base not in RECODERS:
            continue
        bi, li, _ = RECODERS[base]
        if len(fn.params) <= max(bi, li):
            continue
        bufv, lenv = fn.params[bi], fn.params[li]
        starlen = ("u", "*", ("v", lenv))
        g = ctx.xcfg(prog, fn)

        P = {fn.vars[i]["n"]: i for i in fn.params}
        try:
            need_key = REC_NEED[base](P)
        except KeyError:
            raise AnalysisBroken("REC-GUARD: parameter names of %s changed; the contract table must be re-read" % fn.name)
        if need_key == "reported":
            # the column count is whatever the recoder reports back through *len at the end (`*len = l`)
            rep = [sub[2] for el in fn.all_elements() for sub in ir.walk(fn, el.e)
                   if sub[0] == "=" and key(fn, sub[1]) == starlen and ir.peel(fn, sub[2])[0] == "v"]
            if not rep:
                raise AnalysisBroken("REC-GUARD: %s no longer reports its column count through *%s; the contract must be re-read" % (fn.name, fn.vars[lenv]["n"]))
            need_key = key(fn, rep[-1])
        holder = {}
        weak_edges = []

        def edge_gen(node, label, atoms, starlen=starlen):
            out = []
            guard = False
            for a in atoms:
                if a[0] in ("cmp", "rel") and a[1] == starlen and a[2] in (">=", ">", "=="):
                    guard = True
                elif a[0] == "rel" and a[3] == starlen and a[2] in ("<=", "<", "=="):
                    guard = True
            if guard:
                out.append(("ev", "lenguard"))
            return out
        F = holder["F"] = Facts.__new__(Facts)
        F.__init__(prog, g, edge_gen=edge_gen, mark_thrown=False)
        bad = []
        weak = []
        writes = 0
        unbounded = need_key == "unbounded"
        for nd in sorted((x for x in g.nodes if x.kind == "el" and not x.proto), key=lambda x: x.id):
            s = F.IN.get(nd)
            if s is None:
                continue
            if not writes_through(prog, fn, nd.el.e, bufv):
                continue
            writes += 1
            if ("ev", "lenguard") not in s:
                bad.append(nd)
                continue
            # bounded by the capacity itself: memset(buf, 0, *len)
            if any(c[1] in ("memset", "memcpy") and len(c[2]) == 3 and ir.base_var(fn, c[2][0]) == bufv and key(fn, c[2][2]) == starlen for c in ir.calls_in(fn, nd.el.e)):
                continue
            # the index of the store is itself compared with the capacity: buf[i] with i < *len in force
            idx_ok = False
            for sub in ir.walk(fn, nd.el.e):
                if sub[0] in ("=", "o="):
                    l = ir.strip_casts(sub[1] if sub[0] == "=" else sub[2])
                    if isinstance(l, list) and l[0] == "x" and ir.base_var(fn, l[1]) == bufv:
                        ik = key(fn, l[2])
                        if isinstance(ik, tuple) and ik[0] == "u" and ik[1] in ("p++", "p--"):
                            ik = ik[2]
                        for a in s:
                            if a[0] == "rel" and ((a[1] == ik and a[2] == "<" and a[3] == starlen) or (a[3] == ik and a[2] == ">" and a[1] == starlen)):
                                idx_ok = True
            if idx_ok:
                continue
            if unbounded:
                weak.append((nd, None, []))
                continue
            # a lower bound of the capacity that is still in force at the write (its operands unchanged since the test)
            need = extent.norm_poly(need_key, s)
            lbs = len_lower_bounds(s, starlen)
            if need is None:
                raise AnalysisBroken("REC-GUARD: the contract of %s cannot be normalised any more" % fn.name)
            if not any(prove_nonneg(lb - need, s) for lb in lbs):
                weak.append((nd, need, lbs))
        n += 1
        if weak and not bad:
            nd, need, lbs = weak[0]
            if need is None:
                chk.fail("REC-GUARD", fn, fn.vars[bufv]["n"] + ":bound", "the number of entries written depends on the digits produced, not on the quantity *%s was compared with, and the store `%s` is not bounded by *%s itself" % (
                    fn.vars[lenv]["n"], fn.fmt(nd.el.e)[:40], fn.vars[lenv]["n"]), line=nd.line())
            else:
                chk.fail("REC-GUARD", fn, fn.vars[bufv]["n"] + ":bound", "the test of *%s admits a buffer shorter than the %s entries the recoder writes (lower bound of *%s in force at `%s`: %s)" % (
                    fn.vars[lenv]["n"], need.fmt(fn), fn.vars[lenv]["n"], fn.fmt(nd.el.e)[:30], " | ".join(lb.fmt(fn) for lb in lbs) or "none: the compared quantity has been overwritten since the test"), line=nd.line())
            continue
        if bad:
            chk.fail("REC-GUARD", fn, fn.vars[bufv]["n"], "write through the caller's buffer is reachable without a preceding test of *%s whose failing side leaves the function: %s" % (
                fn.vars[lenv]["n"], fn.fmt(bad[0].el.e)[:80]), line=bad[0].line())
        elif writes:
            chk.ok("REC-GUARD", fn, fn.vars[bufv]["n"], "%d write(s) through the buffer, each dominated by a lower-bound test of *%s" % (writes, fn.vars[lenv]["n"]), line=fn.line)
        else:
            chk.fail("REC-GUARD", fn, fn.vars[bufv]["n"], "recoder never writes its buffer", line=fn.line)
    return n


def writes_through(prog, fn, e, var):
    for n in ir.walk(fn, e):
        t = n[0]
        if t in ("=", "o=") or (t == "u" and n[1] in ("++", "--", "p++", "p--")):
            lhs = n[1] if t == "=" else n[2]
            l = ir.strip_casts(lhs)
            if isinstance(l, list) and l[0] in ("x", "u", "m") and l != ["v", var] and ir.base_var(fn, l) == var:
                return True
        elif t == "c":
            for i, a in enumerate(n[2]):
                if ir.base_var(fn, a) == var:
                    aa = ir.strip_casts(fn.resolve(a))
                    if aa[0] == "x" or (aa[0] == "u" and aa[1] == "*"):
                        continue
                    if n[1] is None or engines.callee_writes_arg(prog, fn, n[1], i):
                        return True
    return False


# ---------------------------------------------------------------------- CAP
GROWERS = {"bn_grow": 1, "bn_make": 1, "bn_new_size": 1}     # callee -> index of the requested number of digits


def digit_stores(fn, e):
    """yield (handle key, index tree, text) for stores X->dp[E] (op)= ..."""
    for n in ir.walk(fn, e):
        t = n[0]
        if t in ("=", "o=") or (t == "u" and n[1] in ("++", "--", "p++", "p--")):
            lhs = n[1] if t == "=" else n[2]
            l = ir.strip_casts(lhs)
            if isinstance(l, list) and l[0] == "x":
                b = ir.strip_casts(fn.resolve(l[1]))
                if isinstance(b, list) and b[0] == "m" and b[2] == "dp" and b[4] in ("bn_st",):
                    yield key(fn, b[1]), l[2], fn.fmt(lhs)


def rule_cap(ctx, prog, chk):
    """CAP: after bn_grow(X, G) a digit store X->dp[E] needs E + 1 <= G.  Reported when E + 1 > G is *provable*
    (the request is definitely too small: for the largest admitted G the store lies outside the digit vector)."""
    n = 0
    for fn in prog.all:
        has_grow = has_store = False
        for el in fn.all_elements():
            for c in ir.calls_in(fn, el.e):
                if c[1] in GROWERS:
                    has_grow = True
            for _ in digit_stores(fn, el.e):
                has_store = True
        if not (has_grow and has_store):
            continue
        g = ctx.xcfg(prog, fn)

        def gen(node, s, pre):
            out = []
            for c in ir.calls_in(fn, node.el.e):
                if c[1] in GROWERS and len(c[2]) > GROWERS[c[1]]:
                    gk = key(fn, c[2][GROWERS[c[1]]])
                    if engines._pure_key(gk):
                        out.append(("capge", key(fn, c[2][0]), gk))
            return out
        F = Facts(prog, g, gen=gen, mark_thrown=False)
        for nd in g.nodes:
            if nd.kind != "el" or nd.proto:
                continue
            s = F.IN.get(nd)
            if s is None:
                continue
            for hk, idx, txt in digit_stores(fn, nd.el.e):
                caps = [a[2] for a in s if a[0] == "capge" and a[1] == hk]
                if not caps:
                    continue
                n += 1
                need = extent.norm_poly(key(fn, idx), s)
                if need is None:
                    continue
                need = need + Poly.const(1)
                verdict = None
                for ck in caps:
                    cp = extent.norm_poly(ck, s)
                    if cp is None:
                        continue
                    if prove_nonneg(cp - need, s):
                        verdict = "ok"
                        break
                    if prove_nonneg(need - cp - Poly.const(1), s):
                        verdict = ("short", cp)
                if verdict == "ok":
                    chk.ok("CAP", fn, txt, "requested capacity covers digit index %s" % fn.fmt(idx), line=nd.line())
                elif verdict is not None:
                    chk.fail("CAP", fn, txt, "digit store at index %s needs %s digits but the preceding capacity request only asks for %s: when that many are the last ones available the store lies outside the digit vector and no precision error is raised" % (
                        fn.fmt(idx), need.fmt(fn), verdict[1].fmt(fn)), line=nd.line())
                else:
                    chk._count("CAP", fn, True)
    return n


# ---------------------------------------------------------------------- COPY-IN
def rule_copy_in(ctx, prog, chk):
    """COPY-IN: dv_copy(scratch, X->dp, X->used) from a caller-supplied integer X (a const bn parameter of a public
    function) into a fixed-size local array or a stack allocation needs a dominating bound that relates X->used (or
    bn_bits(X)) to the capacity of the scratch; otherwise an operand longer than expected is copied past it."""
    n = 0
    for fn in prog.all:
        sites = set()
        for el in fn.all_elements():
            for c in ir.calls_in(fn, el.e):
                if c[1] == "dv_copy":
                    sites.add(el.id)
        if not sites or fn.static:
            continue
        g = ctx.xcfg(prog, fn)
        F = Facts(prog, g, gen=make_bits_gen(prog, fn, {}), mark_thrown=False)
        for nd in g.nodes:
            if nd.kind != "el" or nd.el.id not in sites:
                continue
            s = F.IN.get(nd)
            if s is None:
                continue
            for c in ir.calls_in(fn, nd.el.e):
                if c[1] != "dv_copy" or len(c[2]) < 3:
                    continue
                src = ir.strip_casts(fn.resolve(c[2][1]))
                cnt = ir.strip_casts(fn.resolve(c[2][2]))
                if not (isinstance(src, list) and src[0] == "m" and src[2] == "dp" and isinstance(cnt, list) and cnt[0] == "m" and cnt[2] == "used"):
                    continue
                xv = ir.base_var(fn, src)
                if xv is None or ir.base_var(fn, cnt) != xv:
                    continue
                v = fn.vars[xv]
                if v["k"] != "p" or not v.get("pc") or v.get("ot", "").replace("const ", "") != "bn_t":
                    continue
                cap = capacity(fn, s, c[2][0])
                if cap is None:
                    continue
                n += 1
                need = extent.norm_poly(key(fn, cnt), s)
                obj = "dv_copy:%s" % v["n"]
                if need is not None and prove_nonneg(cap - need, s):
                    chk.ok("COPY-IN", fn, obj, "length %s of the caller's operand is bounded by the scratch capacity %s" % (need.fmt(fn), cap.fmt(fn)), line=nd.line())
                else:
                    chk.fail("COPY-IN", fn, obj, "copies %s->used digits of the caller's operand into scratch `%s` of %s digits without any bound relating the two: a longer operand is written past the scratch" % (
                        v["n"], fn.fmt(c[2][0]), cap.fmt(fn)), line=nd.line())
    return n


# ---------------------------------------------------------------------- N0
# the array-taking (simultaneous / batch) functions of the property's quantifier: counts n >= 0
BATCH = re.compile(r"(_sim($|_)|_lag$|_evl$|^mpc_|_mxp_sim|_inv_sim$|_norm_sim$)")


def rule_n0(ctx, prog, chk):
    """N0: in a batch function with count parameter n indexing array parameters, an access to element [0] or [n-1]
    of such an array needs a dominating fact that excludes n == 0."""
    nobl = 0
    for fn in prog.all:
        if not BATCH.search(fn.name.split("__")[-1]):
            continue
        ints = [i for i in fn.params if "pc" not in fn.vars[i] and fn.vars[i]["c"] in ("int", "unsigned long", "unsigned int", "long", "size_t")]
        ptrs = [i for i in fn.params if "pc" in fn.vars[i] and re.search(r"(\(\*\)\[|\*\s*\*|\*const \*)", fn.vars[i]["c"])]
        if not ints or not ptrs:
            continue
        g = ctx.xcfg(prog, fn)
        F = Facts(prog, g, mark_thrown=True)
        # association: array parameter P is indexed by a variable i with the fact i < n
        assoc = {}
        accesses = []
        for nd in g.nodes:
            if nd.kind not in ("el", "br"):
                continue
            s = F.IN.get(nd)
            if s is None or s is engines.UNIVERSE:
                continue
            if nd.kind == "el":
                exprs = [nd.el.e]
            else:
                t = nd.info.get("term")
                exprs = [t["c"]] if t and t.get("c") is not None else []
            for e in exprs:
                for sub in ir.walk(fn, e):
                    if sub[0] != "x":
                        continue
                    b = ir.strip_casts(fn.resolve(sub[1]))
                    if not (isinstance(b, list) and b[0] == "v" and b[1] in ptrs):
                        continue
                    ik = key(fn, sub[2])
                    if ik[0] == "v":
                        for a in s:
                            if a[0] == "rel" and a[1] == ik and a[2] == "<" and a[3][0] == "v" and a[3][1] in ints:
                                assoc.setdefault(b[1], set()).add(a[3][1])
                    accesses.append((nd, s, b[1], ik, sub))
        for nd, s, pv, ik, sub in accesses:
            for nv in assoc.get(pv, ()):
                nk = ("v", nv)
                edge = None
                if ik == ("i", 0):
                    edge = "[0]"
                elif ik == ("b", "-", nk, ("i", 1)):
                    edge = "[%s - 1]" % fn.vars[nv]["n"]
                if edge is None:
                    continue
                nobl += 1
                ok = any(a[0] == "cmp" and a[1] == nk and engines.entails(a[2], a[3], "!=", 0) for a in s)
                # inside a loop over the array the bound itself excludes n == 0
                ok = ok or any(a[0] == "rel" and a[3] == nk and a[2] == "<" for a in s)
                obj = "%s%s" % (fn.vars[pv]["n"], edge)
                if ok:
                    chk.ok("N0", fn, obj, "dominated by a fact excluding %s == 0" % fn.vars[nv]["n"], line=nd.line())
                else:
                    chk.fail("N0", fn, obj, "element %s of the array parameter is accessed although the count %s may be 0 (no preceding test, no enclosing loop over the array)" % (
                        edge, fn.vars[nv]["n"]), line=nd.line())
    return nobl


# ---------------------------------------------------------------------- DIV0
# reviewed divisors that are parameters without a zero test in the function itself (one reason each)
DIV_REVIEWED = {
    ("bench_compute", "benches"): "number of benchmark runs, a positive build-time constant (BENCH)",
    ("bn_rec_win", "w"): "window width in bits: every caller passes a constant >= 1 (RLC_WIDTH, 2, RLC_DEPTH)",
}


def rule_div0(ctx, prog, chk):
    """DIV0: in a public (non-static, not src/low) function a division or remainder by one of its own scalar
    parameters is dominated by a fact that excludes zero (comparison, or a valid_*() predicate on it)."""
    n = 0
    for fn in prog.all:
        if fn.static or "/low/" in fn.rfile or fn.rfile.startswith("src/low"):
            continue
        pset = set(i for i in fn.params if "pc" not in fn.vars[i])
        sites = {}
        for el in fn.all_elements():
            for nd in ir.walk(fn, el.e):
                d = None
                if nd[0] == "b" and nd[1] in ("/", "%"):
                    d = nd[3]
                elif nd[0] == "o=" and nd[1] in ("/=", "%="):
                    d = nd[3]
                if d is None:
                    continue
                d = ir.peel(fn, d)
                if isinstance(d, list) and d[0] == "v" and d[1] in pset:
                    sites.setdefault(el.id, set()).add(d[1])
        if not sites:
            continue
        g = ctx.xcfg(prog, fn)
        F = Facts(prog, g, mark_thrown=True)
        done = set()
        for node in g.nodes:
            if node.kind != "el" or node.el.id not in sites:
                continue
            s = F.IN.get(node)
            if s is None or s is engines.UNIVERSE:
                continue
            for pv in sites[node.el.id]:
                if (node.el.id, pv) in done:
                    continue
                done.add((node.el.id, pv))
                n += 1
                k = ("v", pv)
                name = fn.vars[pv]["n"]
                ok = any(a[0] == "cmp" and a[1] == k and engines.entails(a[2], a[3], "!=", 0) for a in s)
                ok = ok or any(a[0] == "cmp" and isinstance(a[1], tuple) and a[1][0] == "c" and isinstance(a[1][1], str) and a[1][1].startswith("valid_")
                               and k in a[1][2] and engines.entails(a[2], a[3], "!=", 0) for a in s)
                if ok:
                    chk.ok("DIV0", fn, name, "division by `%s` dominated by a test excluding zero" % name, line=node.line())
                elif (fn.name.split("__")[-1], name) in DIV_REVIEWED:
                    chk.ok("DIV0", fn, name, "reviewed: " + DIV_REVIEWED[(fn.name.split("__")[-1], name)], line=node.line())
                else:
                    chk.fail("DIV0", fn, name, "division or remainder by the parameter `%s` without a preceding test that it is not zero: a zero argument is a hardware divide error instead of an invalid-value error" % name, line=node.line())
    return n


# ---------------------------------------------------------------------- entry points
# ---------------------------------------------------------------------- SHIFT-WIDEN
DIGIT_TYPES = re.compile(r"\b(dig_t|dbl_t|uint64_t|sig_t)\b")


def rule_shift_widen(ctx, prog, chk):
    """SHIFT-WIDEN: a shift whose left operand is a plain int constant (`1 << i`) is computed in 32 bits whatever it is
    assigned to.  Where the result initialises or is assigned to a digit-typed variable (dig_t, dbl_t, uint64_t) and the
    amount is not a constant below 31, bit positions 31..63 are undefined behaviour / lost: the mask must be built in the
    digit type ((dig_t)1 << i)"""
    n = 0
    for fn in prog.all:
        for el in fn.all_elements():
            for sub in ir.walk(fn, el.e):
                tgt = rhs = None
                if sub[0] == "d" and sub[2] is not None:
                    tgt, rhs = sub[1], sub[2]
                elif sub[0] == "=" and ir.strip_casts(sub[1])[0] == "v":
                    tgt, rhs = ir.strip_casts(sub[1])[1], sub[2]
                if tgt is None:
                    continue
                r0 = fn.resolve(rhs)
                while isinstance(r0, list) and r0 and r0[0] == "k":
                    r0 = fn.resolve(r0[2])
                if not (isinstance(r0, list) and r0 and r0[0] == "b" and r0[1] == "<<"):
                    continue
                l = r0[2]
                if not (isinstance(l, list) and l[0] == "i" and (len(l) < 3 or re.match(r"^\d+$", str(l[2])))):
                    continue
                amt = ir.peel(fn, r0[3])
                if isinstance(amt, list) and amt[0] == "i" and isinstance(amt[1], int) and amt[1] < 31:
                    continue
                n += 1
                v = fn.vars[tgt]
                if DIGIT_TYPES.search(v.get("t") or ""):
                    chk.fail("SHIFT-WIDEN", fn, v["n"], "`%s` is computed in int and only then widened to %s `%s`: for amounts of 31 and more the bit is lost (undefined behaviour), "
                             "so digits with bits above 31 are handled wrongly" % (fn.fmt(r0)[:30], (v.get("t") or "").replace("const ", ""), v["n"]), line=el.line)
                else:
                    chk.ok("SHIFT-WIDEN", fn, v["n"], "int shift kept in a counter / index type", line=el.line)
        # second clause: a mask built in 32 bits (`1 << i`, or a 32-bit variable holding such a shift) tests a bit of a digit
        narrow_vars = {}
        for el in fn.all_elements():
            for sub in ir.walk(fn, el.e):
                tgt = rhs = None
                if sub[0] == "d" and sub[2] is not None:
                    tgt, rhs = sub[1], sub[2]
                elif sub[0] == "=" and ir.strip_casts(sub[1])[0] == "v":
                    tgt, rhs = ir.strip_casts(sub[1])[1], sub[2]
                if tgt is not None and _int_shift(fn, rhs) and (fn.vars[tgt].get("sz") or 8) <= 4 and "pc" not in fn.vars[tgt]:
                    narrow_vars[tgt] = el.line
        for el in fn.all_elements():
            for sub in ir.walk(fn, el.e):
                if not (sub[0] == "b" and sub[1] == "&"):
                    continue
                for m, o in ((sub[2], sub[3]), (sub[3], sub[2])):
                    m0 = fn.resolve(m)
                    mv = m0 if isinstance(m0, list) and m0 and m0[0] == "v" else None
                    is_mask = _int_shift(fn, m) or (mv is not None and mv[1] in narrow_vars)
                    if not is_mask:
                        continue
                    ob = ir.base_var(fn, o)
                    if ob is None or not DIGIT_TYPES.search(fn.vars[ob].get("t") or ""):
                        continue
                    n += 1
                    chk.fail("SHIFT-WIDEN", fn, fn.fmt(m)[:24], "the bit of the digit `%s` is selected with `%s`, a mask computed in 32 bits: bits 31..63 of the digit are never seen (or the shift is undefined), so digits of 2^31 and more are handled wrongly" % (
                        fn.fmt(o)[:24], fn.fmt(m)[:30]), line=el.line)
    return n


def _int_shift(fn, e):
    """`C << i` with C a plain int / unsigned constant and i not a constant below 31, no explicit cast around the constant"""
    r0 = fn.resolve(e)
    if not (isinstance(r0, list) and r0 and r0[0] == "b" and r0[1] == "<<"):
        return False
    l = r0[2]
    if not (isinstance(l, list) and l[0] == "i" and (len(l) < 3 or re.match(r"^\d+[uU]?$", str(l[2])))):
        return False
    amt = ir.peel(fn, r0[3])
    if isinstance(amt, list) and amt[0] == "i" and isinstance(amt[1], int) and amt[1] < 31:
        return False
    return True


# ---------------------------------------------------------------------- REALLOC-KEEP
def rule_realloc(ctx, prog, chk):
    """the result of realloc is not stored over its own argument: when the reallocation fails the object keeps a null
    pointer (and the old block leaks) although the failure is reported as recoverable"""
    n = 0
    for fn in prog.all:
        for el in fn.all_elements():
            for sub in ir.walk(fn, el.e):
                if sub[0] != "=":
                    continue
                r = ir.peel(fn, sub[2])
                if isinstance(r, list) and r and r[0] == "c" and r[1] == "realloc" and r[2]:
                    n += 1
                    if key(fn, sub[1]) == key(fn, r[2][0]):
                        chk.fail("REALLOC-KEEP", fn, fn.fmt(sub[1])[:30], "`%s` stores the result of realloc over the pointer that was reallocated: on failure the object is left with a null pointer "
                                 "although ERR_NO_MEMORY is reported as recoverable" % fn.fmt(sub)[:60], line=el.line)
                    else:
                        chk.ok("REALLOC-KEEP", fn, fn.fmt(sub[1])[:30], "result kept in a temporary until tested", line=el.line)
    return n


def analyse(ctx, prog, chk, dyn=False):
    chk.used_program(prog)
    chk.assumptions = ["symbols in extent proofs denote non-negative quantities (sizes, counts, indices, bit lengths)",
                       "distinct local handles do not alias (RELIC never aliases temporaries)"]
    out = {}
    if dyn:
        from . import c08_typestate
        out["typestate"] = c08_typestate.rule_typestate(ctx, prog, chk)
        out["realloc"] = rule_realloc(ctx, prog, chk)
    if not dyn:
        out["buf_len"] = rule_buf_len(ctx, prog, chk)
        out["rec_guard"] = rule_rec_guard(ctx, prog, chk)
        out["cap"] = rule_cap(ctx, prog, chk)
        out["copy_in"] = rule_copy_in(ctx, prog, chk)
        out["n0"] = rule_n0(ctx, prog, chk)
        out["div0"] = rule_div0(ctx, prog, chk)
        from . import c08_wrap, c08_wguard, c08_empty
        out["empty"] = c08_empty.analyse(ctx, prog, chk)
        out["shift"] = rule_shift_widen(ctx, prog, chk)
        out["wrap"] = c08_wrap.analyse(ctx, prog, chk)
        out["ceil"] = c08_wrap.rule_ceil_zero(ctx, prog, chk)
        out["wguard"] = c08_wguard.analyse(ctx, prog, chk)
        from . import c08_range
        out["grange"] = c08_range.rule_guard_range(ctx, prog, chk)
        out["gfirst"] = c08_range.rule_grow_first(ctx, prog, chk)
        out["wfit"] = c08_range.rule_window_fit(ctx, prog, chk)
    return out


def selfcheck(ctx, prog, chk):
    analyse(ctx, prog, chk, dyn=prog.config.endswith("DYN"))


def run(ctx, chk):
    base = ctx.program("BASE")
    c = analyse(ctx, base, chk)
    chk.floor("BUF-LEN", "recoder call sites (BASE)", c["buf_len"], 150)
    chk.floor("REC-GUARD", "recoders", c["rec_guard"], 8)
    chk.floor("CAP", "digit stores after a capacity request", c["cap"], 10)
    chk.floor("N0", "element [0]/[n-1] accesses in batch functions", c["n0"], 20)
    d = analyse(ctx, ctx.program("DYN"), chk, dyn=True)
    chk.floor("TYPESTATE", "handle variables (DYN)", d["typestate"], 1500)
    chk.floor("REALLOC-KEEP", "reallocations (DYN)", d["realloc"], 1)
    chk.floor("SHIFT-WIDEN", "int shifts assigned to variables (BASE)", c["shift"], 5)
    chk.floor("REC-EMPTY", "accesses to the top digit of a recoding (BASE)", c["empty"], 4)
    chk.floor("CEIL-ZERO", "RLC_CEIL of unsigned quantities (BASE)", c["ceil"], 15)
    chk.floor("WRAP", "unsigned subtractions in conditions (BASE)", c["wrap"], 20)
    chk.floor("WRITE-GUARD", "writes through caller buffers with a capacity (BASE)", c["wguard"], 120)
    chk.floor("GUARD-RANGE", "comparisons of integer variables with constants (BASE)", c["grange"], 3000)
    chk.floor("WINDOW-FIT", "tables filled by a loop over 1 << (w - k) with constant window choices (BASE)", c["wfit"], 10)
    chk.floor("GROW-FIRST", "digit-count stores in functions that request capacity (BASE)", c["gfirst"], 10)
    if chk.tier == "thorough":
        for cfg in ("P255", "P381"):
            analyse(ctx, ctx.program(cfg), chk)
