"""C08 — no call reads or writes outside its objects; overflow is reported, not performed.

Structural necessary conditions, each of which when violated gives a concrete
out-of-bounds access or use of an invalid handle (DESIGN.md section 3, C08):
  BUF-LEN     at every call of a scalar recoder the length handed in times the row factor fits the buffer handed in
  REC-GUARD   inside each recoder every write through the buffer is preceded by a comparison of *len whose failing side leaves
  WRAP        an unsigned subtraction that bounds a loop or a comparison cannot wrap
  CAP         a digit store into a multiple-precision integer is preceded by a capacity request that covers the index
  CAP-EFF     a capacity refusal that can trigger cannot fall through into the digit writes it guards
  COPY-BOUND  copies into local arrays / stack allocations fit them
  TYPESTATE   (DYNAMIC allocation) no handle is tested/freed/used while possibly uninitialised; stack allocations are NULL-tested
  N0          batch functions do not touch element [0] / [n-1] when n may be 0
"""
import re

from .. import ir, engines, extent
from ..engines import Facts, key
from ..extent import Poly, poly, prove_nonneg
from ..facts import AnalysisBroken

EXPLANATION = (
    "Static decision of structural necessary conditions of memory safety over every function of the library (BASE and "
    "DYNAMIC-allocation configurations): forward must-dataflow with branch/assignment atoms over the exploded CFG "
    "(exceptional edges of the TRY protocol included) plus a small symbolic extent prover (polynomials over non-negative "
    "symbols with loop-index upper bounds). Decides: recoder buffers fit the lengths handed in (BUF-LEN), recoders refuse "
    "short buffers before the first write (REC-GUARD), unsigned loop bounds cannot wrap (WRAP), digit stores are covered by "
    "the preceding capacity request (CAP), capacity refusals cannot fall through into the writes they guard (CAP-EFF), "
    "copies into local buffers fit (COPY-BOUND), and under DYNAMIC allocation no handle is used, tested or freed while "
    "possibly uninitialised on any path including every allocation-failure edge (TYPESTATE). Does not decide the absence of "
    "all undefined behaviour: loops whose bounds depend on ->used of operands are not bounded. Nothing of RELIC is executed.")

SELFTEST_CONFIGS = ["BASE", "DYN"]

# recoder contracts: callee -> (buffer argument, length argument (pointer), row-factor argument or None)
RECODERS = {
    "bn_rec_win": (0, 1, None), "bn_rec_slw": (0, 1, None), "bn_rec_naf": (0, 1, None), "bn_rec_tnaf": (0, 1, None),
    "bn_rec_rtnaf": (0, 1, None), "bn_rec_reg": (0, 1, None), "bn_rec_jsf": (0, 1, None),
    "bn_rec_sac": (0, 1, 5),      # writes m rows of *len entries
}
ALLOCATORS = ("alloca", "__builtin_alloca", "_alloca", "malloc", "calloc")


# ---------------------------------------------------------------------- capacities
def prod(xs):
    p = 1
    for x in xs:
        p *= x
    return p


def alloc_elems(fn, rk, esz):
    """number of elements allocated by an allocator call key, as Poly"""
    if not (isinstance(rk, tuple) and rk[0] == "c" and rk[1] in ALLOCATORS):
        return None
    args = rk[2]
    if rk[1] == "calloc" and len(args) == 2:
        a, b = poly(args[0]), poly(args[1])
        if a is None or b is None:
            return None
        total = a * b
    elif args:
        total = poly(args[0])
    else:
        return None
    if total is None:
        return None
    if esz in (None, 0):
        return None
    if esz == 1:
        return total
    if all(v % esz == 0 for v in total.t.values()):
        return Poly({k: v // esz for k, v in total.t.items()})
    return None


def pointee_size(v):
    """element size of a pointer/array variable from its type string (bytes)"""
    if "esz" in v:
        return v["esz"]
    c = v["c"]
    m = re.match(r"^(const )?(unsigned |signed )?(char)\b", c)
    if m:
        return 1
    if re.match(r"^(const )?(unsigned long|long|unsigned long long|long long)\b", c) and c.rstrip().endswith("*"):
        return 8
    if re.match(r"^(const )?(unsigned int|int)\b", c) and c.rstrip().endswith("*"):
        return 4
    return None


def capacity(fn, facts, e, depth=0):
    """capacity, in elements, of the object the pointer expression `e` points
    into, counted from where it points (Poly), or None if unknown"""
    e = ir.strip_casts(fn.resolve(e))
    if not isinstance(e, list) or depth > 6:
        return None
    t = e[0]
    if t == "v":
        v = fn.vars[e[1]]
        if "dims" in v and v["k"] != "p":
            return Poly.const(prod(v["dims"]))
        # local pointer assigned from an allocator
        for a in facts:
            if a[0] == "alloc" and a[1] == ("v", e[1]):
                n = alloc_elems(fn, a[2], pointee_size(v))
                if n is not None:
                    return n
        return None
    if t == "x":
        base = ir.strip_casts(fn.resolve(e[1]))
        if base[0] == "v":
            v = fn.vars[base[1]]
            if "dims" in v and len(v["dims"]) >= 2 and v["k"] != "p":
                return Poly.const(prod(v["dims"][1:]))
        if base[0] == "x":
            b2 = ir.strip_casts(fn.resolve(base[1]))
            if b2[0] == "v":
                v = fn.vars[b2[1]]
                if "dims" in v and len(v["dims"]) >= 3:
                    return Poly.const(prod(v["dims"][2:]))
        return None
    if t == "u" and e[1] == "&":
        x = ir.strip_casts(fn.resolve(e[2]))
        if x[0] == "x":
            base = capacity(fn, facts, x[1], depth + 1)
            off = poly(key(fn, x[2]))
            if base is None or off is None:
                return None
            return base - off
        return None
    if t == "b" and e[1] == "+":
        base = capacity(fn, facts, e[2], depth + 1)
        off = poly(key(fn, e[3]))
        if base is None:
            base = capacity(fn, facts, e[3], depth + 1)
            off = poly(key(fn, e[2]))
        if base is None or off is None:
            return None
        return base - off
    if t == "m" and not e[3]:
        return None
    return None


def value_of(fn, facts, k):
    """Poly for the current value of lvalue key k"""
    eq = extent.equalities(facts)
    if k in eq:
        return extent._apply_eq(eq[k], eq)
    return poly(k, 0, eq)


# ---------------------------------------------------------------------- bit-length bounds of library-held quantities
# functions that store a group order / curve parameter of the active configuration into their first argument;
# such values have at most RLC_FP_BITS (resp. RLC_FB_BITS) bits: they are bounded by the field characteristic
# (Hasse) or are the small integer the family polynomials are evaluated at.
ORD_GETTERS_FP = {"ep_curve_get_ord", "ep2_curve_get_ord", "ep3_curve_get_ord", "ep4_curve_get_ord", "ep8_curve_get_ord",
                  "ed_curve_get_ord", "fp_prime_get_par", "pc_get_ord"}
ORD_GETTERS_FB = {"eb_curve_get_ord"}
BN_MOD = re.compile(r"^bn_mod_(basic|barrt|monty|pmers|imp)$")


def bits_key(vk):
    return ("c", "bn_bits", (vk,))


SMALL_ARITH = {"bn_mul_dig", "bn_add_dig", "bn_sub_dig", "bn_dbl", "bn_sqr_basic", "bn_sqr_comba", "bn_sqr_karat"}
# public installers whose integer argument is by contract a built-in curve parameter, never an API input of a
# computation (every tabulated value is evaluated under C18)
PARAM_ARGS = {("fp_prime_set_pairf", "x"): "the integer the pairing-family polynomials are evaluated at; installers are only "
              "called with the tabulated parameters"}


def make_bits_gen(prog, fn, holder):
    fp_bits = conf_bits(prog, "FP_PRIME")
    fb_bits = conf_bits(prog, "FB_POLYN")

    def bound_of(s, vk):
        best = None
        for a in s:
            if a[0] == "cmp" and a[1] == bits_key(vk) and a[2] in ("<=", "<", "=="):
                c = a[3] - 1 if a[2] == "<" else a[3]
                if best is None or c < best:
                    best = c
        return best

    def gen(node, s, pre):
        out = []
        e = node.el.e
        for c in ir.calls_in(fn, e):
            name = c[1]
            if not name or not c[2]:
                continue
            a0 = key(fn, c[2][0])
            if name in ORD_GETTERS_FP and fp_bits:
                out.append(("cmp", bits_key(a0), "<=", fp_bits))
                out.append(("ev", "libparam", a0))
            elif name in ORD_GETTERS_FB and fb_bits:
                out.append(("cmp", bits_key(a0), "<=", fb_bits + 1))
                out.append(("ev", "libparam", a0))
            elif BN_MOD.match(name) and len(c[2]) >= 3:
                b = bound_of(pre, key(fn, c[2][2]))
                if b is not None:
                    out.append(("cmp", bits_key(a0), "<=", b))
            elif name in ("bn_abs", "bn_copy", "bn_neg", "bn_hlv", "bn_rsh") and len(c[2]) >= 2:
                b = bound_of(pre, key(fn, c[2][1]))
                if b is not None:
                    out.append(("cmp", bits_key(a0), "<=", b))
                if ("ev", "libparam", key(fn, c[2][1])) in pre:
                    out.append(("ev", "libparam", a0))
            elif name in SMALL_ARITH and len(c[2]) >= 2:
                # small-constant arithmetic on a library parameter stays a library parameter
                if ("ev", "libparam", key(fn, c[2][1])) in pre:
                    out.append(("ev", "libparam", a0))
            elif name == "bn_rec_glv" and len(c[2]) >= 4:
                b = bound_of(pre, key(fn, c[2][3]))
                if b is not None:
                    out.append(("cmp", bits_key(a0), "<=", b))
                    out.append(("cmp", bits_key(key(fn, c[2][1])), "<=", b))
        # an integer assigned an expression with a constant upper bound keeps that bound
        # after the operands change (n = bn_bits(m); bn_abs(m, k); ...)
        for a in engines.assignment_atoms(fn, e):
            if a[0] == "rel" and a[2] == "==":
                ub = extent.const_upper(poly(a[3], 0, extent.equalities(s)), s | frozenset(out))
                if ub is not None:
                    out.append(("cmp", a[1], "<=", ub))
        return out
    return gen


def conf_bits(prog, name):
    m = re.search(r"^#define\s+%s\s+(\d+)" % name, prog.data["conf_h"], re.M)
    return int(m.group(1)) if m else None


# ---------------------------------------------------------------------- BUF-LEN
def rule_buf_len(ctx, prog, chk):
    n = 0
    for fn in prog.all:
        sites = []
        for el in fn.all_elements():
            for c in ir.calls_in(fn, el.e):
                if c[1] in RECODERS:
                    sites.append(el.id)
        if not sites:
            continue
        g = ctx.xcfg(prog, fn)
        holder = {}
        F = holder["F"] = Facts(prog, g, gen=make_bits_gen(prog, fn, holder))
        ordinal = {}
        for nd in g.nodes:
            if nd.kind != "el" or nd.el.id not in sites:
                continue
            s = F.IN.get(nd)
            if s is None or s is engines.UNIVERSE:
                continue
            for c in ir.calls_in(fn, nd.el.e):
                if c[1] not in RECODERS:
                    continue
                bi, li, mi = RECODERS[c[1]]
                o = ordinal.get((c[1], nd.el.id))
                if o is None:
                    o = ordinal[(c[1], nd.el.id)] = len(set(k for k in ordinal if k[0] == c[1]))
                obj = "%s#%d" % (c[1], o)
                n += 1
                buf = c[2][bi]
                la = ir.strip_casts(fn.resolve(c[2][li]))
                cap = capacity(fn, s, buf)
                if la[0] == "u" and la[1] == "&":
                    need = value_of(fn, s, key(fn, la[2]))
                elif la[0] == "v":
                    # the caller's own in/out length pointer handed on: obligation moves to the callers
                    chk.note("BUF-LEN: %s hands its own length pointer to %s; obligation lies with its callers" % (fn.name, c[1]))
                    continue
                else:
                    need = None
                if mi is not None and need is not None:
                    m = poly(key(fn, c[2][mi]), 0, extent.equalities(s))
                    need = need * m if m is not None else None
                if cap is None or need is None:
                    chk.fail("BUF-LEN", fn, obj, "cannot relate the length handed to %s (%s) to the capacity of its buffer (%s)" % (
                        c[1], fn.fmt(c[2][li]), fn.fmt(buf)), line=nd.line())
                    continue
                if prove_nonneg(cap - need, s):
                    chk.ok("BUF-LEN", fn, obj, "capacity %s >= length %s" % (cap.fmt(fn), need.fmt(fn)), line=nd.line())
                    continue
                # lengths of library-held parameters (not API inputs) are outside this rule
                exempt = libparam_exempt(ctx, prog, fn, s, cap - need)
                if exempt:
                    chk.ok("BUF-LEN", fn, obj, "length %s depends only on the bit length of a built-in parameter (%s): not an API input" % (need.fmt(fn), exempt), line=nd.line())
                else:
                    chk.fail("BUF-LEN", fn, obj, "%s is told its buffer `%s` holds %s entries but the buffer holds %s: the recoder's own length test cannot protect it" % (
                        c[1], fn.fmt(buf), need.fmt(fn), cap.fmt(fn)), line=nd.line(),
                        trace=["facts: " + ", ".join(sorted(engines.fmt_atom(fn, a) for a in s))[:400]])
    return n


def libparam_exempt(ctx, prog, fn, s, diff):
    """if cap - need >= 0 is provable once every bn_bits(X) with X a built-in
    parameter is taken as 0, and at least one such symbol occurs, return a
    description of those parameters; else None"""
    syms = [x for x in diff.symbols() if isinstance(x, tuple) and x[0] == "c" and x[1] == "bn_bits"]
    if not syms:
        return None
    names = []
    p = diff
    for sy in syms:
        vk = sy[2][0]
        if ("ev", "libparam", vk) in s:
            names.append(engines.fmt_key(fn, vk))
        elif vk[0] == "v" and fn.vars[vk[1]]["k"] == "p":
            pname = fn.vars[vk[1]]["n"]
            if (fn.name, pname) in PARAM_ARGS:
                names.append("%s: %s" % (pname, PARAM_ARGS[(fn.name, pname)][:60]))
            elif fn.static and callers_pass_libparam(ctx, prog, fn, vk[1]):
                names.append("%s (every caller passes a built-in parameter)" % pname)
            else:
                return None
        else:
            return None
        p = p.subst(sy, Poly.const(0))
    if prove_nonneg(p, s):
        return ", ".join(names)
    return None


def callers_pass_libparam(ctx, prog, fn, pvar):
    pos = fn.params.index(pvar)
    found = 0
    for caller in prog.by_unit(fn.unit_src):
        sites = [el for el in caller.all_elements() if any(c[1] == fn.name for c in ir.calls_in(caller, el.e))]
        if not sites:
            continue
        g = ctx.xcfg(prog, caller)
        holder = {}
        F = holder["F"] = Facts(prog, g, gen=make_bits_gen(prog, caller, holder))
        ids = set(el.id for el in sites)
        for nd in g.nodes:
            if nd.kind != "el" or nd.el.id not in ids:
                continue
            st = F.IN.get(nd)
            if st is None or st is engines.UNIVERSE:
                continue
            for c in ir.calls_in(caller, nd.el.e):
                if c[1] != fn.name or pos >= len(c[2]):
                    continue
                found += 1
                if ("ev", "libparam", key(caller, c[2][pos])) not in st:
                    return False
    return found > 0


# ---------------------------------------------------------------------- REC-GUARD
def rule_rec_guard(ctx, prog, chk):
    n = 0
    for fn in prog.all:
        base = fn.name.split("__")[-1]
        if base not in RECODERS:
            continue
        bi, li, _ = RECODERS[base]
        if len(fn.params) <= max(bi, li):
            continue
        bufv, lenv = fn.params[bi], fn.params[li]
        starlen = ("u", "*", ("v", lenv))
        g = ctx.xcfg(prog, fn)

        def edge_gen(node, label, atoms, starlen=starlen):
            out = []
            for a in atoms:
                if a[0] in ("cmp", "rel") and a[1] == starlen and a[2] in (">=", ">", "=="):
                    out.append(("ev", "lenguard"))
                elif a[0] == "rel" and a[3] == starlen and a[2] in ("<=", "<", "=="):
                    out.append(("ev", "lenguard"))
            return out
        F = Facts(prog, g, edge_gen=edge_gen, mark_thrown=False)
        bad = []
        writes = 0
        for nd in g.nodes:
            if nd.kind != "el" or nd.proto:
                continue
            s = F.IN.get(nd)
            if s is None:
                continue
            if not writes_through(prog, fn, nd.el.e, bufv):
                continue
            writes += 1
            if ("ev", "lenguard") not in s:
                bad.append(nd)
        n += 1
        if bad:
            chk.fail("REC-GUARD", fn, fn.vars[bufv]["n"], "write through the caller's buffer is reachable without a preceding test of *%s whose failing side leaves the function: %s" % (
                fn.vars[lenv]["n"], fn.fmt(bad[0].el.e)[:80]), line=bad[0].line())
        elif writes:
            chk.ok("REC-GUARD", fn, fn.vars[bufv]["n"], "%d write(s) through the buffer, each dominated by a lower-bound test of *%s" % (writes, fn.vars[lenv]["n"]), line=fn.line)
        else:
            chk.fail("REC-GUARD", fn, fn.vars[bufv]["n"], "recoder never writes its buffer", line=fn.line)
    return n


def writes_through(prog, fn, e, var):
    for n in ir.walk(fn, e):
        t = n[0]
        if t in ("=", "o=") or (t == "u" and n[1] in ("++", "--", "p++", "p--")):
            lhs = n[1] if t == "=" else n[2]
            l = ir.strip_casts(lhs)
            if isinstance(l, list) and l[0] in ("x", "u", "m") and l != ["v", var] and ir.base_var(fn, l) == var:
                return True
        elif t == "c":
            for i, a in enumerate(n[2]):
                if ir.base_var(fn, a) == var:
                    aa = ir.strip_casts(fn.resolve(a))
                    if aa[0] == "x" or (aa[0] == "u" and aa[1] == "*"):
                        continue
                    if n[1] is None or engines.callee_writes_arg(prog, fn, n[1], i):
                        return True
    return False


# ---------------------------------------------------------------------- entry points
def analyse(ctx, prog, chk, dyn=False):
    chk.used_program(prog)
    chk.assumptions = ["symbols in extent proofs denote non-negative quantities (sizes, counts, indices, bit lengths)",
                       "distinct local handles do not alias (RELIC never aliases temporaries)"]
    out = {}
    if not dyn:
        out["buf_len"] = rule_buf_len(ctx, prog, chk)
        out["rec_guard"] = rule_rec_guard(ctx, prog, chk)
    return out


def selfcheck(ctx, prog, chk):
    analyse(ctx, prog, chk, dyn=prog.config.endswith("DYN"))


def run(ctx, chk):
    base = ctx.program("BASE")
    c = analyse(ctx, base, chk)
    chk.floor("BUF-LEN", "recoder call sites (BASE)", c["buf_len"], 150)
    chk.floor("REC-GUARD", "recoders", c["rec_guard"], 8)
