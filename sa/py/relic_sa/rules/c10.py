"""C10 — structural clauses of the extension-field towers.

  EXP-SIB   every exponentiation sibling of the towers (generic, cyclotomic, sparse, simultaneous; 40 functions) consults the
            sign of each exponent parameter on every path that returns a power, or hands that exponent to a sibling, and a
            sibling that tells the zero exponent apart answers one ("all exponents incl. 0, negative")
  ALIAS-RW  no component of an input element is read in a later statement than a write of an overlapping component of an
            output element of the same type (component paths through the tower, loop indices symbolic)
  CONST-IN  no function of the module stores through a parameter it declares const
"""
import re

from .. import expsib, alias, outfull
from ..facts import AnalysisBroken
from . import c02

EXPLANATION = (
    "Static decision of three structural clauses of C10 over src/fpx under the 256- and 381-bit configuration headers (all "
    "towers compile in every configuration, the suite runs those of one curve): forward must-dataflow shows that every one of "
    "the 40 exponentiation siblings honours the sign of each exponent parameter (this is how the copy-and-paste sign test of "
    "fp12_exp_cyc_sim was found) and answers one for a zero exponent it tells apart; a may-analysis over component paths shows "
    "that no input component is read after an overlapping output component was written in an earlier statement, i.e. that "
    "results do not depend on the output being one of the inputs as far as statement order shows; parameter-write summaries "
    "show that const inputs are not written. That the operations agree with polynomial arithmetic modulo the tower's defining "
    "polynomials - every value clause of the property - is not decided. Nothing of RELIC is executed.")

EXP = re.compile(r"^fp\d+_exp(_\w+)?$")
ALIAS_OK = {
    ("fp3_srt", "c", "a", (), "fp3_cmp"): "default arm of the p mod 8 switch (no algorithm): the candidate is never assigned there and the verdict is 0 with or without aliasing",
}
SIM = re.compile(r"^fp\d+_(inv|back_cyc)_sim$")


def family(prog):
    return [fn for fn in prog.all if EXP.match(fn.name.split("__")[-1]) and (fn.rfile.startswith("src/fpx/") or "selftest" in fn.file)]


def analyse(ctx, prog, chk):
    chk.used_program(prog)
    fam = family(prog)
    ne = expsib.rule(ctx, prog, chk, fam, re.compile(r"^fp\d+_set_dig$"))
    nb = expsib.rule_loop_bits(ctx, prog, chk, fam)
    na, used = alias.rule(ctx, prog, chk, lambda fn: fn.rfile.startswith(("src/fpx/", "src/low/easy/relic_fpx")), ALIAS_OK)
    nc = c02.rule_const_in(ctx, prog, chk, prefix=("src/fpx/", "src/low/easy/relic_fpx"))
    nf = outfull.rule(ctx, prog, chk, lambda fn: fn.rfile.startswith(("src/fpx/", "src/low/easy/relic_fpx")))
    return {"exp": ne, "siblings": len(fam), "alias": na, "const": nc, "bits": nb, "full": nf}


def selfcheck(ctx, prog, chk):
    analyse(ctx, prog, chk)


def run(ctx, chk):
    c = analyse(ctx, ctx.program("BASE"), chk)
    chk.floor("EXP-SIB", "exponentiation siblings of the towers", c["siblings"], 35)
    chk.floor("ALIAS-RW", "output/input pairs of the same tower type", c["alias"], 300)
    chk.floor("LOOP-BITS", "bit scans of exponents", c["bits"], 10)
    chk.floor("CONST-IN", "const pointer parameters of the module", c["const"], 400)
    chk.floor("OUT-FULL", "tower outputs written component by component", c["full"], 200)
    analyse(ctx, ctx.program("P381"), chk)
    if chk.tier == "thorough":
        # the field sizes whose pairing curves select the cubic, quartic and octic twists
        from .. import facts
        from ..facts import AnalysisBroken
        for bits in (315, 330, 354, 575, 638):
            name = "P%d" % bits
            facts.CONFIGS.setdefault(name, ["-DFP_PRIME=%d" % bits] + (["-DBN_PRECI=%d" % (2 * bits + 64)] if bits > 512 else []))
            try:
                analyse(ctx, ctx.program(name), chk)
            except AnalysisBroken as e:
                chk.note("thorough: configuration %s: %s" % (name, str(e)[:160]))
            ctx._prog.pop(name, None)
