"""REC-EMPTY (C08, "scalars that reduce to zero ... inside recodings"): the (w-)NAF / tau-NAF / window recoding of zero is
empty (*len = 0).  An access buf[len - 1] to the most significant digit of a recoding is therefore preceded, on every
path, by a test that the *recoded* integer is not zero (or that len is positive) - in the function itself, or, when the
recoded integer is a parameter of a static helper, at every call of the helper for the integer handed in.  A zero test
of the scalar *before* its reduction modulo the group order does not count: k = n passes it and reduces to zero."""
import re

from .. import ir, engines
from ..engines import Facts, key
from ..facts import AnalysisBroken

# recoders whose output is empty for a zero input: name -> (buffer argument, length argument, scalar argument)
EMPTY_FOR_ZERO = {"bn_rec_naf": (0, 1, 2), "bn_rec_tnaf": (0, 1, 2), "bn_rec_win": (0, 1, 2), "bn_rec_slw": (0, 1, 2)}


def nonzero_in(st, k):
    return any(a[0] == "cmp" and a[1] == ("c", "bn_is_zero", (k,)) and engines.entails(a[2], a[3], "==", 0) for a in st)


def analyse(ctx, prog, chk):
    n = 0
    callers = {}
    for fn in prog.all:
        for el in fn.all_elements():
            for c in ir.calls_in(fn, el.e):
                if isinstance(c[1], str):
                    callers.setdefault(c[1], set()).add(fn)
    for fn in prog.all:
        recs = []
        for el in fn.all_elements():
            for c in ir.calls_in(fn, el.e):
                if c[1] in EMPTY_FOR_ZERO and len(c[2]) > 2:
                    bi, li, ki = EMPTY_FOR_ZERO[c[1]]
                    b, l = ir.base_var(fn, c[2][bi]), ir.base_var(fn, c[2][li])
                    if b is not None and l is not None:
                        recs.append((b, l, key(fn, c[2][ki]), c[1]))
        if not recs:
            continue
        g = ctx.xcfg(prog, fn)
        F = Facts(prog, g, mark_thrown=True)
        for nd in g.nodes:
            if nd.kind != "el" or nd.proto:
                continue
            st = F.IN.get(nd)
            if st is None or st is engines.UNIVERSE:
                continue
            for sub in ir.walk(fn, nd.el.e):
                if sub[0] != "x":
                    continue
                bv = ir.base_var(fn, sub[1])
                ik = key(fn, sub[2])
                for b, l, k, name in recs:
                    if bv != b or not (isinstance(ik, tuple) and ik[0] == "b" and ik[1] == "-" and ik[2] == ("v", l) and ik[3] == ("i", 1)):
                        continue
                    n += 1
                    obj = "%s[%s-1]" % (fn.vars[b]["n"], fn.vars[l]["n"])
                    if nonzero_in(st, k) or any(a[0] == "cmp" and a[1] == ("v", l) and engines.entails(a[2], a[3], ">", 0) for a in st):
                        chk.ok("REC-EMPTY", fn, obj, "the recoded integer is known to be non-zero (or the length positive) at the access", line=nd.line())
                        continue
                    # a parameter of a static helper: every caller establishes it for the integer it hands in
                    ok = False
                    why = "nothing in force makes the recoded integer `%s` non-zero" % engines.fmt_key(fn, k)
                    if fn.static and isinstance(k, tuple) and k[0] == "v" and k[1] in fn.params:
                        pos = fn.params.index(k[1])
                        cs = [c for c in callers.get(fn.name, ()) if c is not fn]
                        ok = bool(cs)
                        for c in cs:
                            gc = ctx.xcfg(prog, c)
                            Fc = Facts(prog, gc, mark_thrown=True)
                            for cn in gc.nodes:
                                if cn.kind != "el" or cn.proto:
                                    continue
                                for cc in ir.calls_in(c, cn.el.e):
                                    if cc[1] == fn.name and len(cc[2]) > pos:
                                        cst = Fc.IN.get(cn)
                                        if cst is None or cst is engines.UNIVERSE:
                                            continue
                                        if not nonzero_in(cst, key(c, cc[2][pos])):
                                            ok = False
                                            why = "`%s` hands in `%s`, which is not known to be non-zero there (a zero test of the scalar before its reduction does not cover the reduced value)" % (
                                                c.name, c.fmt(cc[2][pos])[:20])
                    if ok:
                        chk.ok("REC-EMPTY", fn, obj, "every caller of this static helper hands in an integer it has tested for zero", line=nd.line())
                    else:
                        chk.fail("REC-EMPTY", fn, obj, "`%s` reads the most significant digit of a recoding that is empty for zero: %s; for such a scalar the access is buf[-1]" % (
                            fn.fmt(sub)[:30], why), line=nd.line())
    return n
