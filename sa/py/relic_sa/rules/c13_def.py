"""MAP-DEF (C13, "is a deterministic function of the input bytes alone"): in every hash-to-curve body the output point is
write-only until the body has written it: no coordinate (or component of an extension-field coordinate) of the output is
read - explicitly, or by handing the point to a routine that reads it - before this call has assigned that coordinate on
every path.  The caller's point holds whatever an earlier call left there; a map that reads it returns a point that
depends on the history of the object, not on the message.

MAP-HIST: the context fields the maps depend on (->X_map_*) obey HIST-FREE (rules/c19_hist.py)."""
import re

from .. import ir, engines
from ..engines import Facts, key
from ..facts import AnalysisBroken
from . import c13

FIELDS = ("x", "y", "z", "t", "coord")
# callees that read only some coordinates of a point argument
READS_OF = [
    (re.compile(r"_rhs$"), ("x",)),
    (re.compile(r"_upk$"), ("x", "y")),
    (re.compile(r"_(null|new|free|set_infty|is_infty)$"), ()),
]


# (function, output) -> reason
DEF_OK = {
    ("ep4_map", "p"): "the fall-through with both curve coefficients non-zero leaves p untouched before ep4_mul_cof(p, p): no quartic-twist curve "
                      "with a != 0 and b != 0 is tabulated (KSS16 has b = 0, the other families a = 0), so no selectable curve takes that path",
}


def comp(fn, e, P):
    """(field, index path) if e designates (a component of) a field of the output point P"""
    e = ir.strip_casts(fn.resolve(e))
    idx = ()
    guard = 0
    while isinstance(e, list) and e and guard < 10 and ((e[0] == "u" and e[1] in ("&", "*")) or e[0] == "x"):
        guard += 1
        if e[0] == "x":
            k = key(fn, e[2])
            idx = (k,) + idx
            e = ir.strip_casts(fn.resolve(e[1]))
        else:
            e = ir.strip_casts(fn.resolve(e[2]))
    if isinstance(e, list) and e and e[0] == "m" and e[2] in FIELDS:
        b = ir.strip_casts(fn.resolve(e[1]))
        if isinstance(b, list) and b and b[0] == "u" and b[1] == "*":
            b = ir.strip_casts(fn.resolve(b[2]))
        if b == ["v", P]:
            return (e[2], idx)
    return None


def is_point(fn, e, P):
    return ir.strip_casts(fn.resolve(e)) == ["v", P]


def effects(prog, fn, e, P, summary=None):
    """(reads [(field, idx)], writes [(field, idx)]) of the output point by the element"""
    reads, writes = [], []
    lhs_nodes = set()
    for sub in ir.walk(fn, e):
        if sub[0] == "=":
            c = comp(fn, sub[1], P)
            if c is not None:
                writes.append(c)
                lhs_nodes.add(id(ir.strip_casts(sub[1])))
        elif sub[0] == "o=":
            c = comp(fn, sub[2], P)
            if c is not None:
                reads.append(c)
                writes.append(c)
        elif sub[0] == "c" and not sub[1]:
            # call through a pointer (the map function selected for the curve): the point handed in first is its output
            if sub[2] and is_point(fn, sub[2][0], P):
                writes += [(f, ()) for f in FIELDS]
        elif sub[0] == "c" and sub[1]:
            for i, a in enumerate(sub[2]):
                c = comp(fn, a, P)
                wr = ir.arg_is_pointer(sub, i) and engines.callee_writes_arg(prog, fn, sub[1], i)
                if c is not None:
                    if wr:
                        writes.append(c)
                        # the same component handed in at another position is read
                        for j, b in enumerate(sub[2]):
                            if j != i and comp(fn, b, P) is not None and key(fn, b) == key(fn, a):
                                reads.append(c)
                    else:
                        reads.append(c)
                elif is_point(fn, a, P):
                    if wr:
                        # written whole by the callee; read whole as well when it is also passed at a reading position
                        if any(j != i and is_point(fn, b, P) for j, b in enumerate(sub[2])):
                            reads += [(f, ()) for f in read_set(sub[1])]
                        writes += [(f, ()) for f in (FIELDS if summary is None else summary(sub[1], i))]
                    else:
                        reads += [(f, ()) for f in read_set(sub[1])]
    # explicit reads in expressions: P->f on a right-hand side / condition
    for sub in ir.walk(fn, e):
        if sub[0] == "m" and sub[2] in FIELDS:
            pass
    return reads, writes


def read_set(callee):
    for rx, fs in READS_OF:
        if rx.search(callee):
            return fs
    return ("x", "y", "z", "coord")


def _const(k):
    return isinstance(k, tuple) and k and k[0] == "i"


def defined(st, f):
    for k in range(len(f[1]) + 1):
        if ("ev", "pdef", f[0], f[1][:k]) in st:
            return True
    kids = set()
    for a in st:
        if a[0] == "ev" and a[1] == "pdef" and a[2] == f[0] and len(a[3]) == len(f[1]) + 1 and a[3][:len(f[1])] == f[1] and _const(a[3][-1]):
            kids.add(a[3][-1][1])
    return len(kids) >= 2 and kids == set(range(len(kids)))


COEF = re.compile(r"(^|[^a-z])(ep\d*|eb|ed)_(a|b)\b|curve_get_(a|b)\b|\bep_iso\.(a|b)\b")


def rule_rhs_shape(ctx, prog, chk):
    """RHS-SHAPE: wherever the curve polynomial g(x) = x^3 + a x + b is evaluated by Horner's rule with the curve
    coefficients (t = x^2; t = t + a; t = t * Y; t = t + b), the multiplier Y is the x that was squared.  The map
    parameters are chosen by testing g at particular points (g(u), g(b / (u a))): with another multiplier the test is
    about a different quantity and the exceptional inputs of the map leave the curve"""
    n = 0
    for fn in prog.all:
        if not (re.search(r"(_curve|_map|_pck|_util)\.c$|_tmpl\.h$", fn.rfile) or "selftest" in fn.file):
            continue
        els = [el for el in fn.all_elements()]
        calls = []
        for el in els:
            for c in ir.calls_in(fn, el.e):
                if c[1] and c[2]:
                    calls.append((el, c))
        for i in range(len(calls) - 3):
            (e1, c1), (e2, c2), (e3, c3), (e4, c4) = calls[i:i + 4]
            if not (re.search(r"^f[pb]\d*_sqr(_\w+)?$", c1[1]) and len(c1[2]) == 2):
                continue
            T, X = key(fn, c1[2][0]), key(fn, c1[2][1])
            if not (re.search(r"^f[pb]\d*_add(_\w+)?$", c2[1]) and len(c2[2]) == 3 and key(fn, c2[2][0]) == T and key(fn, c2[2][1]) == T and COEF.search(fn.fmt(c2[2][2]))):
                continue
            if not (re.search(r"^f[pb]\d*_mul(_\w+)?$", c3[1]) and len(c3[2]) == 3 and key(fn, c3[2][0]) == T and key(fn, c3[2][1]) == T):
                continue
            if not (re.search(r"^f[pb]\d*_add(_\w+)?$", c4[1]) and len(c4[2]) == 3 and key(fn, c4[2][0]) == T and key(fn, c4[2][1]) == T and COEF.search(fn.fmt(c4[2][2]))):
                continue
            Y = key(fn, c3[2][2])
            n += 1
            obj = "g(%s)" % re.sub(r"\s+", "", fn.fmt(c1[2][1]))[:30]
            if Y == X:
                chk.ok("RHS-SHAPE", fn, obj, "(x^2 + a) is multiplied by the x that was squared", line=e3.line)
            else:
                chk.fail("RHS-SHAPE", fn, obj, "`%s` multiplies (x^2 + a) by `%s` although `%s` was squared: the value is not g of anything the comment, the construction or the "
                         "square test that follows is about" % (fn.fmt(c3)[:50], fn.fmt(c3[2][2])[:25], fn.fmt(c1[2][1])[:25]), line=e3.line)
    return n


INV = re.compile(r"^f[pb]\d*_inv(_(?!sim)\w+)?$")
INV_SIM = re.compile(r"^f[pb]\d*_inv_sim$")
IS_ZERO = re.compile(r"^f[pb]\d*_is_zero$")
COPY_SEC = re.compile(r"^(f[pb]\d*|dv)_copy_sec$")
# (function, field family of the inversion) -> reason
INV_OK = {
    ("eb_map", "fb"): "t0 = x^2 with x the (incremented) message digest: a zero needs a preimage of the all-zero digest; no input can be exhibited",
}


def rule_inv_guard(ctx, prog, chk):
    """INV-GUARD: in a map body, a field element handed to an inversion has been tested for zero since it was last
    computed - by a branch, or by the constant-time idiom `e = F_is_zero(X); F_copy_sec(X, other, e); F_inv(X, X)` where
    the flag of the masked replacement is the zero test of X itself.  Inversion of zero is an error in this library, and
    the exceptional inputs of the maps (t = 0, vanishing denominators) are exactly the ones that make X zero"""
    n = 0
    used = set()
    for fn in prog.all:
        if not (re.search(r"_map\.c$", fn.rfile) or ("selftest" in fn.file and "_map" in fn.name)):
            continue
        if not any(c[1] and (INV.match(c[1]) or INV_SIM.match(c[1])) for el in fn.all_elements() for c in ir.calls_in(fn, el.e)):
            continue
        g = ctx.xcfg(prog, fn)

        def gen(node, s, pre, fn=fn):
            out = []
            e = node.el.e
            for sub in ir.walk(fn, e):
                tgt = rhs = None
                if sub[0] == "d" and sub[2] is not None:
                    tgt, rhs = sub[1], sub[2]
                elif sub[0] == "=" and ir.strip_casts(sub[1])[0] == "v":
                    tgt, rhs = ir.strip_casts(sub[1])[1], sub[2]
                if tgt is not None:
                    r = ir.peel(fn, rhs)
                    if isinstance(r, list) and r and r[0] == "c" and r[1] and IS_ZERO.match(r[1]) and r[2]:
                        # the flag variable that receives the verdict of the zero test
                        out.append(("ev", "zflag", key(fn, r[2][0]), ("v", tgt)))
            for c in ir.calls_in(fn, e):
                if c[1] and IS_ZERO.match(c[1]) and c[2]:
                    out.append(("ev", "zchk", key(fn, c[2][0])))
                if c[1] and COPY_SEC.match(c[1]) and len(c[2]) >= 3:
                    X = key(fn, c[2][0])
                    fk = key(fn, c[2][-1])
                    for a in pre:
                        if a[0] == "ev" and a[1] == "zflag" and a[2] == X and (a[3] == fk or a[3][1] in engines.key_vars(fk)):
                            out.append(("ev", "zfixed", X))
                        if a[0] == "ev" and a[1] == "zchk" and a[2] == X and ("c", None) and isinstance(fk, tuple) and fk[0] == "c" and IS_ZERO.match(str(fk[1])) and fk[2] and fk[2][0] == X:
                            out.append(("ev", "zfixed", X))
            return out

        def keep_flags(node, s):
            return s
        F = Facts(prog, g, gen=gen, mark_thrown=True)
        for nd in g.nodes:
            if nd.kind != "el" or nd.proto:
                continue
            st = F.IN.get(nd)
            if st is None or st is engines.UNIVERSE:
                continue
            for c in ir.calls_in(fn, nd.el.e):
                if not c[1] or len(c[2]) < 2:
                    continue
                if INV.match(c[1]):
                    X = key(fn, c[2][1])
                    ok = ("ev", "zchk", X) in st or ("ev", "zfixed", X) in st
                elif INV_SIM.match(c[1]):
                    X = key(fn, c[2][1])
                    cnt = ir.peel(fn, c[2][2]) if len(c[2]) > 2 else None
                    m = cnt[1] if isinstance(cnt, list) and cnt[0] == "i" else None
                    have = set(a[2][2][1] for a in st if a[0] == "ev" and a[1] in ("zchk", "zfixed") and isinstance(a[2], tuple) and a[2][0] == "x" and a[2][1] == X
                               and isinstance(a[2][2], tuple) and a[2][2][0] == "i")
                    ok = m is not None and have >= set(range(m))
                else:
                    continue
                n += 1
                vn = fn.fmt(c[2][1])[:20]
                base = fn.name.split("__")[-1]
                if ok:
                    chk.ok("INV-GUARD", fn, vn, "tested for zero (branch or masked replacement keyed on its own zero test) since it was last computed", line=nd.line())
                elif (base, re.match(r"^(f[pb]\d*)_", c[1]).group(1)) in INV_OK:
                    used.add((base, re.match(r"^(f[pb]\d*)_", c[1]).group(1)))
                    chk.ok("INV-GUARD", fn, vn, "reviewed exception: " + INV_OK[(base, re.match(r"^(f[pb]\d*)_", c[1]).group(1))], line=nd.line())
                else:
                    chk.fail("INV-GUARD", fn, vn, "`%s` inverts `%s`, which has not been tested for zero since it was last computed (a zero test of another value, or a masked replacement keyed "
                             "on another flag, does not count): for the exceptional inputs of the map the inversion of zero is an error instead of a point" % (fn.fmt(c)[:40], vn), line=nd.line())
    if prog.library is None:
        for k in INV_OK:
            if k not in used and prog.get(k[0]) is not None:
                raise AnalysisBroken("INV-GUARD: the reviewed exception %s/%s no longer matches; remove it" % k)
    return n


def rule_par_abs(ctx, prog, chk):
    """PAR-ABS: inside the cofactor routines the sign of the (signed) curve parameter is never discarded: no bn_abs of, and
    no constant sign stored into, a value derived from fp_prime_get_par unless the function consults bn_sign of such a
    value.  The multipliers are polynomials in the parameter (1 - x, x^2 - x - 1 ...): |x| gives the same value only for the
    curves whose parameter is negative.  Expected count of sign-discarding sites: zero today (kept alive by the miniature)"""
    n = 0
    for fn in prog.all:
        if not c13.MUL_COF.match(fn.name.split("__")[-1]):
            continue
        par = set()
        changed = True
        while changed:
            changed = False
            for el in fn.all_elements():
                for c in ir.calls_in(fn, el.e):
                    if not c[1] or not c[2]:
                        continue
                    dst = ir.base_var(fn, c[2][0])
                    if dst is None or dst in par:
                        continue
                    if c[1] in c13.PAR_GETTERS or (c[1] in c13.BN_ARITH and any(ir.base_var(fn, a) in par for a in c[2][1:])):
                        par.add(dst)
                        changed = True
        if not par:
            continue
        consults = any(c[1] == "bn_sign" and c[2] and ir.base_var(fn, c[2][0]) in par for el in fn.all_elements() for c in ir.calls_in(fn, el.e))
        n += 1
        bad = None
        for el in fn.all_elements():
            for c in ir.calls_in(fn, el.e):
                if c[1] == "bn_abs" and len(c[2]) == 2 and ir.base_var(fn, c[2][1]) in par:
                    bad = bad or (el, fn.fmt(c)[:40])
            for sub in ir.walk(fn, el.e):
                if sub[0] == "=":
                    v, f = engines.lvalue_path(fn, sub[1])
                    if v in par and f == "sign" and ir.peel(fn, sub[2])[0] == "i":
                        bad = bad or (el, fn.fmt(sub)[:40])
        if bad is None or consults:
            chk.ok("PAR-ABS", fn, "par", "the sign of the curve parameter is never discarded on its way into the multipliers", line=fn.line)
        else:
            chk.fail("PAR-ABS", fn, "par", "`%s` discards the sign of a value derived from the curve parameter and the function never consults that sign: the multiplier is right only for "
                     "curves whose parameter is negative" % bad[1], line=bad[0].line)
    return n


def analyse(ctx, prog, chk):
    n = 0
    used = set()
    for fn in c13.complete_maps(prog):
        P = fn.params[0]
        # the point is an input as well when another parameter of the same call carries no message (X_map_from_field(p, uniform bytes)
        # still writes p first); wrappers that only delegate have no reads of their own
        g = ctx.xcfg(prog, fn)
        live = set(sub[2] for el in fn.all_elements() for sub in ir.walk(fn, el.e) if sub[0] == "m" and sub[2] in FIELDS)

        def gen(node, s, pre, fn=fn, P=P):
            _, ws = effects(prog, fn, node.el.e, P)
            return [("ev", "pdef", f, idx) for f, idx in ws]
        F = Facts(prog, g, gen=gen, mark_thrown=True)
        bad = None
        nreads = 0
        for nd in g.nodes:
            if nd.kind != "el" or nd.proto:
                continue
            rs, _ = effects(prog, fn, nd.el.e, P)
            if not rs:
                continue
            st = F.IN.get(nd)
            if st is None or st is engines.UNIVERSE:
                continue
            for f in rs:
                nreads += 1
                if not defined(st, f) and bad is None:
                    bad = (nd, f)
        n += 1
        if bad is None:
            chk.ok("MAP-DEF", fn, fn.vars[P]["n"], "%d read(s) of the output point, each after this call assigned the coordinate on every path" % nreads, line=fn.line)
        elif (fn.name.split("__")[-1], fn.vars[P]["n"]) in DEF_OK:
            used.add((fn.name.split("__")[-1], fn.vars[P]["n"]))
            chk.ok("MAP-DEF", fn, fn.vars[P]["n"], "reviewed exception: " + DEF_OK[(fn.name.split("__")[-1], fn.vars[P]["n"])], line=fn.line)
        else:
            nd, f = bad
            chk.fail("MAP-DEF", fn, fn.vars[P]["n"], "`%s` reads ->%s%s of the output point before this call has assigned it on every path: the result depends on what the caller's point held" % (
                fn.fmt(nd.el.e)[:50], f[0], "".join("[%s]" % engines.fmt_key(fn, x) for x in f[1])), line=nd.line())
    if prog.library is None:
        for k in DEF_OK:
            if k not in used and prog.get(k[0]) is not None:
                raise AnalysisBroken("MAP-DEF: the reviewed exception %s/%s no longer matches; remove it" % k)
    # the context fields the maps depend on are not accumulated across selections
    from . import c19_hist
    nh = c19_hist.analyse(ctx, prog, chk, field_re=re.compile(r"map"), rule="MAP-HIST")
    rule_par_abs(ctx, prog, chk)
    return n, nh, rule_rhs_shape(ctx, prog, chk), rule_inv_guard(ctx, prog, chk)
