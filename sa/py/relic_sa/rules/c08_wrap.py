"""WRAP (C08): an unsigned subtraction A - B that bounds a loop or decides a comparison cannot wrap: A >= B follows
from the comparisons and loop bounds in force at that point (forward must-dataflow + the symbolic extent prover), or
from a data-structure invariant recorded for that site in REVIEWED (one line of reason each).  A wrapped bound turns
`i < A - B` into `i < 2^64 - something`: the loop runs off the object; a wrapped comparison admits the sizes it was
meant to refuse."""
import re

from .. import ir, engines, extent
from ..engines import Facts, key
from ..extent import Poly, prove_nonneg
from ..facts import AnalysisBroken

# (function, shape of the subtraction: text without blanks, the function's variables written $) -> invariant that makes A >= B
REVIEWED = {
    ("bn_gen_prime_stron", "($/2)-1"): "documented: bits is the length of an RSA-size prime, never below 2 (a request for a 0/1-bit prime has no answer)",
    ("bn_rec_slw", "$-$"): "wraps for i + 1 < w, but the wrapped value converts back to the negative int i - w + 1 and bn_get_bit answers 0 for "
                           "bit numbers outside the integer: the scan starts below bit 0 and stops at the lowest set bit, the same window",
    ("bn_rec_rtnaf", "$-1"): "documented window width 2 <= w <= 8 (bn_rec_tnaf_get indexes fixed tables by it)",
    ("bn_rec_sac", "$-1"): "l = RLC_CEIL(n, c * m) + 1 >= 1 by construction and only ever raised (RLC_MAX)",
    ("bn_sqr_basic", "$->used-1"): "multiple-precision integers always have ->used >= 1 (bn_trim, bn_zero keep one digit)",
    ("bn_write_bin", "$->used-1"): "multiple-precision integers always have ->used >= 1 (bn_trim, bn_zero keep one digit)",
    ("fp12_exp_cyc_sps", "$-1"): "w = len / 2 + 1 style count of a sparse exponent: at least 1",
    ("fp24_exp_cyc_sps", "$-1"): "same construction as fp12_exp_cyc_sps",
    ("fp48_exp_cyc_sps", "$-1"): "same construction as fp12_exp_cyc_sps",
    ("fp54_exp_cyc_sps", "$-1"): "same construction as fp12_exp_cyc_sps",
    ("ep_mul_sim_lot_endom", "util_bits_dig($)-2"): "only reached for batches of more than 10 points (else-branch of the small-batch test): util_bits_dig(n) >= 4",
    ("ep2_mul_sim_lot", "util_bits_dig($)-2"): "only reached for batches of more than 10 points (else-branch of the small-batch test): util_bits_dig(n) >= 4",
    ("ep3_mul_sim_lot", "util_bits_dig($)-2"): "only reached for batches of more than 10 points (else-branch of the small-batch test): util_bits_dig(n) >= 4",
    ("ep4_mul_sim_lot", "util_bits_dig($)-2"): "only reached for batches of more than 10 points (else-branch of the small-batch test): util_bits_dig(n) >= 4",
    ("ep8_mul_sim_lot", "util_bits_dig($)-2"): "only reached for batches of more than 10 points (else-branch of the small-batch test): util_bits_dig(n) >= 4",
    ("cp_rsa_enc", "$-RSA_PAD_LEN"): "tiny moduli (shorter than the padding overhead) are not keys of the scheme; the wrapped bound admits the request and the padding routine then fails with an error (replayed with 64- and 79-bit keys under ASan: error return, no invalid access)",
    ("cp_rsa_sig", "$-2"): "tiny moduli (shorter than the padding overhead) are not keys of the scheme; the wrapped bound admits the request and the padding routine then fails with an error (replayed with 64- and 79-bit keys under ASan: error return, no invalid access)",
    ("cp_rsa_ver", "$-2"): "tiny moduli (shorter than the padding overhead) are not keys of the scheme; the wrapped bound admits the request and the padding routine then fails with an error (replayed with 64- and 79-bit keys under ASan: error return, no invalid access)",
    ("cp_rabin_enc", "($-RABIN_PAD_LEN)-2"): "tiny moduli (shorter than the padding overhead) are not keys of the scheme; the wrapped bound admits the request and the padding routine then fails with an error (replayed with 64- and 79-bit keys under ASan: error return, no invalid access)",
    ("cp_rabin_enc", "$-RABIN_PAD_LEN"): "tiny moduli (shorter than the padding overhead) are not keys of the scheme; the wrapped bound admits the request and the padding routine then fails with an error (replayed with 64- and 79-bit keys under ASan: error return, no invalid access)",
    ("bn_modn_low", "(2*$)-1"): "low-level contract: sm is the digit count of a non-empty modulus",
    ("bn_muld_low", "$-$"): "low-level contract of the truncated product: sa >= ta (callers pass the operand size and the cut)",
}


# (function, shape of A in RLC_CEIL(A, B) = (A - 1) / B + 1) -> why A >= 1
_ORD = "n is the bit length of the group order handed in by the caller of this static helper / documented as such: at least 1"
REVIEWED_CEIL = {
    ("ep2_mul_reg_imp", "$"): _ORD, ("ep3_mul_reg_imp", "$"): _ORD, ("ep4_mul_reg_imp", "$"): _ORD, ("ep8_mul_reg_imp", "$"): _ORD,
    ("bn_rec_reg", "$"): "documented: n is the bit length of the group order", ("bn_rec_reg", "$*($-1)"): "l >= 1 from the line above and w >= 2",
    ("bn_rec_sac", "$"): "documented: n is the bit length of the group order",
    ("rand_hash", "$"): "static helper; each of its four callers passes len = (RLC_RAND_SIZE - 1) / 2, a positive constant held in a local",
    ("bn_rec_rtnaf", "$+2"): "m + 2 >= 2",
    ("bn_read_str", "$*util_bits_dig($)"): "len = 0 wraps, bn_grow then refuses the absurd digit count with ERR_NO_PRECI: a spurious error for the empty string, no access (observation)",
}


def ceil_sites(fn, e):
    """[A] for every RLC_CEIL(A, B) = ((A - 1) / B) + 1 in the element whose subtraction is unsigned"""
    out = []
    for sub in ir.walk(fn, e):
        if sub[0] == "b" and sub[1] == "+":
            r, l = ir.peel(fn, sub[3]), ir.peel(fn, sub[2])
            if isinstance(r, list) and r[0] == "i" and r[1] == 1 and isinstance(l, list) and l[0] == "b" and l[1] == "/":
                a = ir.peel(fn, l[2])
                if isinstance(a, list) and a[0] == "b" and a[1] == "-" and len(a) > 4 and a[4] == "u":
                    o = ir.peel(fn, a[3])
                    if isinstance(o, list) and o[0] == "i" and o[1] == 1:
                        out.append(a[2])
    return out


def rule_ceil_zero(ctx, prog, chk):
    """CEIL-ZERO: RLC_CEIL(A, B) is ((A) - 1) / (B) + 1; for an unsigned A that can be zero the subtraction wraps and the
    "number of blocks" is 2^64 / B + 1, truncated to whatever it is assigned to (0 for B = 32 and 64 by coincidence,
    1431655766 for B = 48).  A is positive by the facts in force, is the bit length of a group order fetched in the function,
    is a positive constant at every call of a static helper, or is reviewed"""
    n = 0
    used = set()
    callers = {}
    for f in prog.all:
        for el in f.all_elements():
            for c in ir.calls_in(f, el.e):
                if isinstance(c[1], str):
                    callers.setdefault(c[1], []).append((f, c))
    for fn in prog.all:
        sites = [(el, A) for el in fn.all_elements() for A in ceil_sites(fn, el.e)]
        if not sites:
            continue
        g = ctx.xcfg(prog, fn)
        F = Facts(prog, g, mark_thrown=True)
        ords = set()
        for el in fn.all_elements():
            for c in ir.calls_in(fn, el.e):
                if c[1] and re.search(r"_curve_get_ord$|^pc_get_ord$", c[1]) and c[2]:
                    ords.add(key(fn, c[2][0]))
        names = sorted(set(v["n"] for v in fn.vars if v.get("n")), key=len, reverse=True)
        seen = set()
        for nd in g.nodes:
            if nd.kind != "el" or nd.proto:
                continue
            st = F.IN.get(nd)
            if st is None or st is engines.UNIVERSE:
                continue
            for el, A in sites:
                if nd.el is not el:
                    continue
                ak = key(fn, A)
                txt = re.sub(r"\s+", "", fn.fmt(A))
                if txt.startswith("(") and txt.endswith(")"):
                    txt = txt[1:-1]
                if (txt, nd.line()) in seen:
                    continue
                seen.add((txt, nd.line()))
                n += 1
                shape = re.sub(r"\b(%s)\b(?!\()" % "|".join(re.escape(x) for x in names), "$", txt) if names else txt
                base = fn.name.split("__")[-1]
                ok = any(a[0] == "cmp" and a[1] == ak and (engines.entails(a[2], a[3], ">", 0) or engines.entails(a[2], a[3], "!=", 0)) for a in st)
                why = "A > 0 in force"
                if not ok and isinstance(ak, tuple) and ak[0] == "c" and ak[1] == "bn_bits" and len(ak[2]) == 1 and ak[2][0] in ords:
                    ok, why = True, "bit length of the group order fetched in this function"
                if not ok and isinstance(ak, tuple) and ak[0] == "i" and ak[1] > 0:
                    ok, why = True, "positive constant"
                if not ok and fn.static and isinstance(ak, tuple) and ak[0] == "v" and ak[1] in fn.params:
                    pos = fn.params.index(ak[1])
                    cs = callers.get(fn.name, [])
                    def pos_const(f, e):
                        pl = extent.poly(key(f, e))
                        return pl is not None and pl.is_const() and pl.const_value() > 0
                    if cs and all(len(c[2]) > pos and pos_const(f, c[2][pos]) for f, c in cs):
                        ok, why = True, "a positive constant at every call of this static helper"
                if ok:
                    chk.ok("CEIL-ZERO", fn, txt, why, line=nd.line())
                elif (base, shape) in REVIEWED_CEIL:
                    used.add((base, shape))
                    chk.ok("CEIL-ZERO", fn, txt, "reviewed: " + REVIEWED_CEIL[(base, shape)], line=nd.line())
                else:
                    chk.fail("CEIL-ZERO", fn, txt, "RLC_CEIL(%s, ..) subtracts one from an unsigned quantity that nothing in force makes positive: for zero the block count wraps to "
                             "2^64 / B + 1 (truncated), and what it bounds runs off the buffer or does not end" % fn.fmt(A)[:30], line=nd.line())
    if prog.library is None:
        for k in REVIEWED_CEIL:
            if k not in used and prog.get(k[0]) is not None:
                raise AnalysisBroken("CEIL-ZERO: the reviewed site %s `%s` no longer exists; remove the entry" % k)
    return n


def subtractions(fn, cond):
    """unsigned subtractions that are operands of the relational comparison `cond`"""
    c = ir.peel(fn, cond)
    out = []
    if not (isinstance(c, list) and c and c[0] == "b" and c[1] in ("<", "<=", ">", ">=")):
        return out
    for side in (c[2], c[3]):
        s = ir.peel(fn, side)
        work = [s]
        depth = 0
        while work and depth < 4:
            depth += 1
            x = work.pop()
            if isinstance(x, list) and x and x[0] == "b" and x[1] == "-" and len(x) > 4 and x[4] == "u":
                out.append(x)
                work.append(ir.peel(fn, x[2]))
            elif isinstance(x, list) and x and x[0] == "b" and x[1] in ("+",):
                work.append(ir.peel(fn, x[2]))
                work.append(ir.peel(fn, x[3]))
    return out


def analyse(ctx, prog, chk):
    n = 0
    used = set()
    for fn in prog.all:
        g = None
        sites = []
        for blk in fn.blocks if hasattr(fn, "blocks") else ():
            pass
        g = ctx.xcfg(prog, fn)
        cands = []
        for nd in g.nodes:
            if nd.kind != "br" or nd.proto:
                continue
            t = nd.info.get("term")
            if not t or t.get("c") is None:
                continue
            subs = subtractions(fn, t["c"])
            if subs:
                cands.append((nd, t, subs))
        if not cands:
            continue
        F = Facts(prog, g, mark_thrown=True)
        seen = set()
        for nd, t, subs in cands:
            st = F.IN.get(nd)
            if st is None or st is engines.UNIVERSE:
                continue
            for sub in subs:
                txt = re.sub(r"\s+", "", fn.fmt(sub))
                if txt.startswith("(") and txt.endswith(")"):
                    txt = txt[1:-1]
                # shape of the subtraction with the function's own variables abstracted (a renamed local stays reviewed)
                names = sorted(set(v["n"] for v in fn.vars if v.get("n")), key=len, reverse=True)
                shape = re.sub(r"\b(%s)\b(?!\()" % "|".join(re.escape(x) for x in names), "$", txt) if names else txt
                if (txt, nd.line()) in seen:
                    continue
                seen.add((txt, nd.line()))
                n += 1
                a, b = key(fn, sub[2]), key(fn, sub[3])
                pa, pb = extent.norm_poly(a, st), extent.norm_poly(b, st)
                ok = False
                if pa is not None and pb is not None and prove_nonneg(pa - pb, st):
                    ok = True
                if not ok:
                    for at in st:
                        if at[0] == "rel" and ((at[1] == a and at[3] == b and at[2] in (">=", ">", "==")) or (at[1] == b and at[3] == a and at[2] in ("<=", "<", "=="))):
                            ok = True
                        if at[0] == "cmp" and at[1] == a and isinstance(b, tuple) and b[0] == "i" and at[2] in (">=", ">", "==") and (at[3] + (1 if at[2] == ">" else 0)) >= b[1]:
                            ok = True
                base = fn.name.split("__")[-1]
                if ok:
                    chk.ok("WRAP", fn, txt, "%s >= %s follows from the comparisons in force" % (fn.fmt(sub[2])[:30], fn.fmt(sub[3])[:30]), line=nd.line())
                elif (base, shape) in REVIEWED:
                    used.add((base, shape))
                    chk.ok("WRAP", fn, txt, "reviewed invariant: " + REVIEWED[(base, shape)], line=nd.line())
                else:
                    chk.fail("WRAP", fn, txt, "the unsigned subtraction `%s` in the %s condition `%s` can wrap: nothing in force at that point makes %s >= %s" % (
                        fn.fmt(sub)[:40], t["k"].replace("Stmt", "").lower(), fn.fmt(t["c"])[:50], fn.fmt(sub[2])[:25], fn.fmt(sub[3])[:25]), line=nd.line())
    if prog.library is None:
        for k in REVIEWED:
            if k not in used and prog.get(k[0]) is not None:
                raise AnalysisBroken("WRAP: the reviewed site %s `%s` no longer exists; remove the entry" % k)
    return n
