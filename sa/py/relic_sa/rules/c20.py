"""C20 — masked selection and regular exponentiation do not branch on secrets.

  CT-PRIM  in the *_sec copy/swap/compare primitives no branch condition, array index, division or callee outside the
           set depends on the data or on the selection bit
  CT-ALG   in the ladder / regular-recoding scalar multiplications and exponentiations no branch condition, no index
           into a table of group elements, no pointer computed from an integer and no delegation to a non-regular
           multiplication depends on the content of the secret scalar (public: its bit length, sign, zero-ness, the
           digit count of derived integers, and the sign of copies / reductions of the scalar; the sign of sub-scalars
           of a decomposition is value-dependent)
"""
import re

from .. import ir, engines
from ..taint import TaintEngine, Taint, SHAPE_FIELDS
from ..facts import AnalysisBroken

EXPLANATION = (
    "Static taint analysis (explicit flows, forward may-analysis over the exploded CFG, callee output summaries computed by "
    "analysing callees to depth 2) of the constant-time primitives and of every ladder / regular-recoding scalar "
    "multiplication and exponentiation of the library. Decides that no control decision, no index into a table of group "
    "elements and no delegation to a non-regular routine depends on the selection bit, the compared data or the content of "
    "the secret scalar. Public by the property's own statement: bit length, sign and zero-ness of the input scalar, the "
    "digit count of integers and the sign of copies/reductions of the scalar (signs of decomposition sub-scalars are secret). Does not decide machine-level timing (compiler lowering, variable-latency "
    "instructions) nor value-dependent behaviour inside field/integer arithmetic callees. Nothing of RELIC is executed.")

# primitives: name -> (secret scalar parameters, public parameters)
PRIMS = re.compile(r"^(dv_copy_sec|dv_swap_sec|dv_cmp_sec|util_cmp_sec|fp\d*_copy_sec|fb\d*_copy_sec)$")
PRIM_PUBLIC = {"digits", "size", "n", "len"}

# constant-time / regular algorithms and the name of their secret parameter
CT_ALGS = {}
for fam in ("ep", "ep2", "ep3", "ep4", "ep8", "ed"):
    for f in ("%s_mul_monty", "%s_mul_lwreg", "%s_mul_reg_imp", "%s_mul_reg_glv", "%s_mul_reg_gls"):
        CT_ALGS[f % fam] = "k"
CT_ALGS.update({
    "eb_mul_lodah": "k", "bn_mxp_monty": "b", "fp_exp_monty": "b", "fb_exp_monty": "b",
    "gt_exp_sec": "b", "gt_exp_reg_sac": "b", "gt_exp_reg_gls": "b", "gt_exp_reg_imp": "b",
    "g1_mul_sec": "b", "g2_mul_sec": "b", "bn_rec_reg": "k",
})
# scalar multiplications / exponentiations: delegating secret data to one outside CT_ALGS is a violation
SCALAR_OPS = re.compile(r"^((ep\d*|eb|ed|g1|g2)_mul(_(?!dig|cof|gen|fix|pre|sim)\w+)?|(gt|fp\d*|fb\d*)_exp(_\w+)?|bn_mxp(_\w+)?)$")
# tables of group / field elements: a secret subscript is a violation
TABLE_TYPES = re.compile(r"^(const )?(ep\d*|eb|ed|g1|g2|gt|bn|fp\d*|fb\d*)_t\s*(\[|\*)")
# value tests on group elements after the loop (result is the identity): holds for O(1) scalars of a length
REVIEWED_BRANCHES = {
    ("eb_mul_lodah", "fb_is_zero"): "Lopez-Dahab y-recovery: z1 == 0 or z2 == 0 only when the result or result+P is the identity (k = 0 or n-1 mod n)",
}


class CTChecker(Taint):
    """Taint analysis that records constant-time violations"""

    def __init__(self, eng, fn, positions, depth, prim=False, ct_set=None, nest=0):
        self.nest = nest
        self.prim = prim
        self.ct_set = ct_set or set()
        # in the function under test a secret-dependent branch is reported itself; implicit flows are only
        # followed inside callees (their return values and outputs)
        self.implicit = False
        super().__init__(eng, fn, positions, depth)
        self.collect()

    def viol(self, kind, node, text):
        k = (kind, node.line(), text[:40])
        if k in self._vseen:
            return
        self._vseen.add(k)
        self.violations.append((kind, node, text))

    def has_output(self, name):
        """a multiplication / exponentiation writes a result through a pointer; a helper with only const pointer and
        scalar parameters is a predicate on public shape, analysed through its summary like any other callee"""
        prog = self.eng.prog
        cal = prog.callees.get(name) or (prog.library.callees.get(name) if getattr(prog, "library", None) is not None else None)
        if not cal:
            return True
        return any("pc" in p and not p["pc"] for p in cal["params"])

    def const_select(self, cond):
        fn = self.fn
        for el in fn.all_elements():
            for sub in ir.walk(fn, el.e):
                if sub[0] == "?" and len(sub) == 4 and sub[1] == cond:
                    a, b = ir.peel(fn, sub[2]), ir.peel(fn, sub[3])
                    return isinstance(a, list) and a[0] == "i" and isinstance(b, list) and b[0] == "i"
        return False

    def collect(self):
        fn = self.fn
        for n in self.g.nodes:
            st = self.IN.get(n)
            if st is None:
                continue
            if n.kind == "br" and not n.proto:
                t = n.info.get("term")
                if t and t.get("c") is not None and self.tainted(t["c"], st):
                    cond = ir.peel(fn, t["c"])
                    # reviewed value tests on group elements
                    calls = [c[1] for c in ir.calls_in(fn, cond, True)]
                    if isinstance(cond, list) and cond and cond[0] == "v" and fn.vars[cond[1]].get("k") == "l":
                        # the test held in a local that is assigned once (const int z = f(..); if (z) ..)
                        defs = [sub for el in fn.all_elements() for sub in ir.walk(fn, el.e)
                                if (sub[0] == "d" and sub[1] == cond[1] and sub[2] is not None) or (sub[0] == "=" and ir.strip_casts(sub[1]) == cond)]
                        if len(defs) == 1:
                            calls += [c[1] for c in ir.calls_in(fn, defs[0][2], True)]
                    if any((fn.name, c) in REVIEWED_BRANCHES for c in calls):
                        continue
                    if t["k"] == "ConditionalOperator" and self.const_select(t["c"]):
                        continue    # `x == 0 ? A : B` with constant arms: a value selection (setcc/cmov), no control decision
                    self.viol("branch", n, "%s condition `%s` depends on secret data" % (t["k"].replace("Stmt", "").lower(), fn.fmt(t["c"])[:70]))
            elif n.kind == "el" and not n.proto:
                e = n.el.e
                for sub in ir.walk(fn, e):
                    if sub[0] == "x" and self.tainted(sub[2], st):
                        b = ir.base_var(fn, sub[1])
                        if b is not None:
                            v = fn.vars[b]
                            if self.prim or TABLE_TYPES.match(v.get("ot", v["t"])) or TABLE_TYPES.match(v["t"]):
                                self.viol("index", n, "subscript `%s` of `%s` depends on secret data" % (fn.fmt(sub[2])[:40], v["n"]))
                    elif sub[0] == "k" and isinstance(sub[1], dict) and "pc" in sub[1]:
                        # an integer computed from secret data turned into a pointer: the address accessed follows the secret
                        op = ir.peel(fn, sub[2])
                        isint = False
                        if isinstance(op, list) and op and op[0] == "v":
                            vt = fn.vars[op[1]]
                            isint = "pc" not in vt and "dims" not in vt and not vt.get("vla")
                        elif isinstance(op, list) and op and op[0] in ("b", "?"):
                            isint = True
                        if isint and self.tainted(op, st):
                            self.viol("address", n, "pointer `%s` is computed from secret data: the address accessed depends on it" % fn.fmt(sub)[:50])
                    elif sub[0] == "b" and sub[1] in ("/", "%") and self.prim and (self.tainted(sub[2], st) or self.tainted(sub[3], st)):
                        self.viol("div", n, "division on secret data: `%s`" % fn.fmt(sub)[:60])
                    elif sub[0] == "c" and sub[1]:
                        tin = self.arg_taint(sub, st)
                        if not tin:
                            continue
                        if self.prim:
                            if not PRIMS.match(sub[1]):
                                self.viol("call", n, "secret data passed to `%s`, which is not a constant-time primitive" % sub[1])
                        elif SCALAR_OPS.match(sub[1]) and sub[1] not in self.ct_set and self.has_output(sub[1]):
                            helper = self.eng.prog.get(sub[1], near=fn)
                            if helper is not None and helper.static and helper.rfile == fn.rfile and self.nest < 2 and helper is not fn:
                                # a static helper of this file (a block moved out of the routine): what it does with the
                                # secret is judged as if it stood here
                                pos = [i for i, a in enumerate(sub[2]) if i < len(helper.params) and self.tainted(a, st)]
                                inner = CTChecker(self.eng, helper, pos, self.depth, prim=False, ct_set=self.ct_set, nest=self.nest + 1)
                                for kind, node2, text in inner.violations:
                                    self.viol(kind, n, text)
                            else:
                                self.viol("delegate", n, "secret scalar handed to `%s`, which is not a regular / constant-time routine" % sub[1])


def rule_prims(ctx, prog, chk, eng):
    n = 0
    for fn in prog.all:
        base = fn.name.split("__")[-1]
        if not PRIMS.match(base):
            continue
        pos = [i for i, pv in enumerate(fn.params) if fn.vars[pv]["n"] not in PRIM_PUBLIC]
        c = CTChecker(eng, fn, pos, 1, prim=True)
        n += 1
        if c.violations:
            for kind, node, text in c.violations:
                chk.fail("CT-PRIM", fn, kind, text, line=node.line())
        else:
            chk.ok("CT-PRIM", fn, "all", "no branch, subscript, division or foreign call depends on %s" % ", ".join(fn.vars[fn.params[i]]["n"] for i in pos), line=fn.line)
    return n


def rule_algs(ctx, prog, chk, eng):
    n = 0
    present = set()
    for fn in prog.all:
        base = fn.name.split("__")[-1]
        if base in CT_ALGS:
            present.add(fn.name)
    ct_set = set(CT_ALGS) | present
    for fn in prog.all:
        base = fn.name.split("__")[-1]
        if base not in CT_ALGS:
            continue
        sec = CT_ALGS[base]
        pos = [i for i, pv in enumerate(fn.params) if fn.vars[pv]["n"] == sec]
        if not pos:
            raise AnalysisBroken("CT-ALG: %s has no parameter named `%s` any more; the table of secret parameters must be re-read" % (fn.name, sec))
        c = CTChecker(eng, fn, pos, 2, prim=False, ct_set=ct_set)
        n += 1
        if c.violations:
            seen = {}
            for kind, node, text in c.violations:
                # object: kind + callee / variable so that findings are keyed without line numbers
                m = re.search(r"`([^`]*)`", text)
                obj = re.sub(r"\s+", "", "%s:%s" % (kind, (m.group(1) if m else "")[:40]))
                k = seen.get(obj, 0)
                seen[obj] = k + 1
                chk.fail("CT-ALG", fn, obj if k == 0 else "%s#%d" % (obj, k), text, line=node.line())
        else:
            chk.ok("CT-ALG", fn, "all", "no branch, table subscript or delegation depends on the content of `%s`" % sec, line=fn.line)
    return n


def analyse(ctx, prog, chk):
    chk.used_program(prog)
    eng = TaintEngine(ctx, prog)
    return {"prims": rule_prims(ctx, prog, chk, eng), "algs": rule_algs(ctx, prog, chk, eng)}


def selfcheck(ctx, prog, chk):
    analyse(ctx, prog, chk)


def run(ctx, chk):
    chk.assumptions = ["explicit flows only (no implicit flows through control dependence other than the reported branches)",
                       "the digit count of integers, bn_bits/bn_sign/bn_is_zero of the input scalar and the sign of its copies / reductions are public, as the property states; the sign of other derived integers (sub-scalars of a decomposition) is secret",
                       "field and integer arithmetic callees are treated as atomic group-level or sub-group-level operations"]
    c = analyse(ctx, ctx.program("BASE"), chk)
    chk.floor("CT-PRIM", "constant-time primitives", c["prims"], 15)
    chk.floor("CT-ALG", "regular / ladder algorithm bodies", c["algs"], 25)
    # the Edwards forms only exist at 255 bits
    analyse(ctx, ctx.program("P255"), chk)
    if chk.tier == "thorough":
        analyse(ctx, ctx.program("P381"), chk)
