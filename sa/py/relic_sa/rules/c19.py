"""C19 — error handling and library context behave as a well-defined state machine.

Rules (DESIGN.md section 3, C19):
  TRY-BALANCE      handler chain restored on every path of every function
  REGION-DEPTH     number of installed handlers at a statement = number of enclosing try-bodies
  FINALLY-ONCE     finaliser entered exactly once on the normal and on the caught path, before the handler
  FINALLY-EXIT     no return/goto leaves a finaliser
  FINALLY-PURE     nothing called from a finaliser can complete a TRY or throw (it would clear ctx->caught)
  THROW-CODE       sticky code stored first; with a handler installed a throw never falls through
  CTX-WRITERS      protocol fields of the context written only by the protocol
  NO-SHARED-STATE  no writable file-scope/static state besides the context pointer (thread-local under MULTI)
  INSTALL-MUST     (c19_install.py) every normal return of a parameter setter passed the installation sequence
  INIT-RESET       (c19_order.py) every ->X_id identifier a selection stores is also stored on the way from core_init
  FLAG-BOTH        (c19_stale.py) a context flag that a setter only gives constants is stored on every returning path
  STALE-READ       (c19_stale.py) a function that assigns a context field does not read it before its own assignment
  SET-ORDER        (c19_order.py) a setter stores a context field before calling anything that (transitively) reads it
  HIST-FREE        (c19_hist.py) no context field is updated from its own old value before the same call assigned it
"""
from .. import ir, xcfg, engines
from ..facts import AnalysisBroken

EXPLANATION = (
    "Static decision of the structural clauses of C19 over every function of the library as parsed by clang under "
    "the build's configuration header(s): the setjmp/longjmp TRY/CATCH/FINALLY/THROW protocol is re-interpreted "
    "semantically on clang's CFG (exploded by the finite protocol state: loop counters, caught flag, handler stack) "
    "and the rules TRY-BALANCE, REGION-DEPTH, FINALLY-ONCE, FINALLY-EXIT, FINALLY-PURE, THROW-CODE, CTX-WRITERS, "
    "NO-SHARED-STATE (+ thread-local storage under MULTI) are evaluated on all paths. Decides: handler chain restored, finaliser "
    "runs exactly once and before the handler, sticky code written only by the protocol, independent state per "
    "context/thread. Does not decide value-level equality "
    "after re-parameterisation nor the dynamic nesting as a full state machine beyond these invariants. Nothing of RELIC is executed.")

SELFTEST_CONFIGS = ["BASE"]
# rules that interpret the expansion of /repo's own protocol macros (see selftest.settle)
MACRO_RULES = ("TRY-BALANCE", "REGION-DEPTH", "FINALLY-ONCE", "THROW-CODE", "FINALLY-PURE")

PROTO_FIELDS = {"code", "last", "caught", "error", "number"}
CTX_FIELD_WRITERS = {"err_get_code", "err_get_msg", "core_init"}
CORE_CTX_WRITERS = {"core_init", "core_clean", "core_set"}
# one named symbol per line, with its reason
SHARED_ALLOW = {
    "core_ctx": "the context pointer itself (per thread under MULTI); written only by core_init/core_clean/core_set",
    "first_ctx": "the default context object core_ctx points to; all library state lives in it",
    "core_thread_initializer": "MULTI only: per-process thread initialiser, written only by core_set_thread_initializer",
    "core_init_ptr": "MULTI only: argument of the thread initialiser, written only by core_set_thread_initializer",
}
SHARED_WRITERS = {
    "core_ctx": CORE_CTX_WRITERS,
    "first_ctx": {"core_init"},
    "core_thread_initializer": {"core_set_thread_initializer"},
    "core_init_ptr": {"core_set_thread_initializer"},
}


def lib_functions(prog):
    return [fn for fn in prog.all]


# ---------------------------------------------------------------------- TRY-BALANCE / REGION-DEPTH
def rule_balance(ctx, prog, chk):
    n_constructs = 0
    for fn in lib_functions(prog):
        g = ctx.xcfg(prog, fn)
        nc = len(fn.constructs)
        n_constructs += nc
        if nc == 0 and not g.imbalances:
            continue
        # one obligation per construct and one for the function exits
        bad_lines = {}
        for node, msg in g.imbalances:
            bad_lines.setdefault(node.line(), msg)
        if g.imbalances:
            node, msg = g.imbalances[0]
            trace = ["%s:%d %s" % (fn.rfile, best_line(n), m) for n, m in g.imbalances[:8]]
            chk.fail("TRY-BALANCE", fn, "handler-chain", msg, line=best_line(node), trace=trace)
        else:
            chk.ok("TRY-BALANCE", fn, "handler-chain", "%d construct(s): every pop removes exactly the handler pushed, depth 0 at every exit" % nc, line=fn.line)
        for _ in range(max(nc - 1, 0)):
            chk._count("TRY-BALANCE", fn, True)
        # REGION-DEPTH: installed handlers == enclosing try bodies, at every user statement
        bad = None
        checked = 0
        for n in g.nodes:
            if n.kind not in ("el", "throw") or n.state is None:
                continue
            if n.kind == "el" and n.proto:
                continue
            el = n.el
            want = sum(1 for r, _ in el.rg if r == "T")
            # handlers installed inside a catch/finally body of an outer construct nest normally
            have = len(n.state.stack)
            checked += 1
            if have != want and bad is None:
                bad = (n, have, want)
        if bad:
            n, have, want = bad
            chk.fail("REGION-DEPTH", fn, "depth", "statement enclosed by %d try-bodies executes with %d handler(s) installed: %s" % (want, have, fn.fmt(n.el.e)[:80]), line=n.line())
        elif checked:
            chk.ok("REGION-DEPTH", fn, "depth", "%d statement instances agree" % checked, line=fn.line)
    return n_constructs


def best_line(node):
    """line of a node, looking back to the nearest predecessor that has one"""
    seen = set()
    work = [node]
    while work:
        n = work.pop(0)
        if n.id in seen:
            continue
        seen.add(n.id)
        if n.line():
            return n.line()
        for p, _ in n.pred:
            work.append(p)
    return 0


# ---------------------------------------------------------------------- FINALLY-ONCE / FINALLY-EXIT
def in_region(n, role, k):
    rg = None
    if n.el is not None:
        rg = n.el.rg
    elif n.kind == "br":
        t = n.info.get("term")
        if t:
            rg = t["rg"]
    if not rg:
        return False
    return (role, k) in rg


def is_user(n):
    """a node that stands for code written by the user (not protocol, not a bare block end)"""
    if n.kind in ("el", "throw"):
        return not n.proto or n.kind == "throw"
    if n.kind == "br":
        return bool(n.info.get("term")) and not n.proto
    return False


def real_succ(n):
    """successors of n, looking through bare block ends (no terminator)"""
    out = []
    seen = set()
    work = list(n.succ)
    while work:
        m, label = work.pop()
        if m.id in seen:
            continue
        seen.add(m.id)
        if m.kind == "br" and not m.info.get("term"):
            for m2, l2 in m.succ:
                work.append((m2, label if label is not None else l2))
        else:
            out.append((m, label))
    return out


def node_rg(n):
    if n.el is not None:
        return n.el.rg
    if n.kind == "br":
        t = n.info.get("term")
        if t:
            return t["rg"]
    return None


def rule_finally_once(ctx, prog, chk):
    n = 0
    for fn in lib_functions(prog):
        if not fn.constructs:
            continue
        g = ctx.xcfg(prog, fn)
        # constructs with a non-empty finaliser
        fks = set()
        cks = set()
        for nd in g.nodes:
            rg = node_rg(nd)
            if rg:
                for r, k in rg:
                    if r == "F":
                        fks.add(k)
                    elif r == "C":
                        cks.add(k)
        for k in sorted(fks):
            n += 1
            pops = []
            # the pop nodes of construct k: `ctx->last = _last` reached with the handler of k on top
            # identify by: predecessor chain contains region T k or handler entry; simpler: pops whose
            # successors reach region F k before any other pop
            problems = []
            # count F-entries along paths starting at every pop node
            for p in [x for x in g.nodes if x.kind == "el" and "pop" in x.info]:
                res = count_entries(g, p, k)
                if res is None:
                    continue   # this pop does not belong to construct k
                pops.append(p)
                problems += res
            if not pops:
                problems.append((fn.line, "finaliser of construct %d is never reached from a handler epilogue" % k))
            # FINALLY-EXIT
            for nd in g.nodes:
                if not in_region(nd, "F", k):
                    continue
                for m, label in real_succ(nd):
                    if label == "raise":
                        continue
                    if m.kind == "exit":
                        problems.append((nd.line(), "return leaves the finaliser"))
                    elif is_user(m) and not in_region(m, "F", k):
                        # leaving to user code outside the finaliser without passing the protocol loop
                        problems.append((nd.line(), "jump out of the finaliser to line %d" % m.line()))
            if problems:
                ln, msg = problems[0]
                chk.fail("FINALLY-ONCE", fn, "finally#%d" % k, msg, line=ln, trace=["%s:%d %s" % (fn.rfile, l, m) for l, m in problems[:8]])
            else:
                chk.ok("FINALLY-ONCE", fn, "finally#%d" % k, "entered exactly once on every path after the handler epilogue, before the catch-body", line=fn.constructs[k]["l"] if k < len(fn.constructs) else fn.line)
    return n


def count_entries(g, pop, k):
    """forward analysis from a pop node: set of possible numbers of entries
    into region F_k (saturating at 2).  Returns a list of problems, or None if
    no path from this pop enters F_k/C_k at all (pop of another construct)."""
    start = frozenset([0])
    IN = {pop: start}
    work = [pop]
    touched = False
    problems = []
    seen_after = set()
    while work:
        n = work.pop()
        s = IN[n]
        for m, label in real_succ(n):
            t = s
            if m.kind in ("el", "br", "throw") and in_region(m, "F", k) and not in_region(n, "F", k):
                t = frozenset(min(c + 1, 2) for c in s)
                touched = True
            stop = False
            if m.kind in ("exit", "raise", "noret"):
                stop = True
            elif m.kind == "el" and "push" in m.info and not (node_rg(m) and any(kk == k for _, kk in node_rg(m))):
                # next construct / loop back to the same construct: end of this one
                stop = True
            elif is_user(m) and not in_region(m, "F", k) and not in_region(m, "C", k):
                stop = True
            if in_region(m, "C", k) and not in_region(n, "C", k):
                touched = True
                if t != frozenset([1]):
                    problems.append((m.line(), "catch-body entered after %s finaliser run(s)" % sorted(t)))
            if stop:
                key = (m.id, t)
                if key not in seen_after:
                    seen_after.add(key)
                    if t != frozenset([1]):
                        # paths that leave by an exception raised inside F itself have count 1 too
                        problems.append((m.line() or n.line(), "construct left after %s finaliser run(s)" % sorted(t)))
                continue
            cur = IN.get(m)
            new = t if cur is None else (cur | t)
            if new != cur:
                IN[m] = new
                work.append(m)
    if not touched:
        return None
    return problems


# ---------------------------------------------------------------------- FINALLY-PURE
def rule_finally_pure(ctx, prog, chk):
    cg = ctx.callgraph(prog)

    def impure_local(f):
        if f.constructs:
            return True
        for el in f.all_elements():
            if el.tk is not None:
                return True
        if cg.indirect.get(f):
            return True
        return False
    impure = cg.closure(impure_local)
    ncalls = 0
    for fn in lib_functions(prog):
        if not fn.constructs:
            continue
        bad = []
        cnt = 0
        for el in fn.all_elements():
            if not any(r == "F" for r, _ in el.rg):
                continue
            # a TRY nested in the finaliser would itself be a violation
            if any(m in xcfg.PROTO_MACROS for m, _ in el.ms):
                bad.append((el.line, "error-handling construct inside a finaliser"))
                continue
            for c in ir.calls_in(fn, el.e):
                cnt += 1
                if c[1] is None:
                    bad.append((el.line, "indirect call in finaliser"))
                    continue
                gfn = prog.get(c[1], near=fn)
                if gfn is not None and gfn in impure:
                    bad.append((el.line, "finaliser calls %s, which can complete a TRY or throw and would clear ctx->caught" % c[1]))
        ncalls += cnt
        if bad:
            chk.fail("FINALLY-PURE", fn, "finaliser-calls", bad[0][1], line=bad[0][0], trace=["%s:%d %s" % (fn.rfile, l, m) for l, m in bad[:8]])
        elif cnt:
            chk.ok("FINALLY-PURE", fn, "finaliser-calls", "%d call(s), all to leaf release functions" % cnt, line=fn.line)
    return ncalls


# ---------------------------------------------------------------------- THROW-CODE
def rule_throw_code(ctx, prog, chk):
    n = 0
    for fn in lib_functions(prog):
        regs = xcfg.find_throw_regions(fn)
        for key, r in regs.items():
            n += 1
            msg = check_throw_region(fn, r)
            obj = "throw@%d" % (sorted(regs).index(key))
            if msg:
                chk.fail("THROW-CODE", fn, obj, msg, line=r.els[0].line)
            else:
                chk.ok("THROW-CODE", fn, obj, "code=RLC_ERR stored before any branch; with a handler installed every path ends in longjmp", line=r.els[0].line)
    return n


def check_throw_region(fn, r):
    # entry = the element of the region with no predecessor inside the region
    els = set(id(e) for e in r.els)
    blocks = {}
    for e in r.els:
        blocks.setdefault(e.block.id, []).append(e)
    # entry block: the block whose first region element is not preceded (in CFG) by region members
    entry = None
    for bid, es in blocks.items():
        b = fn.blocks[bid]
        first = min(es, key=lambda e: e.idx)
        preds_in = False
        if not b.preds and bid != fn.entry:
            continue    # unreachable block (pruned constant branch)
        if first.idx > 0 and b.els[first.idx - 1].tk == r.key:
            preds_in = True
        if first.idx == 0:
            for p in b.preds:
                pb = fn.blocks[p]
                if (pb.els and pb.els[-1].tk == r.key) or (pb.term and pb.term.get("tk") == r.key) or (not pb.els and not pb.term and _empty_in_region(fn, pb, r.key)):
                    preds_in = True
        if not preds_in:
            if entry is not None:
                return "throw expansion has more than one entry"
            entry = (b, first.idx)
    if entry is None:
        if all((not fn.blocks[bid].preds) or _unreachable(fn, bid) for bid in blocks):
            return None     # the whole expansion is unreachable under this configuration (pruned constant condition)
        return "throw expansion has no entry"
    b, i0 = entry
    # 1. code store in the entry block, before the terminator
    store = None
    for e in b.els[i0:]:
        if e.tk != r.key:
            break
        t = e.e
        if t[0] == "=" and t[1][0] == "m" and t[1][2] == "code" and t[1][4] in xcfg.CTX_RECS:
            v = xcfg.const_of(fn, t[2])
            if v == 1:
                store = e
            break_ = False
    if store is None:
        return "ctx->code = RLC_ERR is not stored unconditionally at the start of the throw"
    # 2. abstract interpretation over (last==NULL?, last->block==1?)
    start = (b.id, i0, None, None)
    seen = set()
    work = [start]
    while work:
        bid, i, lnull, b1 = work.pop()
        if (bid, i, lnull, b1) in seen:
            continue
        seen.add((bid, i, lnull, b1))
        blk = fn.blocks[bid]
        if i < len(blk.els):
            e = blk.els[i]
            if e.tk != r.key:
                # fell out of the region
                if lnull is False and b1 is True:
                    return "a throw with a handler installed (last != NULL, block == 1) can fall through without longjmp"
                if lnull is None or (lnull is False and b1 is None):
                    return "a throw can fall through on a path that never tested for an installed handler"
                continue
            t = e.e
            if t[0] == "=" and t[1][0] == "m" and t[1][2] == "last" and t[1][4] in xcfg.CTX_RECS:
                # ctx->last = &ctx->error : from now on "no handler" is recorded
                work.append((bid, i + 1, True, b1))
            else:
                work.append((bid, i + 1, lnull, b1))
            continue
        if blk.noreturn:
            # must be longjmp to last->addr
            ok = False
            for e in blk.els:
                for c in ir.calls_in(fn, e.e):
                    if c[1] in ("longjmp", "_longjmp", "siglongjmp"):
                        ok = True
            if not ok:
                return "throw ends in a no-return call other than longjmp"
            continue
        term = blk.term
        if term is not None and term.get("tk") != r.key and blk.els and blk.els[-1].tk != r.key:
            continue
        if term is None or len(blk.succ) < 2:
            if term is None and not blk.els and not _empty_in_region(fn, blk, r.key):
                # left the region through an empty join block
                if lnull is False and b1 is True:
                    return "a throw with a handler installed can fall through without longjmp"
                continue
            for s in blk.succ:
                if s is not None:
                    work.append((s, 0, lnull, b1))
            continue
        if term.get("tk") != r.key:
            if lnull is False and b1 is True:
                return "a throw with a handler installed can fall through without longjmp"
            continue
        cond = term.get("c")
        which, truth_means = classify_throw_cond(fn, cond)
        for idx, s in enumerate(blk.succ[:2]):
            if s is None:
                continue
            truth = idx == 0
            l2, b2 = lnull, b1
            if which == "lnull":
                val = truth if truth_means else (not truth)
                if lnull is not None and lnull != val:
                    continue
                l2 = val
            elif which == "b1":
                val = truth if truth_means else (not truth)
                if b1 is not None and b1 != val:
                    continue
                b2 = val
            work.append((s, 0, l2, b2))
    return None


def _unreachable(fn, bid):
    seen = {fn.entry}
    work = [fn.entry]
    while work:
        b = work.pop()
        for s in fn.blocks[b].succ:
            if s is not None and s not in seen:
                seen.add(s)
                work.append(s)
    return bid not in seen


def _empty_in_region(fn, blk, key):
    # an empty block belongs to the region if all its predecessors do
    for p in blk.preds:
        pb = fn.blocks[p]
        if pb.term and pb.term.get("tk") == key:
            continue
        if pb.els and pb.els[-1].tk == key:
            continue
        return False
    return bool(blk.preds)


def classify_throw_cond(fn, cond):
    e = ir.strip_casts(fn.resolve(cond)) if cond is not None else None
    if isinstance(e, list) and e and e[0] == "b" and e[1] in ("==", "!="):
        l = ir.strip_casts(fn.resolve(e[2]))
        k = xcfg.const_of(fn, e[3])
        if isinstance(l, list) and l[0] == "m":
            if l[2] == "last" and l[4] in xcfg.CTX_RECS and k == 0:
                return "lnull", e[1] == "=="
            if l[2] == "block" and k == 1:
                return "b1", e[1] == "=="
    return None, None


# ---------------------------------------------------------------------- CTX-WRITERS
def stores_in(fn, e):
    """yield (lhs_tree) of every store expression in element tree e"""
    for n in ir.walk(fn, e):
        if n[0] == "=":
            yield n[1]
        elif n[0] == "o=":
            yield n[2]
        elif n[0] == "u" and n[1] in ("++", "--", "p++", "p--"):
            yield n[2]


def _helpers_of_writers(prog):
    """static functions all of whose callers are the listed accessors (a block of core_init moved into a helper)"""
    callers = {}
    for fn in prog.all:
        for el in fn.all_elements():
            for c in ir.calls_in(fn, el.e):
                if isinstance(c[1], str):
                    g = prog.get(c[1], near=fn)
                    if g is not None:
                        callers.setdefault(g.name, set()).add(fn.name)
    out = set()
    for fn in prog.all:
        cs = callers.get(fn.name)
        if fn.static and cs and cs <= set(CTX_FIELD_WRITERS):
            out.add(fn.name)
    return out


def rule_ctx_writers(ctx, prog, chk):
    n = 0
    per_fn = {}
    helpers = _helpers_of_writers(prog)
    for fn in lib_functions(prog):
        for el in fn.all_elements():
            for lhs in stores_in(fn, el.e):
                l = ir.strip_casts(lhs)
                # direct field store, or store into a sub-object of the field
                x = l
                field = None
                while isinstance(x, list) and x and x[0] in ("m", "x", "u"):
                    if x[0] == "m":
                        if x[4] in xcfg.CTX_RECS and x[2] in PROTO_FIELDS:
                            field = x[2]
                        x = x[1]
                    elif x[0] == "x":
                        x = x[1]
                    else:
                        x = x[2]
                if field is None:
                    continue
                n += 1
                proto = any(m in xcfg.PROTO_MACROS for m, _ in el.ms)
                allowed = proto or fn.name in CTX_FIELD_WRITERS or fn.name in helpers
                per_fn.setdefault(fn, []).append((el.line, field, allowed))
            # address of a protocol field escaping
            for nd in ir.walk(fn, el.e):
                if nd[0] == "u" and nd[1] == "&":
                    x = ir.strip_casts(nd[2])
                    if isinstance(x, list) and x[0] == "m" and x[4] in xcfg.CTX_RECS and x[2] in ("code", "caught", "last"):
                        proto = any(m in xcfg.PROTO_MACROS for m, _ in el.ms)
                        if not proto and fn.name not in CTX_FIELD_WRITERS and fn.name not in helpers:
                            per_fn.setdefault(fn, []).append((el.line, "&" + x[2], False))
    for fn, items in per_fn.items():
        bad = [(l, f) for l, f, a in items if not a]
        if bad:
            chk.fail("CTX-WRITERS", fn, "ctx." + bad[0][1], "protocol field ctx->%s written outside the error-handling protocol" % bad[0][1], line=bad[0][0])
        else:
            chk.ok("CTX-WRITERS", fn, "ctx", "%d protocol-field store(s), all inside TRY/CATCH/THROW expansions or the %s accessors" % (len(items), "/".join(sorted(CTX_FIELD_WRITERS))), line=fn.line)
    return n


# ---------------------------------------------------------------------- NO-SHARED-STATE
def rule_shared_state(ctx, prog, chk, multi=False):
    # definitions of file-scope variables and function-static locals
    gl = {}
    for g in prog.globals:
        if not g.get("def"):
            continue
        gl.setdefault(g["n"], g)
    statics = []
    for fn in lib_functions(prog):
        for i, v in enumerate(fn.vars):
            if v["k"] == "s":
                statics.append((fn, i, v))
    # uses: writes and escaping addresses of globals across the library
    writes = {}     # name -> set(function names)
    for fn in lib_functions(prog):
        gidx = {i: v for i, v in enumerate(fn.vars) if v["k"] in ("g", "s")}
        if not gidx:
            continue
        for el in fn.all_elements():
            for i in storage_writes(prog, fn, el.e):
                if i in gidx:
                    writes.setdefault(gidx[i]["n"], set()).add(fn.name)
            # address taken and stored somewhere / returned
            t = el.e
            if t[0] in ("=", "d", "ret"):
                rhs = t[2] if t[0] in ("=", "d") else t[1]
                if rhs is not None:
                    for nd in ir.walk(fn, rhs):
                        if nd[0] == "u" and nd[1] == "&":
                            v = ir.base_var(fn, nd[2])
                            if v in gidx and not _const_var(gidx[v]):
                                writes.setdefault(gidx[v]["n"], set()).add(fn.name + "(address escapes)")
    n = 0

    def is_const(v):
        return _const_var(v)
    for name, g in sorted(gl.items()):
        n += 1
        file = ir.relpath(g["file"])
        wr = writes.get(name, set())
        if is_const(g):
            chk._count("NO-SHARED-STATE", _Pseudo(name), True)
            continue
        if name in SHARED_ALLOW:
            extra = set(w for w in wr if w.split("(")[0] not in SHARED_WRITERS[name])
            # first_ctx's address is taken by core_init (core_ctx = &first_ctx)
            if extra:
                chk.fail("NO-SHARED-STATE", _Pseudo(name, file), name, "allow-listed global %s is written outside %s: %s" % (name, sorted(SHARED_WRITERS[name]), sorted(extra)), line=g["l"], file=file)
            elif multi and not g.get("tls") and name in ("core_ctx", "first_ctx"):
                chk.fail("NO-SHARED-STATE", _Pseudo(name, file), name, "context variable %s is not thread-local in the MULTI build" % name, line=g["l"], file=file)
            else:
                chk.ok("NO-SHARED-STATE", _Pseudo(name, file), name, "allow-listed (%s); writers %s%s" % (SHARED_ALLOW[name], sorted(wr), "; thread-local" if g.get("tls") else ""), line=g["l"], file=file)
            continue
        if wr:
            chk.fail("NO-SHARED-STATE", _Pseudo(name, file), name, "writable file-scope variable %s is written by %s: state shared between contexts/threads" % (name, sorted(wr)), line=g["l"], file=file)
        else:
            chk.ok("NO-SHARED-STATE", _Pseudo(name, file), name, "non-const but never written and its address never escapes", line=g["l"], file=file)
    for fn, i, v in statics:
        n += 1
        if is_const(v):
            chk._count("NO-SHARED-STATE", fn, True)
            continue
        wr = writes.get(v["n"], set())
        if fn.name in wr or any(w.startswith(fn.name) for w in wr):
            chk.fail("NO-SHARED-STATE", fn, v["n"], "function-static variable %s is written: state shared between contexts/threads" % v["n"], line=v["l"])
        else:
            chk.ok("NO-SHARED-STATE", fn, v["n"], "function-static, never written", line=v["l"])
    if multi:
        # core_get must return the thread-local pointer
        fn = prog.get("core_get")
        if fn is None:
            raise AnalysisBroken("core_get not found")
        ok = False
        for el in fn.all_elements():
            if el.e[0] == "ret" and el.e[1] is not None:
                v = ir.base_var(fn, el.e[1])
                if v is not None and fn.vars[v]["n"] == "core_ctx" and fn.vars[v].get("tls"):
                    ok = True
                else:
                    ok = False
                    break
        if ok:
            chk.ok("NO-SHARED-STATE", fn, "return", "core_get returns the thread-local core_ctx", line=fn.line)
        else:
            chk.fail("NO-SHARED-STATE", fn, "return", "core_get does not return the thread-local context pointer in the MULTI build", line=fn.line)
    return n


def own_storage(fn, lhs):
    """variable whose *own* storage the lvalue `lhs` designates (a pointer
    variable's pointee is not its own storage; an array's elements are)"""
    e = ir.strip_casts(lhs)
    deref = False
    guard = 0
    while isinstance(e, list) and e and guard < 40:
        guard += 1
        t = e[0]
        if t == "v":
            v = fn.vars[e[1]]
            if deref and "dims" not in v:
                return None
            return e[1]
        if t == "m":
            if e[3]:
                deref = True
            e = e[1]
        elif t == "x":
            deref = True
            e = e[1]
        elif t == "u" and e[1] == "*":
            deref = True
            e = e[2]
        elif t == "u" and e[1] == "&":
            deref = False
            e = e[2]
        elif t == "k":
            e = e[2]
        elif t == "b" and e[1] in ("+", "-"):
            e = e[2]
        elif t == "r":
            el = fn.elems.get(e[1])
            if el is None:
                return None
            e = el.e
        else:
            return None
    return None


def storage_writes(prog, fn, e):
    out = set()
    for n in ir.walk(fn, e):
        t = n[0]
        if t in ("=", "o=") or (t == "u" and n[1] in ("++", "--", "p++", "p--")):
            lhs = n[1] if t == "=" else n[2]
            v = own_storage(fn, lhs)
            if v is not None:
                out.add(v)
        elif t == "d":
            if fn.vars[n[1]]["k"] != "s":
                out.add(n[1])
        elif t == "c":
            for i, a in enumerate(n[2]):
                aa = ir.strip_casts(fn.resolve(a))
                # the argument exposes the variable's own storage: &v..., or an array
                v = None
                if isinstance(aa, list) and aa and aa[0] == "u" and aa[1] == "&":
                    v = own_storage(fn, aa[2])
                else:
                    b = ir.base_var(fn, aa)
                    if b is not None and "dims" in fn.vars[b] and own_storage(fn, aa) == b:
                        v = b
                if v is None:
                    continue
                if n[1] is None or engines.callee_writes_arg(prog, fn, n[1], i):
                    out.add(v)
    return out


def _const_var(v):
    if v.get("const"):
        return True
    if "dims" in v and v.get("pc"):
        return True
    return False


class _Pseudo:
    """stand-in for a Function when the site is a variable"""

    def __init__(self, name, rfile=""):
        self.name = name
        self.rfile = rfile


# ---------------------------------------------------------------------- entry points
def analyse(ctx, prog, chk, multi=False, floors=True):
    chk.used_program(prog)
    nc = rule_balance(ctx, prog, chk)
    nf = rule_finally_once(ctx, prog, chk)
    ncalls = rule_finally_pure(ctx, prog, chk)
    nt = rule_throw_code(ctx, prog, chk)
    nw = rule_ctx_writers(ctx, prog, chk)
    ng = rule_shared_state(ctx, prog, chk, multi=multi)
    return {"constructs": nc, "finalisers": nf, "finaliser_calls": ncalls, "throws": nt, "ctx_stores": nw, "globals": ng}


def selfcheck(ctx, prog, chk):
    analyse(ctx, prog, chk, floors=False)
    from . import c19_install
    c19_install.analyse(ctx, prog, chk)
    from . import c19_hist, c19_order
    c19_hist.analyse(ctx, prog, chk)
    c19_order.analyse(ctx, prog, chk)
    c19_order.rule_init_reset(ctx, prog, chk)
    from . import c19_stale
    c19_stale.analyse(ctx, prog, chk)
    c19_stale.rule_flag_both(ctx, prog, chk)


def run(ctx, chk):
    base = ctx.program("BASE")
    c = analyse(ctx, base, chk)
    chk.floor("TRY-BALANCE", "TRY constructs (BASE)", c["constructs"], 900)
    chk.floor("THROW-CODE", "THROW expansions (BASE)", c["throws"], 1100)
    chk.floor("CTX-WRITERS", "protocol-field stores (BASE)", c["ctx_stores"], 5000)
    chk.floor("NO-SHARED-STATE", "file-scope/static variables (BASE)", c["globals"], 20)
    dyn = ctx.program("DYN")
    d = analyse(ctx, dyn, chk)
    chk.floor("FINALLY-PURE", "calls in finalisers (DYN)", d["finaliser_calls"], 3000)
    chk.floor("FINALLY-ONCE", "non-empty finalisers (DYN)", d["finalisers"], 700)
    multi = ctx.program("MULTI")
    m = analyse(ctx, multi, chk, multi=True)
    from . import c19_install
    c19_install.run(ctx, chk)
    from . import c19_hist, c19_order
    c19_hist.run(ctx, chk)
    no = c19_order.analyse(ctx, ctx.program("BASE"), chk)
    chk.floor("SET-ORDER", "calls in setters that read a field stored later", no, 5)
    ni = c19_order.rule_init_reset(ctx, ctx.program("BASE"), chk)
    chk.floor("INIT-RESET", "identifier fields of the context", ni, 4)
    from . import c19_stale
    ns = c19_stale.analyse(ctx, ctx.program("BASE"), chk)
    chk.floor("STALE-READ", "reads of context fields in functions that assign them", ns, 40)
    for cfg in ("P255", "P381"):
        c19_stale.analyse(ctx, ctx.program(cfg), chk)
    nf = c19_stale.rule_flag_both(ctx, ctx.program("BASE"), chk)
    chk.floor("FLAG-BOTH", "context flags that a function only gives constants", nf, 15)
    if chk.tier == "thorough":
        for cfg in ("P255", "P381"):
            p = ctx.program(cfg)
            analyse(ctx, p, chk)
