"""C13 — hashing to groups: structural clauses.

  MAP-COF   every map implementation clears the cofactor (X_mul_cof, eb_mul by the cofactor, three Edwards doublings)
            or delegates to one that does, after the last step that writes the point, on every path to a normal return
  COF-ID    inside X_mul_cof the input is returned unchanged (copy / untouched) only where the cofactor is known to be 1
            (the h = 1 pairing families, or a test of the tabulated cofactor against 1)
  COF-PARAM inside X_mul_cof the family-specific arms multiply by values derived from the curve parameter, the generic
            arm by the tabulated cofactor — never the other way round
  OUT-DEF   X_mul_cof writes its result on every path to a normal return
  MAP-PURE  no map implementation can reach the pseudo-random generator (other than through representation blinding)
            nor writes a file-scope or function-static variable: the point is a function of the input bytes alone
  MAP-DEF   (c13_def.py) no coordinate (component) of the output point is read before the map body assigned it
  INV-GUARD (c13_def.py) an element inverted in a map body was tested for zero (branch or masked replacement) since computed
  RHS-SHAPE (c13_def.py) Horner evaluations of the curve polynomial multiply by the x they squared
  MAP-HIST  (c13_def.py) the ->X_map_* constants of the context are not accumulated across curve selections
"""
import re

from .. import ir, engines
from ..engines import Facts, key
from ..facts import AnalysisBroken

EXPLANATION = (
    "Static decision of the structural clauses of C13 over every hash-to-curve implementation (prime, extension-field, "
    "binary and Edwards curves; 12+ bodies incl. those no test configuration hashes to) and the cofactor-clearing routines: "
    "forward must-dataflow over the exploded CFG shows that the cofactor is cleared (or the work delegated) after the last "
    "write of the point on every path, that the cofactor routines return their input unchanged only where the cofactor is "
    "1 and multiply by the right kind of constant in each arm, and the call graph shows that no map can reach the random "
    "generator or writable static state (determinism). Does not decide equality with the documented construction, sign "
    "conventions, exceptional-input patches, nor termination of retry loops. Nothing of RELIC is executed.")

POINT = re.compile(r"^(ep\d*|eb|ed)_t$")
MUL_COF = re.compile(r"^(ep\d*)_mul_cof$")
H1_FAMILIES = {"EP_BN"}          # pairing families whose G1 cofactor is 1 by construction
PAR_GETTERS = {"fp_prime_get_par"}
COF_GETTERS = re.compile(r"^(ep\d*|eb|ed)_curve_get_cof$")
BN_ARITH = {"bn_neg", "bn_add_dig", "bn_sub_dig", "bn_mul_dig", "bn_div_dig", "bn_sqr", "bn_mul", "bn_add", "bn_sub", "bn_hlv", "bn_dbl", "bn_abs",
            "bn_copy", "bn_lsh", "bn_rsh", "bn_mul_comba", "bn_sqr_comba", "bn_mul_basic", "bn_sqr_basic"}


def map_functions(prog):
    """functions of the *_map.c files whose first parameter is a curve point (the map implementations and wrappers)"""
    out = []
    for fn in prog.all:
        if not (re.search(r"_map\.c$", fn.rfile) or "selftest" in fn.file and "_map" in fn.name):
            continue
        if not fn.params:
            continue
        v = fn.vars[fn.params[0]]
        if v.get("pc") != 0 or not POINT.match(v.get("ot", "")):
            continue
        out.append(fn)
    return out


COMPLETE = re.compile(r"^(ep\d*|eb|ed)_map(_(basic|sswum|swift|dst|rnd|from_field)(_impl)?)?$|_st_map$")


def complete_maps(prog):
    """map functions that clear the cofactor themselves on some path, or hand their point to one that does"""
    cand = map_functions(prog)
    direct = set()
    for fn in cand:
        pk = ["v", fn.params[0]]
        for el in fn.all_elements():
            for c in ir.calls_in(fn, el.e):
                if c[1] and c[2] and ir.peel(fn, c[2][0]) == pk:
                    if MUL_COF.match(c[1]) or re.match(r"^(eb|ed)_(mul(_\w+)?|dbl(_\w+)?)$", c[1]):
                        direct.add(fn)
    # the complete maps by name: entry points and their *_impl / from_field bodies (helpers such as X_map_sswu,
    # X_map_svdw, X_iso, ed_map_ell2_5mod8 are single steps of a map and are not held to the rule)
    for fn in cand:
        if COMPLETE.match(fn.name.split("__")[-1]):
            direct.add(fn)
    names = set(f.name for f in direct)
    changed = True
    sel = set(direct)
    while changed:
        changed = False
        for fn in cand:
            if fn in sel:
                continue
            pk = ["v", fn.params[0]]
            for el in fn.all_elements():
                for c in ir.calls_in(fn, el.e):
                    if c[1] in names and c[2] and ir.peel(fn, c[2][0]) == pk:
                        sel.add(fn)
                        names.add(fn.name)
                        changed = True
    return [f for f in cand if f in sel]


def rule_map_cof(ctx, prog, chk):
    fns = complete_maps(prog)
    names = set(f.name for f in fns)
    # fixpoint: which functions clear the cofactor on every path (directly or by delegation)
    n = 0
    results = {}
    for fn in fns:
        p = fn.params[0]
        pk = ("v", p)
        g = ctx.xcfg(prog, fn)

        def gen(node, s, pre, fn=fn, pk=pk):
            out = []
            for c in ir.calls_in(fn, node.el.e):
                if not c[1] or not c[2]:
                    continue
                a0 = key(fn, c[2][0])
                if a0 != pk:
                    continue
                if MUL_COF.match(c[1]):
                    out.append(("ev", "cof", pk))
                elif re.match(r"^(eb|ed|ep\d*)_mul(_(?!cof|fix|sim|pre|gen)\w+)?$", c[1]) and len(c[2]) >= 3:
                    kk = key(fn, c[2][2])
                    base = kk
                    while isinstance(base, tuple) and base[0] in ("x", "m"):
                        base = base[1]
                    if ("ev", "cofval", base) in pre or ("ev", "cofval", kk) in pre:
                        out.append(("ev", "cof", pk))
                elif re.match(r"^ed_dbl(_\w+)?$", c[1]) and len(c[2]) >= 2 and key(fn, c[2][1]) == pk:
                    cnt = max([a[3] for a in pre if a[0] == "ev" and a[1] == "dbl" and a[2] == pk] + [0]) + 1
                    out.append(("ev", "dbl", pk, cnt))
                    if cnt >= 3:
                        out.append(("ev", "cof", pk))
                elif c[1] in names:
                    out.append(("ev", "cof", pk))          # delegation: the callee is held to the same rule
                elif re.match(r"^(ep\d*|eb|ed)_set_infty$", c[1]):
                    out.append(("ev", "cof", pk))
                elif re.match(r"^(ep\d*|eb|ed)_(norm|neg|blind)$", c[1]) and ("ev", "cof", pk) in pre:
                    out.append(("ev", "cof", pk))          # representation change after clearing
            for c in ir.calls_in(fn, node.el.e):
                if c[1] and COF_GETTERS.match(c[1]) and c[2]:
                    out.append(("ev", "cofval", key(fn, c[2][0])))
            # bookkeeping of the representation after clearing (coordinate-system flag, extended coordinate t)
            if ("ev", "cof", pk) in pre and ("ev", "cof", pk) not in out:
                wp = engines.written_paths(prog, fn, node.el.e)
                mine = [f for v, f in wp if v == pk[1]]
                if mine and all(f in ("coord", "t") for f in mine):
                    out.append(("ev", "cof", pk))
            return out
        def edge_gen(node, label, atoms, fn=fn, pk=pk):
            # the doublings written as a counted loop: leaving `for (i = 0; i < C; i++) ed_dbl(p, p);` with C >= 3
            if label != "F" or node.kind != "br":
                return []
            body = engines.counted_loop_nodes(fn, node, 3)
            if not body:
                return []
            for x in body:
                if x.kind == "el":
                    for cl in ir.calls_in(fn, x.el.e):
                        if cl[1] and re.match(r"^ed_dbl(_\w+)?$", cl[1]) and len(cl[2]) >= 2 and key(fn, cl[2][0]) == pk and key(fn, cl[2][1]) == pk:
                            return [("ev", "cof", pk)]
            return []
        F = Facts(prog, g, gen=gen, edge_gen=edge_gen, mark_thrown=True)
        bad = None
        nexits = 0
        for pr, l in g.exit.pred:
            s = F.IN.get(pr)
            if s is None:
                continue
            s2 = F._transfer(pr, s)
            if s2 is engines.UNIVERSE:
                continue
            s2 = F._edge(pr, l, g.exit, s2)
            if s2 is engines.INFEASIBLE or s2 is engines.UNIVERSE:
                continue
            nexits += 1
            if ("ev", "cof", pk) not in s2:
                bad = pr
        n += 1
        if bad is not None:
            from .c03 import c05_line
            chk.fail("MAP-COF", fn, fn.vars[p]["n"], "a path returns the mapped point without a cofactor-clearing step (X_mul_cof, multiplication by the tabulated cofactor, three Edwards doublings) or a delegation after its last write",
                     line=c05_line(bad, fn))
        else:
            chk.ok("MAP-COF", fn, fn.vars[p]["n"], "%d normal return edge(s): cofactor cleared or delegated on each" % nexits, line=fn.line)
    return n


# ---------------------------------------------------------------------- cofactor routines
def mul_cof_functions(prog):
    return [fn for fn in prog.all if MUL_COF.match(fn.name.split("__")[-1]) and len(fn.params) >= 2]


def rule_cof_shape(ctx, prog, chk):
    n = 0
    for fn in mul_cof_functions(prog):
        r, p = fn.params[0], fn.params[1]
        rk, pk = ("v", r), ("v", p)
        g = ctx.xcfg(prog, fn)

        def gen(node, s, pre, fn=fn, rk=rk, pk=pk):
            out = []
            for c in ir.calls_in(fn, node.el.e):
                if not c[1] or not c[2]:
                    continue
                a0 = key(fn, c[2][0])
                if c[1] in PAR_GETTERS:
                    out.append(("ev", "orig", a0, "par"))
                elif COF_GETTERS.match(c[1]):
                    out.append(("ev", "orig", a0, "cof"))
                elif c[1] in BN_ARITH:
                    # the destination inherits the origin(s) of the bn operands
                    for a in c[2][1:]:
                        ak = key(fn, a)
                        for o in ("par", "cof"):
                            if ("ev", "orig", ak, o) in pre:
                                out.append(("ev", "orig", a0, o))
                if a0 == rk:
                    out.append(("ev", "wr", rk))
                    if re.match(r"^(ep\d*)_copy$", c[1]) and len(c[2]) > 1 and key(fn, c[2][1]) == pk:
                        out.append(("ev", "idcopy", rk))
            return out
        F = Facts(prog, g, gen=gen, mark_thrown=True)
        # --- OUT-DEF and COF-ID at the normal returns
        n += 1
        undefd = idbad = None
        for pr, l in g.exit.pred:
            s = F.IN.get(pr)
            if s is None:
                continue
            s2 = F._transfer(pr, s)
            if s2 is engines.UNIVERSE:
                continue
            h1 = any(a[0] == "cmp" and isinstance(a[1], tuple) and a[1][0] == "c" and a[1][1] == "bn_cmp_dig" and len(a[1][2]) == 2 and a[1][2][1] == ("i", 1)
                     and ("ev", "orig", a[1][2][0], "cof") in s2 and engines.entails(a[2], a[3], "==", 0) for a in s2)
            fam1 = any(a[0] == "cmp" and isinstance(a[1], tuple) and a[1][0] == "c" and a[1][1] == "ep_curve_is_pairf" and a[2] == "==" and family_name(prog, a[3]) in H1_FAMILIES for a in s2)
            if ("ev", "wr", rk) not in s2:
                if not (h1 or fam1) or True:
                    undefd = pr if undefd is None else undefd
            pass
        # COF-ID at every statement that copies the input into the result
        def cof_one(st):
            h1 = any(a[0] == "cmp" and isinstance(a[1], tuple) and a[1][0] == "c" and a[1][1] == "bn_cmp_dig" and len(a[1][2]) == 2 and a[1][2][1] == ("i", 1)
                     and ("ev", "orig", a[1][2][0], "cof") in st and engines.entails(a[2], a[3], "==", 0) for a in st)
            fam1 = any(a[0] == "cmp" and isinstance(a[1], tuple) and a[1][0] == "c" and a[1][1] == "ep_curve_is_pairf" and a[2] == "==" and family_name(prog, a[3]) in H1_FAMILIES for a in st)
            return h1 or fam1
        for nd in g.nodes:
            if nd.kind != "el" or nd.proto:
                continue
            st = F.IN.get(nd)
            if st is None or st is engines.UNIVERSE:
                continue
            for c in ir.calls_in(fn, nd.el.e):
                if c[1] and re.match(r"^(ep\d*)_copy$", c[1]) and len(c[2]) > 1 and key(fn, c[2][0]) == rk and key(fn, c[2][1]) == pk:
                    if not cof_one(st):
                        idbad = nd
        from .c03 import c05_line
        if undefd is not None:
            chk.fail("OUT-DEF", fn, fn.vars[r]["n"], "a path returns normally without ever writing the result `%s`: with distinct arguments the caller receives whatever `%s` held before" % (fn.vars[r]["n"], fn.vars[r]["n"]), line=c05_line(undefd, fn))
        else:
            chk.ok("OUT-DEF", fn, fn.vars[r]["n"], "result written on every path to a normal return", line=fn.line)
        if idbad is not None:
            chk.fail("COF-ID", fn, fn.vars[r]["n"], "the input is returned unchanged on a path on which the cofactor is not known to be 1 (no test of the tabulated cofactor against 1, not a cofactor-one pairing family)", line=c05_line(idbad, fn))
        else:
            chk.ok("COF-ID", fn, fn.vars[r]["n"], "the input is only returned unchanged where the cofactor is 1", line=fn.line)
        # --- COF-PARAM at every multiplication of the routine
        arms = switch_arms(fn, g)
        for nd in g.nodes:
            if nd.kind != "el" or nd.proto:
                continue
            s = F.IN.get(nd)
            if s is None or s is engines.UNIVERSE:
                continue
            for c in ir.calls_in(fn, nd.el.e):
                if not c[1] or not re.match(r"^(ep\d*)_mul(_basic|_big|_lwnaf|_slide|_monty|_lwreg)?$", c[1]) or len(c[2]) < 3:
                    continue
                kk = key(fn, c[2][2])
                origins = set(a[3] for a in s if a[0] == "ev" and a[1] == "orig" and a[2] == kk)
                arm = arms.get(nd.id)
                if arm is None:
                    continue        # not inside the family switch
                infam = arm == "case"
                n += 1
                want = "par" if infam else "cof"
                obj = "%s:%s" % (c[1], fn.fmt(c[2][2]))
                if origins and want not in origins:
                    chk.fail("COF-PARAM", fn, obj, "the %s arm multiplies by a value derived from the %s instead of the %s" % (
                        "family-specific" if infam else "generic", "tabulated cofactor" if "cof" in origins else "curve parameter",
                        "curve parameter" if infam else "tabulated cofactor"), line=nd.line())
                else:
                    chk.ok("COF-PARAM", fn, obj, "multiplier derived from the %s" % ("curve parameter" if infam else "tabulated cofactor"), line=nd.line())
    return n


def switch_arms(fn, g):
    """{node id: 'case' | 'default'} for nodes inside the arms of the switch over ep_curve_is_pairf()"""
    out = {}
    for n in g.nodes:
        if n.kind != "br":
            continue
        t = n.info.get("term")
        if not t or t["k"] != "SwitchStmt" or t.get("c") is None:
            continue
        k = key(fn, t["c"])
        if not (isinstance(k, tuple) and k[0] == "c" and isinstance(k[1], str) and k[1].endswith("_is_pairf")):
            continue
        rc, rd = set(), set()
        for m, l in n.succ:
            if isinstance(l, tuple) and l[0] == "case":
                rc |= set(x.id for x in engines.reachable_from(g, [m], lambda a, b, lab: lab != "raise"))
            elif isinstance(l, tuple):
                rd |= set(x.id for x in engines.reachable_from(g, [m], lambda a, b, lab: lab != "raise"))
        for i in rc - rd:
            out[i] = "case"
        for i in rd - rc:
            out[i] = "default"
    return out


_FAM = {}


def family_name(prog, val):
    lib = prog.library or prog
    if id(lib) not in _FAM:
        m = {}
        fn = lib.get("ep_curve_embed")
        if fn is not None:
            for b in fn.blocks.values():
                if b.label and b.label[0] == "case" and len(b.label[1]) > 2:
                    m[b.label[1][1]] = b.label[1][2]
        _FAM[id(lib)] = m
    return _FAM[id(lib)].get(val, str(val))


# ---------------------------------------------------------------------- MAP-PURE
RAND_ROOTS = {"rand_bytes", "rand_seed"}


def rule_map_pure(ctx, prog, chk):
    cg = ctx.callgraph(prog)
    lib = prog.library
    n = 0
    # functions from which the generator is reachable without going through a blinding helper
    def reaches_rand(start):
        seen = {start}
        work = [start]
        while work:
            f = work.pop()
            if f.name in RAND_ROOTS:
                return f.name
            if re.search(r"_blind$", f.name):
                continue
            outs = set(cg.out.get(f, ()))
            if f not in cg.out and lib is not None:
                outs = set(ctx.callgraph(lib).out.get(f, ()))
            for gname in (cg.ext.get(f, ()) if f in cg.ext else ()):
                if lib is not None:
                    gf = lib.get(gname)
                    if gf is not None:
                        outs.add(gf)
            for gfn in outs:
                if gfn not in seen:
                    seen.add(gfn)
                    work.append(gfn)
        return None
    for fn in complete_maps(prog):
        n += 1
        hit = reaches_rand(fn)
        statics = [v["n"] for v in fn.vars if v["k"] == "s" and not (v.get("const") or ("dims" in v and v.get("pc")))]
        if hit:
            chk.fail("MAP-PURE", fn, "rand", "the map can reach %s (not through representation blinding): the result is not a function of the input bytes alone" % hit, line=fn.line)
        elif statics:
            chk.fail("MAP-PURE", fn, statics[0], "the map keeps data in the function-static variable `%s`: results depend on earlier or concurrent calls" % statics[0], line=fn.line)
        else:
            chk.ok("MAP-PURE", fn, "rand", "no path to the random generator, no writable static state", line=fn.line)
    return n


def analyse(ctx, prog, chk):
    chk.used_program(prog)
    from . import c13_def
    nd, nh, nrs, nig = c13_def.analyse(ctx, prog, chk)
    return {"maps": rule_map_cof(ctx, prog, chk), "cof": rule_cof_shape(ctx, prog, chk), "pure": rule_map_pure(ctx, prog, chk), "def": nd, "hist": nh, "rhs": nrs, "inv": nig}


def selfcheck(ctx, prog, chk):
    analyse(ctx, prog, chk)


def run(ctx, chk):
    c = analyse(ctx, ctx.program("BASE"), chk)
    chk.floor("MAP-COF", "map implementations and wrappers", c["maps"], 12)
    chk.floor("COF-ID", "cofactor routines and their multiplications", c["cof"], 6)
    chk.floor("MAP-PURE", "map implementations and wrappers", c["pure"], 12)
    chk.floor("MAP-DEF", "map implementations and wrappers", c["def"], 12)
    chk.floor("INV-GUARD", "inversions in map bodies", c["inv"], 8)
    chk.floor("RHS-SHAPE", "Horner evaluations of the curve polynomial", c["rhs"], 2)
    chk.floor("MAP-HIST", "self-updates of map-related context fields", c["hist"], 2)
    for cfg in ("P255", "P381"):
        analyse(ctx, ctx.program(cfg), chk)
