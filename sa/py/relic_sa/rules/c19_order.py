"""SET-ORDER (C19, "after any sequence of parameter selections the library computes exactly what a freshly initialised
library with the last selection computes"): inside a function that installs parameters, a context field is stored before
any call to a routine that (transitively) reads that field.  A store that comes after such a call means the routine -
typically the one that precomputes a table or derives further constants - worked with the value the previous selection
left there: the result is right on a fresh library and after selections of the same kind, wrong after others."""
import re

from .. import ir, engines
from ..engines import Facts, key
from ..facts import AnalysisBroken
from . import c19_hist

# (function, field) -> reason
_FP3 = ("the code's own comment names the limitation (the square root in Fp^3 relies on the Frobenius constants this function is about to compute); for the tabulated "
        "primes the search answers the same with unset and with set constants (replayed on K18-P354: cnr3 = 0 on three successive selections)")
_FBD = ("ordering slip (the fast-reduction exponents of the previous polynomial are still set while the tables of the new one are computed), but dense polynomials are "
        "not usable in the analysed configurations: fb_poly_set_dense fails in find_trace on a freshly initialised library already, so no history can be compared")
ORDER_OK = {
    ("fp3_field_init", "fp3_p0"): _FP3, ("fp3_field_init", "fp3_p1"): _FP3, ("fp3_field_init", "fp3_p2"): _FP3, ("fp3_field_init", "frb3"): _FP3,
    ("fb_poly_set_dense", "fb_pa"): _FBD, ("fb_poly_set_dense", "fb_pb"): _FBD, ("fb_poly_set_dense", "fb_pc"): _FBD,
}
# the error protocol's own fields are read by every function that can throw; generator state is an accumulator by definition
IGNORED = {"code", "last", "caught", "error", "number", "reason", "block", "rand", "counter", "seeded", "total", "over", "before", "after"}


def field_reads(prog):
    """{function name: set of context fields read directly}; {function name: callees}"""
    direct, calls = {}, {}
    for fn in prog.all:
        rd = set()
        cs = set()
        for el in fn.all_elements():
            written_nodes = set()
            for sub in ir.walk(fn, el.e):
                if sub[0] == "=":
                    written_nodes.add(id(ir.strip_casts(sub[1])))
            for sub in ir.walk(fn, el.e):
                if sub[0] == "m" and id(sub) not in written_nodes:
                    f = c19_hist.ctx_field(fn, sub)
                    if f is not None:
                        rd.add(f[0])
                if sub[0] == "c" and isinstance(sub[1], str):
                    cs.add(sub[1])
        direct[fn.name] = rd
        calls[fn.name] = cs
    return direct, calls


def closure(direct, calls):
    reads = {k: set(v) for k, v in direct.items()}
    changed = True
    rounds = 0
    while changed and rounds < 30:
        changed = False
        rounds += 1
        for f, cs in calls.items():
            r = reads[f]
            before = len(r)
            for c in cs:
                if c in reads:
                    r |= reads[c]
            if len(r) != before:
                changed = True
    return reads


def rule_init_reset(ctx, prog, chk, root="core_init"):
    """INIT-RESET: every identifier field of the context (`->X_id`, what X_param_get() answers) that some function stores is
    also stored by a function reachable from core_init: the context object survives core_clean() / core_init(), so an
    identifier that only the selection writes still names the previous selection after a re-initialisation, where a
    freshly initialised library answers 0"""
    lib = prog
    while getattr(lib, "library", None) is not None:
        lib = lib.library
    stores = {}
    calls = {}
    byname = {}
    for fn in list(lib.all) + ([] if lib is prog else list(prog.all)):
        byname[fn.name] = fn
        cs = set()
        for el in fn.all_elements():
            for sub in ir.walk(fn, el.e):
                if sub[0] == "=":
                    f = c19_hist.ctx_field(fn, sub[1])
                    if f is not None and re.search(r"_id$", f[0]):
                        stores.setdefault(f[0], set()).add(fn.name)
                if sub[0] == "c" and isinstance(sub[1], str):
                    cs.add(sub[1])
        calls[fn.name] = cs
    roots = [n for n in byname if n.split("__")[-1] == root]
    n = 0
    for r in roots:
        reach = set()
        work = [r]
        while work:
            f = work.pop()
            if f in reach:
                continue
            reach.add(f)
            work += [c for c in calls.get(f, ()) if c in byname]
        prefix = r[:len(r) - len(root)]
        for field in sorted(stores):
            # a variant root (self-test) is judged on the fields its own family stores
            if prefix:
                tag = prefix.strip("_").split("__")[-1]
                if not any(tag in w or w in reach for w in stores[field]):
                    continue
            n += 1
            if stores[field] & reach:
                chk.ok("INIT-RESET", byname[r], field, "stored by %s, reachable from the initialisation" % sorted(stores[field] & reach)[0], line=byname[r].line)
            else:
                chk.fail("INIT-RESET", byname[r], field, "->%s is stored by %s only, none of which the initialisation reaches: after core_clean(); core_init() the identifier still names "
                         "the previous selection" % (field, ", ".join(sorted(stores[field])[:3])), line=byname[r].line)
    return n


def analyse(ctx, prog, chk):
    lib = prog
    while getattr(lib, "library", None) is not None:
        lib = lib.library
    direct, calls = field_reads(lib)
    if lib is not prog:
        d2, c2 = field_reads(prog)
        direct.update(d2)
        calls.update(c2)
    reads = closure(direct, calls)
    n = 0
    used = set()
    for fn in prog.all:
        stores = {}
        for el in fn.all_elements():
            selfs, defs = c19_hist.accesses(prog, fn, el.e)
            for f in defs:
                stores.setdefault(f[0], []).append(el)
        if not stores:
            continue
        g = ctx.xcfg(prog, fn)

        def gen(node, s, pre, fn=fn):
            _, defs = c19_hist.accesses(prog, fn, node.el.e)
            return [("ev", "stored", f[0]) for f in defs]
        F = Facts(prog, g, gen=gen, mark_thrown=True)
        for nd in g.nodes:
            if nd.kind != "el" or nd.proto:
                continue
            st = F.IN.get(nd)
            if st is None or st is engines.UNIVERSE:
                continue
            for c in ir.calls_in(fn, nd.el.e):
                if not isinstance(c[1], str) or c[1] not in reads:
                    continue
                # fields the callee reads, that this function stores somewhere, but has not stored on every path to the call
                _, defs_here = c19_hist.accesses(prog, fn, nd.el.e)
                for f in sorted((reads[c[1]] & set(stores)) - IGNORED):
                    if ("ev", "stored", f) in st or any(d[0] == f for d in defs_here):
                        continue
                    # is a store of f reachable after the call?
                    later = engines.reachable_from(g, [m for m, l in nd.succ])
                    if not any(x.kind == "el" and x.el in stores[f] for x in later):
                        continue
                    n += 1
                    obj = "%s@%s" % (f, c[1])
                    base = fn.name.split("__")[-1]
                    if (base, f) in ORDER_OK:
                        used.add((base, f))
                        chk.ok("SET-ORDER", fn, obj, "reviewed exception: " + ORDER_OK[(base, f)], line=nd.line())
                    else:
                        chk.fail("SET-ORDER", fn, obj, "`%s` (transitively) reads the context field ->%s, which this function stores only afterwards (line %d): the callee works with the value "
                                 "an earlier selection left there" % (c[1], f, stores[f][0].line), line=nd.line())
    if prog.library is None:
        for k in ORDER_OK:
            if k not in used and prog.get(k[0]) is not None:
                raise AnalysisBroken("SET-ORDER: the reviewed exception %s/%s no longer matches; remove it" % k)
    return n
