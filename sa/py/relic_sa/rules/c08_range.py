"""Two ordering / typing rules of C08 ("a result that does not fit ... is reported ... without writing beyond any object, and
the library remains usable afterwards").

GUARD-RANGE  a guard `v OP constant` whose satisfied side reports an error is decidable from the type of v alone only if
             it is the defensive `unsigned < 0` form: an upper-bound test that the variable's type can never satisfy (the
             value was narrowed into uint8_t before `> 255` is asked) refuses nothing, the oversized request goes through
GROW-FIRST   the digit count of an integer is not raised before the capacity request that has to cover it: `c->used = n`
             followed by `bn_grow(c, ..)` leaves used > alloc behind when the request is refused, and every later use of the
             object reads past its digits"""
from .. import ir, engines
from ..engines import key

RANGE = {"unsigned char": (0, 255), "signed char": (-128, 127), "char": (-128, 127), "unsigned short": (0, 65535), "short": (-32768, 32767),
         "unsigned int": (0, 2 ** 32 - 1), "int": (-2 ** 31, 2 ** 31 - 1), "unsigned long": (0, 2 ** 64 - 1), "long": (-2 ** 63, 2 ** 63 - 1),
         "unsigned long long": (0, 2 ** 64 - 1), "long long": (-2 ** 63, 2 ** 63 - 1), "_Bool": (0, 1)}
FLIP = {"<": ">", ">": "<", "<=": ">=", ">=": "<=", "==": "==", "!=": "!="}


def in_lib(fn):
    return fn.rfile.startswith(("src/", "include/")) or "selftest" in fn.file


def rule_guard_range(ctx, prog, chk):
    n = 0
    for fn in prog.all:
        if not in_lib(fn):
            continue
        for b in fn.blocks.values():
            t = getattr(b, "term", None)
            if not t or t.get("c") is None:
                continue
            c = ir.strip_casts(fn.resolve(t["c"]))
            if not (isinstance(c, list) and c and c[0] == "b" and c[1] in FLIP):
                continue
            for l, r, op in ((c[2], c[3], c[1]), (c[3], c[2], FLIP[c[1]])):
                lv = fn.resolve(l)
                if isinstance(lv, list) and lv and lv[0] == "k":
                    continue            # an explicit cast states the intention
                lv = ir.strip_casts(lv)
                rc = ir.peel(fn, r)
                if not (isinstance(lv, list) and lv[0] == "v" and isinstance(rc, list) and rc[0] == "i" and isinstance(rc[1], int)):
                    continue
                v = fn.vars[lv[1]]
                ty = (v.get("c") or "").replace("const ", "").replace("volatile ", "").strip()
                if ty not in RANGE or "pc" in v or "dims" in v:
                    continue
                lo, hi = RANGE[ty]
                k = rc[1]
                n += 1
                never = (op == ">" and k >= hi) or (op == ">=" and k > hi) or (op == "==" and not lo <= k <= hi)
                never_low = (op == "<" and k <= lo) or (op == "<=" and k < lo)
                line = b.els[-1].line if b.els else fn.line
                if never and k < 2 ** 31:
                    chk.fail("GUARD-RANGE", fn, v["n"], "`%s` can never hold for a variable of type %s (range [%d, %d]): the request this guard is meant to refuse was narrowed into `%s` before being tested and goes through" % (
                        fn.fmt(c)[:50], v.get("t", ty), lo, hi, v["n"]), line=line)
                elif never_low and lo < 0:
                    chk.fail("GUARD-RANGE", fn, v["n"], "`%s` can never hold for a variable of type %s" % (fn.fmt(c)[:50], v.get("t", ty)), line=line)
                else:
                    chk.ok("GUARD-RANGE", fn, v["n"], "decidable only at run time (or the defensive `unsigned < 0`)", line=line)
    return n


def rule_grow_first(ctx, prog, chk):
    n = 0
    for fn in prog.all:
        if not in_lib(fn):
            continue
        grows = []
        for el in fn.all_elements():
            for cl in ir.calls_in(fn, el.e):
                if cl[1] in ("bn_grow",) and cl[2]:
                    grows.append((el, key(fn, cl[2][0])))
        if not grows:
            continue
        g = None
        for el in fn.all_elements():
            for sub in ir.walk(fn, el.e):
                if sub[0] != "=":
                    continue
                l = ir.strip_casts(sub[1])
                if not (isinstance(l, list) and l[0] == "m" and l[2] == "used"):
                    continue
                hk = key(fn, l[1])
                if not any(gk == hk for _, gk in grows):
                    continue
                r = ir.peel(fn, sub[2])
                if isinstance(r, list) and r[0] == "i":
                    continue            # a constant count (0, 1) needs no capacity beyond what every integer has
                n += 1
                if g is None:
                    g = ctx.xcfg(prog, fn)
                starts = [nd for nd in g.nodes if nd.kind == "el" and nd.el is el]
                reach = engines.reachable_from(g, starts)
                hit = None
                for nd in reach:
                    if nd.kind == "el" and nd.el is not el:
                        for cl in ir.calls_in(fn, nd.el.e):
                            if cl[1] == "bn_grow" and cl[2] and key(fn, cl[2][0]) == hk:
                                hit = nd
                if hit is not None and not _in_loop_with(g, starts, hit):
                    chk.fail("GROW-FIRST", fn, fn.fmt(l)[:30], "`%s` raises the digit count at line %d before `bn_grow` of the same integer at line %d: when the capacity is refused the object keeps used > alloc and later calls read past its digits" % (
                        fn.fmt(sub)[:50], el.line, hit.el.line), line=el.line)
                else:
                    chk.ok("GROW-FIRST", fn, fn.fmt(l)[:30], "no capacity request of this integer follows the store", line=el.line)
    return n


def _in_loop_with(g, starts, hit):
    """the store and the request sit in one loop (the request of the next iteration follows the store of this one): the
    order inside one iteration is what matters and the request comes first there"""
    back = engines.reachable_from(g, [hit])
    return any(s in back for s in starts)


def rule_window_fit(ctx, prog, chk):
    """WINDOW-FIT: a local table of constant extent N that a loop `i < (1 << (w - k))` fills (or frees) entry by entry holds
    the largest window the function can choose: w only ever receives integer constants in the function, and
    1 << (max w - k) <= N.  (A window ladder extended by one step over a table sized for the old maximum.)"""
    n = 0
    for fn in prog.all:
        if not in_lib(fn):
            continue
        tables = {i: v for i, v in enumerate(fn.vars) if v.get("k") == "l" and v.get("dims") and len(v["dims"]) >= 1 and isinstance(v["dims"][0], int)}
        if not tables:
            continue
        # integer locals that only ever receive constants
        consts, other = {}, set()
        for el in fn.all_elements():
            for sub in ir.walk(fn, el.e):
                tgt = rhs = None
                if sub[0] == "d" and sub[2] is not None:
                    tgt, rhs = sub[1], sub[2]
                elif sub[0] == "=" and ir.strip_casts(sub[1])[0] == "v":
                    tgt, rhs = ir.strip_casts(sub[1])[1], sub[2]
                elif sub[0] == "o=" and ir.strip_casts(sub[2])[0] == "v":
                    other.add(ir.strip_casts(sub[2])[1])
                elif sub[0] == "u" and sub[1] in ("++", "--", "p++", "p--", "&") and ir.strip_casts(sub[2])[0] == "v":
                    other.add(ir.strip_casts(sub[2])[1])
                if tgt is not None:
                    r = ir.peel(fn, rhs)
                    if isinstance(r, list) and r and r[0] == "i" and isinstance(r[1], int):
                        consts.setdefault(tgt, set()).add(r[1])
                    else:
                        other.add(tgt)
        for b in fn.blocks.values():
            t = getattr(b, "term", None)
            if not t or t.get("c") is None or t.get("k") not in ("ForStmt", "WhileStmt"):
                continue
            c = ir.strip_casts(fn.resolve(t["c"]))
            if not (isinstance(c, list) and c and c[0] == "b" and c[1] in ("<", "<=")):
                continue
            iv = ir.strip_casts(fn.resolve(c[2]))
            sh = ir.strip_casts(fn.resolve(c[3]))
            if not (isinstance(iv, list) and iv[0] == "v" and isinstance(sh, list) and sh and sh[0] == "b" and sh[1] == "<<"):
                continue
            one = ir.peel(fn, sh[2])
            if not (isinstance(one, list) and one[0] == "i" and one[1] == 1):
                continue
            amt = ir.strip_casts(fn.resolve(sh[3]))
            k = 0
            wv = amt
            if isinstance(amt, list) and amt and amt[0] == "b" and amt[1] == "-":
                kk = ir.peel(fn, amt[3])
                if not (isinstance(kk, list) and kk[0] == "i"):
                    continue
                k = kk[1]
                wv = ir.strip_casts(fn.resolve(amt[2]))
            if not (isinstance(wv, list) and wv[0] == "v" and wv[1] in consts and wv[1] not in other and fn.vars[wv[1]].get("k") == "l"):
                continue
            wmax = max(consts[wv[1]])
            bound = (1 << (wmax - k)) if wmax - k >= 0 else 0
            if c[1] == "<=":
                bound += 1
            # tables indexed by the loop variable in the body (elements whose line lies in the loop are not tracked: any use in the function)
            for ti, tv in tables.items():
                used = False
                for el in fn.all_elements():
                    for sub in ir.walk(fn, el.e):
                        if sub[0] == "x" and ir.strip_casts(fn.resolve(sub[1])) == ["v", ti] and ir.strip_casts(fn.resolve(sub[2])) == iv:
                            used = True
                if not used:
                    continue
                n += 1
                N = tv["dims"][0]
                if bound > N:
                    chk.fail("WINDOW-FIT", fn, tv["n"], "the loop bounded by `%s` runs to %d for the largest window the function chooses (%s = %d) while `%s` has %d entries: entries %d.. are outside the table" % (
                        fn.fmt(c[3])[:30], bound, fn.vars[wv[1]]["n"], wmax, tv["n"], N, N), line=b.els[-1].line if b.els else fn.line)
                else:
                    chk.ok("WINDOW-FIT", fn, tv["n"], "1 << (%d - %d) = %d <= %d entries" % (wmax, k, bound, N), line=b.els[-1].line if b.els else fn.line)
    return n
