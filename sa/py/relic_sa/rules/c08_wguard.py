"""WRITE-GUARD (C08, "a result that does not fit ... the caller's buffer ... is reported ... without writing beyond any
object"): in every function that receives an output byte buffer together with its capacity (`uint8_t *B` / `char *B`
followed by `size_t len` or `size_t *len`), every write through B - a store B[i], *B++, or B handed (with or without an
offset) to a callee that writes through that argument - happens after the capacity (or a value computed from it) has been examined by a branch on every path, unless the
write is bounded by the capacity itself (memset(B, 0, len)).  A write that precedes the first test of the capacity
violates the ordering the property needs: the overflow is performed, not reported.

This decides the ordering clause only, not that the compared quantity is the right one (BUF-LEN / C07 LEN-AGREE do that
where it is structural)."""
import re

from .. import ir, engines
from ..engines import Facts, key, key_vars
from ..facts import AnalysisBroken

BYTE_PTR = re.compile(r"^(uint8_t|unsigned char|char|int8_t|signed char) \*$")
LEN_TYPE = re.compile(r"^(const )?(size_t|int|unsigned int|uint_t|unsigned long)( \*)?$")
LEN_NAME = re.compile(r"(^|_)(len|size|l)$")

# (function, buffer) -> reason
WGUARD_OK = {
}


def pairs(fn):
    """(buffer param var, capacity param var, capacity is pointer)"""
    out = []
    for i, pv in enumerate(fn.params[:-1]):
        v = fn.vars[pv]
        if not BYTE_PTR.match(v.get("c", v["t"])) or v.get("pc"):
            continue
        nv = fn.vars[fn.params[i + 1]]
        if LEN_TYPE.match(nv.get("c", nv["t"])) and LEN_NAME.search(nv["n"]):
            out.append((pv, fn.params[i + 1], nv.get("c", nv["t"]).endswith("*")))
    return out


def cap_keys(fn, cv, isptr):
    k = ("v", cv)
    return {k, ("u", "*", k)} if isptr else {k}


def mentions_cap(a, cv):
    return cv in engines.atom_vars(a)


def writes(prog, fn, e, bvars, capk):
    """[(text, bounded_by_capacity)] writes through one of the buffer variables in the element"""
    out = []
    for n in ir.walk(fn, e):
        t = n[0]
        if t in ("=", "o=") or (t == "u" and n[1] in ("++", "--", "p++", "p--")):
            lhs = n[1] if t == "=" else n[2]
            l = ir.strip_casts(lhs)
            if isinstance(l, list) and l[0] in ("x", "u") and not (l[0] == "u" and l[1] == "&") and ir.base_var(fn, l) in bvars:
                if l[0] == "u" and l[1] in ("++", "--", "p++", "p--"):
                    continue
                out.append((fn.fmt(lhs)[:40], False))
        elif t == "c":
            for i, a in enumerate(n[2]):
                if ir.base_var(fn, a) not in bvars:
                    continue
                aa = ir.strip_casts(fn.resolve(a))
                if isinstance(aa, list) and (aa[0] == "x" or (aa[0] == "u" and aa[1] == "*")):
                    continue        # an element value, not the pointer
                if n[1] is not None and not engines.callee_writes_arg(prog, fn, n[1], i):
                    continue
                # bounded by the capacity itself: F(B, .., len) with B unshifted
                unshifted = isinstance(aa, list) and aa[0] == "v"
                bounded = unshifted and any(key(fn, b) in capk for j, b in enumerate(n[2]) if j != i)
                out.append(("%s(%s, ..)" % (n[1], fn.fmt(a)[:30]), bounded))
    return out


def analyse(ctx, prog, chk):
    n = 0
    used = set()
    for fn in prog.all:
        ps = pairs(fn)
        if not ps:
            continue
        for bv, cv, isptr in ps:
            capk = cap_keys(fn, cv, isptr)
            # local aliases of the buffer (uint8_t *p = B; p = B + off)
            bvars = {bv}
            changed = True
            while changed:
                changed = False
                for el in fn.all_elements():
                    for sub in ir.walk(fn, el.e):
                        tgt = rhs = None
                        if sub[0] == "d" and sub[2] is not None:
                            tgt, rhs = sub[1], sub[2]
                        elif sub[0] == "=" and ir.strip_casts(sub[1])[0] == "v":
                            tgt, rhs = ir.strip_casts(sub[1])[1], sub[2]
                        if tgt is None or tgt in bvars:
                            continue
                        tv = fn.vars[tgt]
                        if "pc" not in tv:
                            continue
                        r = ir.strip_casts(fn.resolve(rhs))
                        if isinstance(r, list) and r[0] in ("v", "b") and ir.base_var(fn, r) in bvars:
                            bvars.add(tgt)
                            changed = True
            sites = [el for el in fn.all_elements() if writes(prog, fn, el.e, bvars, capk)]
            if not sites:
                continue
            g = ctx.xcfg(prog, fn)

            # locals computed from the capacity carry it (l = len - 1, size = *out_len): flow-insensitive closure
            carriers = {cv}
            changed = True
            while changed:
                changed = False
                for el in fn.all_elements():
                    for sub in ir.walk(fn, el.e):
                        tgt = rhs = None
                        if sub[0] == "d" and sub[2] is not None:
                            tgt, rhs = sub[1], sub[2]
                        elif sub[0] == "=" and ir.strip_casts(sub[1])[0] == "v":
                            tgt, rhs = ir.strip_casts(sub[1])[1], sub[2]
                        if tgt is not None and tgt not in carriers and (key_vars(key(fn, rhs)) & carriers):
                            carriers.add(tgt)
                            changed = True

            def edge_gen(node, label, atoms, carriers=carriers):
                # the capacity (or a value computed from it) has been examined on this path
                for a in atoms:
                    if a[0] in ("cmp", "rel") and (engines.atom_vars(a) & carriers):
                        return [("ev", "captested")]
                return []
            F = Facts(prog, g, edge_gen=edge_gen, mark_thrown=True)
            for nd in g.nodes:
                if nd.kind != "el" or nd.proto:
                    continue
                ws = writes(prog, fn, nd.el.e, bvars, capk)
                if not ws:
                    continue
                st = F.IN.get(nd)
                if st is None or st is engines.UNIVERSE:
                    continue
                tested = ("ev", "captested") in st
                for txt, bounded in ws:
                    n += 1
                    obj = "%s:%s" % (fn.vars[bv]["n"], re.sub(r"\s+", "", txt))
                    if bounded:
                        chk.ok("WRITE-GUARD", fn, obj, "bounded by the capacity `%s` itself" % fn.vars[cv]["n"], line=nd.line())
                    elif tested:
                        chk.ok("WRITE-GUARD", fn, obj, "the capacity `%s` has been examined on every path to the write" % fn.vars[cv]["n"], line=nd.line())
                    elif (fn.name.split("__")[-1], fn.vars[bv]["n"]) in WGUARD_OK:
                        used.add((fn.name.split("__")[-1], fn.vars[bv]["n"]))
                        chk.ok("WRITE-GUARD", fn, obj, "reviewed exception: " + WGUARD_OK[(fn.name.split("__")[-1], fn.vars[bv]["n"])], line=nd.line())
                    else:
                        chk.fail("WRITE-GUARD", fn, obj, "`%s` writes through the caller's buffer `%s` on a path on which its capacity `%s` has not been examined at all: "
                                 "a buffer that is too short is overrun instead of being reported" % (txt, fn.vars[bv]["n"], fn.vars[cv]["n"]), line=nd.line())
    if prog.library is None:
        for k in WGUARD_OK:
            if k not in used and prog.get(k[0]) is not None:
                raise AnalysisBroken("WRITE-GUARD: the reviewed exception %s/%s no longer matches; remove it" % k)
    return n
