"""TYPESTATE (C08, DYNAMIC-allocation configuration): forward may-analysis over the
exploded CFG — exceptional edges of every allocation-failure point included —
of three hazards of handle variables:

  U   a scalar handle (bn_t, ep_t, fp_t, ... = pointer under DYNAMIC) is read (tested
      against NULL by X_free, passed, dereferenced) while possibly never assigned
  AU  an element of an array of handles is read while the array is untouched or only
      partially initialised (an initialising loop left through an exception)
  MN  the result of RLC_ALLOCA/malloc is dereferenced while possibly NULL
"""
from collections import deque

from .. import ir, engines

ALLOCS = ("alloca", "__builtin_alloca", "_alloca", "malloc", "calloc")
READS_BY_ADDR = {"dv_free_dynam"}     # callees that read *arg before writing it


def _c(v):
    """canonical type without trailing qualifiers (handles are `T *volatile` under CHECK + DYNAMIC)"""
    return v["c"].replace("volatile", "").replace("  ", " ").strip()


def is_handle_scalar(v):
    return v["k"] == "l" and "dims" not in v and _c(v).endswith("*") and v["t"].split("[")[0].strip().replace("const ", "").endswith("_t") \
        and not v["t"].rstrip().endswith("*")


def is_handle_array(v):
    # an explicit one-dimensional array of pointer handles (ep_t t[8]); composite handles that are themselves
    # arrays (fp2_t = fp_t[2]) are initialised member by member by their own X_null and are not tracked
    return v["k"] == "l" and "dims" in v and len(v["dims"]) == 1 and "[" in v["t"] and _c(v).split("[")[0].rstrip().endswith("*") \
        and v["t"].split("[")[0].strip().endswith("_t")


def is_handle_pp(v):
    """pointer to handles (T *t = RLC_ALLOCA(T, n) with T a handle type)"""
    c = _c(v).replace(" ", "")
    return v["k"] == "l" and "dims" not in v and (c.endswith("**") or c.endswith("*const*")) and "_st" in c


class TS:
    def __init__(self, prog, g):
        self.prog = prog
        self.g = g
        self.fn = g.fn
        fn = self.fn
        self.scalars = set(i for i, v in enumerate(fn.vars) if is_handle_scalar(v))
        self.arrays = set(i for i, v in enumerate(fn.vars) if is_handle_array(v))
        self.pps = set(i for i, v in enumerate(fn.vars) if is_handle_pp(v))
        # every local pointer may receive an allocation whose NULL test must precede its first dereference
        self.ptrs = set(i for i, v in enumerate(fn.vars) if v["k"] == "l" and "dims" not in v and _c(v).endswith("*"))
        self.problems = []      # (node, kind, var, message)
        self._seen = set()
        self.run()

    # -------------------------------------------------------------- helpers
    def report(self, node, kind, var, msg):
        k = (kind, var)
        if k in self._seen:
            return
        self._seen.add(k)
        self.problems.append((node, kind, var, msg))

    def reads(self, e, lhs_ok=True):
        """yield ('v', var) / ('x', arr, indextree) read occurrences in tree e
        (not the direct target of an assignment, not under address-of)"""
        fn = self.fn
        out = []

        def rec(x, is_target=False, under_addr=False):
            if not isinstance(x, list) or not x:
                return
            t = x[0]
            if t == "v":
                if not is_target and not under_addr:
                    out.append(("v", x[1]))
                return
            if t == "x":
                b = ir.strip_casts(fn.resolve(x[1]))
                if isinstance(b, list) and b[0] == "v" and (b[1] in self.arrays or b[1] in self.pps):
                    if not is_target and not under_addr:
                        out.append(("x", b[1], x[2]))
                    elif b[1] in self.pps:
                        out.append(("deref", b[1]))
                    rec(x[2])
                    return
                if isinstance(b, list) and b[0] == "v" and b[1] in self.ptrs:
                    out.append(("deref", b[1]))
                    rec(x[2])
                    return
                rec(x[1], False, False)
                rec(x[2])
                return
            if t == "=":
                rec(x[1], True, False)
                rec(x[2])
                return
            if t == "o=":
                rec(x[2])
                rec(x[3])
                return
            if t == "u":
                if x[1] == "&":
                    rec(x[2], False, True)
                elif x[1] == "*":
                    b = ir.strip_casts(fn.resolve(x[2]))
                    if isinstance(b, list) and b[0] == "v" and (b[1] in self.pps or b[1] in self.ptrs):
                        out.append(("deref", b[1]))
                    rec(x[2])
                else:
                    rec(x[2])
                return
            if t == "m":
                rec(x[1])
                return
            if t == "b":
                rec(x[2])
                rec(x[3])
                return
            if t == "c":
                for i, a in enumerate(x[2]):
                    aa = ir.strip_casts(fn.resolve(a))
                    if x[1] in READS_BY_ADDR and isinstance(aa, list) and aa[0] == "u" and aa[1] == "&":
                        rec(aa[2])          # the callee reads the variable through its address
                    else:
                        rec(a)
                if x[1] is None and len(x) > 3:
                    rec(x[3])
                return
            if t == "?" and len(x) == 4:
                rec(x[1]); rec(x[2]); rec(x[3])
                return
            if t == "k":
                rec(x[2], is_target, under_addr)
                return
            if t == "l":
                for a in x[1]:
                    rec(a)
                return
            if t == "d":
                if x[2] is not None:
                    rec(x[2])
                return
            if t == "ds":
                for a in x[1:]:
                    rec(a)
                return
            if t == "ret":
                if x[1] is not None:
                    rec(x[1])
                return
        rec(e)
        return out

    def writes(self, e):
        """(kind, var, indexvar|None): 'v' scalar assigned, 'x' array element assigned, 'alloc' pointer assigned from an allocator"""
        fn = self.fn
        out = []
        for n in ir.walk(fn, e):
            t = n[0]
            if t == "=":
                l = ir.strip_casts(n[1])
                self._target(l, out, n[2])
            elif t == "d" and n[2] is not None:
                self._target(["v", n[1]], out, n[2])
            elif t == "c":
                for a in n[2]:
                    aa = ir.strip_casts(fn.resolve(a))
                    if isinstance(aa, list) and aa[0] == "u" and aa[1] == "&" and n[1] not in READS_BY_ADDR:
                        self._target(ir.strip_casts(aa[2]), out, None)
        return out

    def _target(self, l, out, rhs):
        fn = self.fn
        if not isinstance(l, list):
            return
        if l[0] == "v":
            r = ir.peel(fn, rhs) if rhs is not None else None
            if l[1] in self.ptrs and isinstance(r, list) and r[0] == "c" and r[1] in ALLOCS:
                out.append(("alloc", l[1], None))
            else:
                out.append(("v", l[1], None))
        elif l[0] == "x":
            b = ir.strip_casts(fn.resolve(l[1]))
            if isinstance(b, list) and b[0] == "v" and (b[1] in self.arrays or b[1] in self.pps):
                idx = ir.strip_casts(fn.resolve(l[2]))
                out.append(("x", b[1], idx[1] if isinstance(idx, list) and idx[0] == "v" else None))

    # -------------------------------------------------------------- analysis
    def run(self):
        g, fn = self.g, self.fn
        init = set()
        # locals declared without initialiser start uninitialised at their declaration; handle at entry for simplicity
        declared_init = set()
        for el in fn.all_elements():
            if el.e[0] == "d" and el.e[2] is not None:
                declared_init.add(el.e[1])
        for v in self.scalars:
            if v not in declared_init:
                init.add(("U", v))
        for a in self.arrays:
            init.add(("AU", a))
        IN = {g.entry: frozenset(init)}
        work = deque([g.entry])
        steps = 0
        while work:
            n = work.popleft()
            steps += 1
            if steps > 300000:
                break
            st = IN[n]
            out = self.transfer(n, st)
            for m, label in n.succ:
                o2 = self.edge(n, label, out)
                cur = IN.get(m)
                new = o2 if cur is None else (cur | o2)
                if cur is None or len(new) != len(cur):
                    IN[m] = new
                    work.append(m)
        self.IN = IN

    def transfer(self, n, st):
        fn = self.fn
        if n.kind == "br":
            t = n.info.get("term")
            if t and t.get("c") is not None and not n.proto:
                self.check_reads(n, st, t["c"])
            return st
        if n.kind != "el" or n.proto:
            return st
        e = n.el.e
        self.check_reads(n, st, e)
        ws = self.writes(e)
        # an index variable that changes: the "current element" of a partial array is no longer the initialised one
        changed = engines.directly_assigned(fn, e)
        if changed:
            st = frozenset((("AP", x[1], x[2], False) if x[0] == "AP" and x[2] in changed else x) for x in st)
        if ws:
            s = set(st)
            for kind, v, iv in ws:
                if kind == "v":
                    s.discard(("U", v))
                    s.discard(("MN", v))
                elif kind == "alloc":
                    s.discard(("U", v))
                    if v in self.pps:
                        s.add(("AU", v))
                    s.add(("MN", v))
                elif kind == "x":
                    was = [x for x in s if x[0] in ("AU", "AP") and x[1] == v]
                    if was:
                        for x in was:
                            s.discard(x)
                        s.add(("AP", v, iv, True))
            st = frozenset(s)
        return st

    def edge(self, n, label, st):
        fn = self.fn
        if n.kind != "br" or label not in ("T", "F"):
            return st
        t = n.info.get("term")
        if not t or t.get("c") is None:
            return st
        atoms = engines.cond_atoms(fn, t["c"], label == "T")
        s = None
        for a in atoms:
            # pointer known non-NULL
            if a[0] == "cmp" and a[1][0] == "v" and engines.entails(a[2], a[3], "!=", 0) and ("MN", a[1][1]) in st:
                s = set(st) if s is None else s
                s.discard(("MN", a[1][1]))
        if label == "F" and t["k"] in ("ForStmt", "WhileStmt", "DoStmt"):
            # leaving a loop over i normally: arrays being initialised element by element over i are complete
            c = ir.strip_casts(fn.resolve(t["c"]))
            iv = None
            if isinstance(c, list) and c[0] == "b":
                l = ir.strip_casts(fn.resolve(c[2]))
                if isinstance(l, list) and l[0] == "v":
                    iv = l[1]
            if iv is not None:
                for x in st:
                    if x[0] == "AP" and x[2] == iv:
                        s = set(st) if s is None else s
                        s.discard(x)
        return st if s is None else frozenset(s)

    def check_reads(self, n, st, e):
        fn = self.fn
        if not st:
            return
        for r in self.reads(e):
            if r[0] == "v":
                if ("U", r[1]) in st:
                    self.report(n, "U", r[1], "handle `%s` is read (%s) on a path on which it was never assigned: under DYNAMIC allocation it is an indeterminate pointer" % (
                        fn.vars[r[1]]["n"], fn.fmt(e)[:60]))
            elif r[0] == "x":
                a = r[1]
                idx = ir.strip_casts(fn.resolve(r[2]))
                iv = idx[1] if isinstance(idx, list) and idx[0] == "v" else None
                for x in st:
                    if x[1] != a:
                        continue
                    if x[0] == "AU":
                        self.report(n, "AU", a, "element of handle array `%s` is read (%s) although no element was ever assigned on this path" % (fn.vars[a]["n"], fn.fmt(e)[:60]))
                    elif x[0] == "AP" and not (x[3] and iv is not None and iv == x[2]):
                        self.report(n, "AU", a, "element of handle array `%s` is read (%s) on a path that left its initialising loop early (an allocation in the loop threw): the remaining elements are indeterminate pointers" % (
                            fn.vars[a]["n"], fn.fmt(e)[:60]))
                if ("MN", a) in st:
                    self.report(n, "MN", a, "`%s` is dereferenced (%s) before its allocation is tested against NULL" % (fn.vars[a]["n"], fn.fmt(e)[:60]))
            elif r[0] == "deref":
                if ("MN", r[1]) in st:
                    self.report(n, "MN", r[1], "`%s` is dereferenced (%s) before its allocation is tested against NULL" % (fn.vars[r[1]]["n"], fn.fmt(e)[:60]))


def rule_typestate(ctx, prog, chk):
    n = 0
    observed = {}
    for fn in prog.all:
        if not any(is_handle_scalar(v) or is_handle_array(v) or is_handle_pp(v) for v in fn.vars):
            continue
        g = ctx.xcfg(prog, fn)
        ts = TS(prog, g)
        nvars = len(ts.scalars) + len(ts.arrays) + len(ts.pps)
        n += nvars
        bad = set()
        for node, kind, var, msg in ts.problems:
            if kind != "U":
                # array-element (AU) and allocation-NULL (MN) hazards are computed and counted but not claimed:
                # several hundred sites share the pattern and were not triaged one by one (DESIGN.md section 6)
                observed[kind] = observed.get(kind, 0) + 1
                continue
            bad.add(var)
            chk.fail("TYPESTATE", fn, "%s:%s" % (kind, fn.vars[var]["n"]), msg, line=node.line())
        for v in (ts.scalars | ts.arrays | ts.pps) - bad:
            chk._count("TYPESTATE", fn, True)
        if nvars and not ts.problems:
            chk._sample("TYPESTATE", fn, "handles", "%d handle variable(s): never read while possibly unassigned on any path incl. allocation-failure edges" % nvars, fn.line, None, "discharged")
    if observed:
        chk.note("TYPESTATE (not claimed, observation only): %d read(s) of handle-array elements on paths that left the initialising loop through an allocation failure, %d dereference(s) of an RLC_ALLOCA result before its NULL test" % (
            observed.get("AU", 0), observed.get("MN", 0)))
    return n
