"""C06 — bad ciphertexts are rejected with an error rather than returning data.

  LEN-SUB   an unsigned subtraction from an untrusted length parameter of a decryption function cannot wrap
  OUT-CAP   every write of n bytes through an (out, *out_len) parameter pair is preceded by a proof that n fits *out_len
  OUT-GATE  every write through the output of a decryption function is dominated by the authentication / padding
            gates recorded for it in sa/tables/c06_gates.json
  ENC-RANGE an integer plaintext is found strictly below a bound before an encryption succeeds
  DEC-RANGE the integer decoded from the ciphertext bytes is compared with the modulus before its first arithmetic use
  OUT-CLEAN no output event of a decryption function is reachable after its status was set to the error value
  FAIL-ERR  once an authentication, padding or inner-decryption check has failed, no path returns RLC_OK
  STATUS-USE (shared with C05) statuses of padding checkers and of the inner cipher are consumed
"""
import json
import os
import re

from .. import ir, engines, extent
from ..engines import Facts, key
from ..extent import Poly, prove_nonneg
from ..facts import AnalysisBroken, VERIF
from . import c05, c07

EXPLANATION = (
    "Static decision of the rejection clause of C06 over the nine cp_*_dec functions and every function with an "
    "(out, *out_len) parameter pair: forward must-dataflow with branch atoms over the exploded CFG (exceptional edges "
    "included) shows that unsigned length arithmetic on untrusted lengths cannot wrap, that every write through the output "
    "fits the announced capacity and is dominated by the recorded authentication / padding gates, and a may-analysis shows "
    "that after a failed tag comparison, padding check or inner decryption no path returns RLC_OK. Does not decide that "
    "decryption inverts encryption, homomorphic identities, key agreement or share reconstruction (value properties). "
    "Nothing of RELIC is executed.")

TABLE = os.path.join(VERIF, "sa", "tables", "c06_gates.json")
GATE_CALLS = re.compile(r"^(util_cmp_sec|util_cmp_const|memcmp|pad_basic|pad_pkcs1|pad_pkcs2|bc_aes_cbc_dec|padDecrypt)$")
# check -> the relation of its result to 0 that means "failed"
FAIL_WHEN_NONZERO = GATE_CALLS


def dec_functions(prog):
    return [fn for fn in prog.all if re.match(r"^cp_\w+_dec$", fn.name.split("__")[-1])]


def out_pairs(fn):
    names = {fn.vars[i]["n"]: i for i in fn.params}
    pairs = []
    for nm, i in names.items():
        v = fn.vars[i]
        if v["c"] in ("unsigned char *", "char *") and (nm + "_len") in names:
            lv = names[nm + "_len"]
            if fn.vars[lv]["c"].rstrip().endswith("*"):
                pairs.append((i, lv))
    return pairs


# ---------------------------------------------------------------------- LEN-SUB
def rule_len_sub(ctx, prog, chk):
    n = 0
    for fn in dec_functions(prog):
        lens = [i for i in fn.params if "pc" not in fn.vars[i] and fn.vars[i]["n"].endswith("len")]
        if not lens:
            continue
        g = ctx.xcfg(prog, fn)
        F = Facts(prog, g, mark_thrown=True)
        seen = set()
        for nd in g.nodes:
            if nd.kind not in ("el", "br"):
                continue
            s = F.IN.get(nd)
            if s is None or s is engines.UNIVERSE:
                continue
            if nd.kind == "el":
                exprs = [nd.el.e]
            else:
                t = nd.info.get("term")
                exprs = [t["c"]] if t and t.get("c") is not None else []
            for e in exprs:
                for sub in ir.walk(fn, e):
                    if sub[0] == "b" and sub[1] == "-" and len(sub) > 4 and sub[4] == "u":
                        l = ir.peel(fn, sub[2])
                        if not (isinstance(l, list) and l[0] == "v" and l[1] in lens):
                            continue
                        k = (nd.line(), fn.fmt(sub))
                        if k in seen:
                            continue
                        seen.add(k)
                        n += 1
                        a, b = extent.norm_poly(key(fn, sub[2]), s), extent.norm_poly(key(fn, sub[3]), s)
                        obj = re.sub(r"\s+", "", fn.fmt(sub))[:40]
                        if a is not None and b is not None and prove_nonneg(a - b, s):
                            chk.ok("LEN-SUB", fn, obj, "dominated by a test excluding %s < %s" % (fn.fmt(sub[2]), fn.fmt(sub[3])), line=nd.line())
                        else:
                            chk.fail("LEN-SUB", fn, obj, "unsigned `%s` on the untrusted length `%s` is not preceded by a test excluding a shorter input: it wraps and the following reads run past the ciphertext" % (
                                fn.fmt(sub), fn.fmt(sub[2])), line=nd.line())
    return n


# ---------------------------------------------------------------------- OUT-CAP
EXTENT_ARG = {"memset": 2, "memcpy": 2, "memmove": 2}


def rule_out_cap(ctx, prog, chk):
    n = 0
    for fn in prog.all:
        pairs = out_pairs(fn)
        if not pairs:
            continue
        g = ctx.xcfg(prog, fn)
        F = Facts(prog, g, mark_thrown=False)
        for nd in g.nodes:
            if nd.kind != "el" or nd.proto:
                continue
            s = F.IN.get(nd)
            if s is None:
                continue
            for c in ir.calls_in(fn, nd.el.e):
                if not c[1]:
                    continue
                for bv, lv in pairs:
                    for ai, a in enumerate(c[2]):
                        if ir.base_var(fn, a) != bv or not ir.arg_is_pointer(c, ai):
                            continue
                        if not engines.callee_writes_arg(prog, fn, c[1], ai):
                            continue
                        if c[1] in EXTENT_ARG:
                            li = EXTENT_ARG[c[1]]
                        elif c[1].endswith("_write_bin") or c[1].endswith("_write_str"):
                            li = ai + 1
                        else:
                            continue
                        if li >= len(c[2]):
                            continue
                        n += 1
                        off = c07.const_offset(fn, a, bv)
                        need = extent.norm_poly(key(fn, c[2][li]), s)
                        cap = extent.norm_poly(("u", "*", ("v", lv)), s)
                        obj = "%s:%s" % (c[1], fn.vars[bv]["n"])
                        if need is not None and off is not None and cap is not None and prove_nonneg(cap - need - Poly.const(off), s):
                            chk.ok("OUT-CAP", fn, obj, "%s bytes fit *%s" % (need.fmt(fn), fn.vars[lv]["n"]), line=nd.line())
                        else:
                            chk.fail("OUT-CAP", fn, obj, "`%s` writes %s bytes through `%s` without a preceding test that they fit *%s" % (
                                fn.fmt(c)[:60], fn.fmt(c[2][li]), fn.vars[bv]["n"], fn.vars[lv]["n"]), line=nd.line())
    return n


# ---------------------------------------------------------------------- OUT-GATE
def describe_gate(fn, a, st):
    if a[0] != "cmp":
        return None
    k = a[1]
    if not (isinstance(k, tuple) and k[0] == "c" and isinstance(k[1], str) and GATE_CALLS.match(k[1])):
        return None
    # only literal arguments (operation codes, tag lengths) are kept: the gate is "this check succeeded"
    args = [str(x[1]) if isinstance(x, tuple) and x[0] == "i" else "*" for x in k[2]]
    return ("%s(%s)" % (k[1], ",".join(args)), a[2], a[3])


def gate_edge_gen(fn):
    def edge_gen(node, label, atoms):
        out = []
        for a in atoms:
            d = describe_gate(fn, a, ())
            if d is not None:
                out.append(("ev", "gate") + d)      # the check happened with this outcome: immune to later writes
        return out
    return edge_gen


def output_events(prog, fn, g, F):
    """(node, text, gate descriptions) for every write through `out` / store to *out_len in a decryption function"""
    pairs = out_pairs(fn)
    evs = []
    for nd in g.nodes:
        if nd.kind != "el" or nd.proto:
            continue
        s = F.IN.get(nd)
        if s is None:
            continue
        hit = None
        for bv, lv in pairs:
            if c07.bin_writes(prog, fn, nd.el.e, bv, -1):
                hit = "write through %s" % fn.vars[bv]["n"]
            for sub in ir.walk(fn, nd.el.e):
                if sub[0] == "=" and ir.strip_casts(sub[1]) == ["u", "*", ["v", lv]]:
                    hit = "*%s = ..." % fn.vars[lv]["n"]
        if hit:
            descs = set()
            for a in s:
                if a[0] == "ev" and a[1] == "gate":
                    descs.add(tuple(a[2:]))
            evs.append((nd, hit, descs))
    return evs


def load_table():
    if not os.path.exists(TABLE):
        raise AnalysisBroken("gate table %s is missing" % TABLE)
    with open(TABLE) as fh:
        return json.load(fh)


def rule_out_gate(ctx, prog, chk, table):
    n = 0
    for fn in dec_functions(prog):
        base = fn.name.split("__")[-1]
        want = table.get(base)
        if not want or not want["gates"]:
            continue
        g = ctx.xcfg(prog, fn)
        F = Facts(prog, g, mark_thrown=False, edge_gen=gate_edge_gen(fn))
        evs = output_events(prog, fn, g, F)
        if not evs:
            raise AnalysisBroken("OUT-GATE: %s no longer writes its output; its table row must be re-read" % fn.name)
        for gate in want["gates"]:
            n += 1
            missing = [(nd, txt) for nd, txt, descs in evs if not c05.atom_holds(descs, gate)]
            obj = "%s%s%s" % (gate[0], gate[1], gate[2])
            if missing:
                nd, txt = missing[0]
                chk.fail("OUT-GATE", fn, obj, "output is produced (%s) on a path on which the gate %s %s %s does not hold" % (txt, gate[0], gate[1], gate[2]), line=nd.line())
            else:
                chk.ok("OUT-GATE", fn, obj, "dominates all %d output event(s)" % len(evs), line=fn.line)
    return n


# ---------------------------------------------------------------------- FAIL-ERR
def rule_fail_err(ctx, prog, chk):
    n = 0
    for fn in dec_functions(prog):
        vv = c05.verdict_var(fn)
        if vv is None:
            continue
        g = ctx.xcfg(prog, fn)
        has_check = False
        IN = {g.entry: frozenset([(0, 1)])}
        work = [g.entry]
        while work:
            nd = work.pop()
            st = IN[nd]
            out = st
            if nd.kind == "el" and not nd.proto:
                for sub in ir.walk(fn, nd.el.e):
                    rhs = None
                    if sub[0] == "=" and ir.strip_casts(sub[1]) == ["v", vv]:
                        rhs = sub[2]
                    elif sub[0] == "d" and sub[1] == vv and sub[2] is not None:
                        rhs = sub[2]
                    if rhs is not None:
                        r = ir.peel(fn, rhs)
                        ok = 1
                        if isinstance(r, list) and r[0] == "i" and isinstance(r[1], int):
                            ok = 1 if r[1] == 0 else 0
                        out = frozenset((f, ok) for f, t in out)
            for m, label in nd.succ:
                o2 = out
                if nd.kind == "br" and label in ("T", "F"):
                    t = nd.info.get("term")
                    if t and t.get("c") is not None:
                        for a in engines.cond_atoms(fn, t["c"], label == "T"):
                            if a[0] == "cmp" and isinstance(a[1], tuple) and a[1][0] == "c" and isinstance(a[1][1], str) and FAIL_WHEN_NONZERO.match(a[1][1]):
                                has_check = True
                                if engines.entails(a[2], a[3], "!=", 0):
                                    o2 = frozenset((1, t2) for f, t2 in o2)
                cur = IN.get(m)
                new = o2 if cur is None else (cur | o2)
                if cur is None or new != cur:
                    IN[m] = new
                    work.append(m)
        if not has_check:
            continue
        n += 1
        if (1, 1) in IN.get(g.exit, ()):
            ln = fn.line
            for p, l in g.exit.pred:
                if (1, 1) in IN.get(p, ()):
                    ln = p.line() or ln
            chk.fail("FAIL-ERR", fn, fn.vars[vv]["n"], "a path on which an authentication / padding / inner-decryption check failed returns a status that may be RLC_OK", line=ln)
        else:
            chk.ok("FAIL-ERR", fn, fn.vars[vv]["n"], "after a failed check every return carries a non-OK status", line=fn.line)
    return n


# ---------------------------------------------------------------------- entry points
CHECK_CALL = re.compile(r"_is_\w+$|_cmp(_\w+)?$|_on_curve$|^pad_\w+$|_test_\w+$")


def rule_check_dead(ctx, prog, chk):
    """CHECK-DEAD: a local variable assigned from an expression that contains a checking call (is_*, cmp*, on_curve, pad_*)
    is read on some path before it is assigned again: a check whose outcome is overwritten before anything consults it has
    been discarded"""
    n = 0

    def reads_var(fn, e, v):
        lhs = set()
        for sub in ir.walk(fn, e):
            if sub[0] == "=":
                l = ir.strip_casts(sub[1])
                if l == ["v", v]:
                    lhs.add(id(l))
        return any(sub == ["v", v] and id(sub) not in lhs for sub in ir.walk(fn, e))

    def writes_var(fn, e, v):
        for sub in ir.walk(fn, e):
            if sub[0] == "=" and ir.strip_casts(sub[1]) == ["v", v]:
                return True
            if sub[0] == "d" and sub[1] == v and sub[2] is not None:
                return True
        return False
    for fn in prog.all:
        if not (fn.rfile.startswith("src/cp/") or "selftest" in fn.file):
            continue
        g = None
        for el in fn.all_elements():
            e = el.e
            if e[0] != "=":
                continue
            l = ir.strip_casts(e[1])
            if not (isinstance(l, list) and l[0] == "v" and fn.vars[l[1]]["k"] == "l"):
                continue
            calls = [c[1] for c in ir.calls_in(fn, e[2], follow_refs=True) if c[1] and CHECK_CALL.search(c[1])]
            if not calls:
                continue
            v = l[1]
            n += 1
            if g is None:
                g = ctx.xcfg(prog, fn)
            live = False
            seen = set()
            work = [s for nd in g.nodes if nd.kind == "el" and nd.el.id == el.id for s, _ in nd.succ]
            while work and not live:
                nd = work.pop()
                if nd.id in seen:
                    continue
                seen.add(nd.id)
                if nd.kind == "el":
                    if reads_var(fn, nd.el.e, v):
                        live = True
                        break
                    if writes_var(fn, nd.el.e, v):
                        continue
                elif nd.kind == "br":
                    t = nd.info.get("term")
                    if t and t.get("c") is not None and any(x == ["v", v] for x in ir.walk(fn, t["c"], follow_refs=True)):
                        live = True
                        break
                for s2, _ in nd.succ:
                    work.append(s2)
            nm = fn.vars[v]["n"]
            if live:
                chk.ok("CHECK-DEAD", fn, "%s@%s" % (nm, calls[0]), "outcome of the check is consulted before `%s` is assigned again" % nm, line=el.line)
            else:
                chk.fail("CHECK-DEAD", fn, "%s@%s" % (nm, calls[0]), "the outcome of `%s` is stored in `%s` and overwritten (or dropped at the return) before anything reads it: the check has no effect" % (calls[0], nm), line=el.line)
    return n


# ---------------------------------------------------------------------- OUT-CLEAN
def rule_out_clean(ctx, prog, chk):
    """OUT-CLEAN: a decryption function does not write through its output (nor announce a length through *out_len) on a
    path on which it has already set its status to the error value: "rejected with an error rather than returning data".
    A must-fact `clean` holds from the entry and is dropped by every assignment of a non-zero constant to the returned
    status variable; it has to hold at every output event"""
    n = 0
    for fn in dec_functions(prog):
        vv = c05.verdict_var(fn)
        if vv is None or not out_pairs(fn):
            continue
        g = ctx.xcfg(prog, fn)

        def kill(node, s, fn=fn, vv=vv):
            for sub in ir.walk(fn, node.el.e):
                if sub[0] == "=" and ir.strip_casts(sub[1]) == ["v", vv]:
                    r = ir.peel(fn, sub[2])
                    if not (isinstance(r, list) and r[0] == "i" and r[1] == 0):
                        return frozenset(x for x in s if x != ("ev", "clean"))
            return s
        F = Facts(prog, g, init=(("ev", "clean"),), extra_kill=kill, mark_thrown=False)
        evs = output_events(prog, fn, g, F)
        if not evs:
            continue
        n += 1
        # ... or the status has just been tested to be the success value on the way to the event
        bad = [(nd, txt) for nd, txt, _ in evs if ("ev", "clean") not in (F.IN.get(nd) or ()) and not engines.holds_cmp(F.IN.get(nd) or (), ("v", vv), "==", 0)]
        if bad:
            nd, txt = bad[0]
            chk.fail("OUT-CLEAN", fn, fn.vars[vv]["n"], "output is produced (%s) on a path on which `%s` has already been set to the error value: the caller gets an error *and* data" % (
                txt, fn.vars[vv]["n"]), line=nd.line())
        else:
            chk.ok("OUT-CLEAN", fn, fn.vars[vv]["n"], "no output event is reachable after the status was set to the error value (%d events)" % len(evs), line=fn.line)
    return n


# ---------------------------------------------------------------------- ENC-RANGE
# encryption functions with an integer plaintext: (plaintext parameter, kind).  cp_ghpe_enc is left out: its bound n^s is not
# available without an exponentiation and the scheme is recorded as wrong for s >= 3 (seeded/ROUND3-OBSERVATIONS.md)
ENC_PLAIN = {"cp_phpe_enc": ("m", "bn"), "cp_shpe_enc": ("m", "bn"), "cp_shpe_enc_prv": ("m", "bn"), "cp_bdpe_enc": ("in", "dig")}


def rule_enc_range(ctx, prog, chk):
    """ENC-RANGE: an encryption function with an integer plaintext returns normally with success only where the plaintext was
    found *strictly* smaller than a bound (bn_cmp(m, n) == RLC_LT, in < t): a plaintext equal to or beyond the modulus of
    the plaintext space encrypts to something that decrypts to another plaintext - "decryption returns exactly the
    plaintext, for every plaintext the scheme admits" needs the others to be refused"""
    n = 0
    for fn in prog.all:
        b = fn.name.split("__")[-1]
        if b not in ENC_PLAIN:
            continue
        pname, kind = ENC_PLAIN[b]
        pv = [p for p in fn.params if fn.vars[p]["n"] == pname]
        if not pv:
            raise AnalysisBroken("ENC-RANGE: %s has no parameter `%s` any more; the table must be re-read" % (fn.name, pname))
        P = ("v", pv[0])
        g = ctx.xcfg(prog, fn)

        def edge_gen(node, label, atoms, P=P, kind=kind):
            out = []
            for a in atoms:
                if kind == "bn" and a[0] == "cmp" and isinstance(a[1], tuple) and a[1][0] == "c" and a[1][1] == "bn_cmp" and len(a[1][2]) == 2 and a[1][2][0] == P \
                        and engines.entails(a[2], a[3], "==", -1):
                    out.append(("ev", "below"))
                if kind == "dig" and a[0] == "rel" and ((a[1] == P and a[2] == "<") or (a[3] == P and a[2] == ">")):
                    out.append(("ev", "below"))
            return out
        F = Facts(prog, g, edge_gen=edge_gen, mark_thrown=True)
        vv = c05.verdict_var(fn)
        bad = None
        nret = 0
        for nd in g.nodes:
            if nd.kind != "el" or nd.proto or nd.el.e[0] != "ret" or nd.el.e[1] is None:
                continue
            st = F.IN.get(nd)
            if st is None or st is engines.UNIVERSE:
                continue
            rv = ir.peel(fn, nd.el.e[1])
            if isinstance(rv, list) and rv[0] == "i" and rv[1] != 0:
                continue        # a literal error status
            if vv is not None and engines.holds_cmp(st, ("v", vv), "!=", 0):
                continue
            nret += 1
            if ("ev", "below") not in st:
                bad = nd
        if nret == 0:
            raise AnalysisBroken("ENC-RANGE: %s has no successful return" % fn.name)
        n += 1
        if bad is None:
            chk.ok("ENC-RANGE", fn, pname, "every successful return has found the plaintext strictly below a bound", line=fn.line)
        else:
            chk.fail("ENC-RANGE", fn, pname, "a successful return is reachable without `%s` having been found strictly smaller than the modulus of the plaintext space "
                     "(a comparison of bit lengths, or `>` for `>=`, admits plaintexts that decrypt to something else)" % pname, line=c05_line_safe(bad, fn))
    return n


def c05_line_safe(node, fn):
    try:
        return node.line()
    except Exception:
        return fn.line


# ---------------------------------------------------------------------- DEC-RANGE
NEUTRAL_FOR_RANGE = re.compile(r"^(bn_cmp|bn_cmp_abs|bn_cmp_dig|bn_read_bin|bn_bits|bn_size_bin|bn_is_zero|bn_sign|bn_new|bn_null|bn_free|bn_print)$")


def rule_dec_range(ctx, prog, chk):
    """DEC-RANGE: the integer a decryption function decodes from the ciphertext bytes has been found smaller than something
    (the modulus) by bn_cmp before it is used in any arithmetic: c and c + n are the same residue, so without the test
    every ciphertext has further encodings that decrypt to the same plaintext instead of being rejected (RFC 8017 5.1.2:
    "ciphertext representative out of range")"""
    n = 0
    for fn in dec_functions(prog):
        bytes_in = [p for p in fn.params if fn.vars[p].get("pc") == 1 and re.search(r"(unsigned char|uint8_t) \*", fn.vars[p].get("c") or fn.vars[p]["t"])]
        if not bytes_in:
            continue
        g = ctx.xcfg(prog, fn)

        def gen(node, s, pre, fn=fn, bytes_in=bytes_in):
            out = []
            for c in ir.calls_in(fn, node.el.e):
                if c[1] == "bn_read_bin" and len(c[2]) == 3 and ir.base_var(fn, c[2][1]) in bytes_in:
                    X = key(fn, c[2][0])
                    if isinstance(X, tuple) and X[0] == "v":
                        out.append(("ev", "dec", X))
            return out

        def edge_gen(node, label, atoms, fn=fn):
            st = engines.CURRENT.edge_state if engines.CURRENT is not None else frozenset()
            out = []
            for a in atoms:
                if a[0] == "cmp" and isinstance(a[1], tuple) and a[1][0] == "c" and a[1][1] == "bn_cmp" and len(a[1][2]) == 2 and engines.entails(a[2], a[3], "==", -1):
                    X = a[1][2][0]
                    if ("ev", "dec", X) in st:
                        out.append(("ev", "ranged", fn.vars[X[1]]["n"]))
            return out
        F = Facts(prog, g, gen=gen, edge_gen=edge_gen, mark_thrown=True)
        decoded = set()
        for nd in g.nodes:
            if nd.kind == "el" and not nd.proto:
                decoded |= set(a[2] for a in gen(nd, frozenset(), frozenset()))
        for X in sorted(decoded):
            n += 1
            bad = None
            for nd in g.nodes:
                if nd.kind != "el" or nd.proto:
                    continue
                st = F.IN.get(nd)
                if st is None or st is engines.UNIVERSE or ("ev", "dec", X) not in st:
                    continue
                for c in ir.calls_in(fn, nd.el.e):
                    if not c[1] or NEUTRAL_FOR_RANGE.match(c[1]):
                        continue
                    if any(key(fn, a) == X for a in c[2][1:]) and ("ev", "ranged", fn.vars[X[1]]["n"]) not in st:
                        bad = bad or (nd, fn.fmt(c)[:50])
            nm = fn.vars[X[1]]["n"]
            if bad is None:
                chk.ok("DEC-RANGE", fn, nm, "the decoded ciphertext representative is compared with the modulus before its first arithmetic use", line=fn.line)
            else:
                chk.fail("DEC-RANGE", fn, nm, "`%s` uses the integer decoded from the ciphertext before any bn_cmp has found it smaller than the modulus: c + n decrypts like c "
                         "instead of being rejected" % bad[1], line=bad[0].line())
    return n


def analyse(ctx, prog, chk, table=None):
    chk.used_program(prog)
    table = table if table is not None else load_table()
    return {"len_sub": rule_len_sub(ctx, prog, chk), "out_cap": rule_out_cap(ctx, prog, chk),
            "out_gate": rule_out_gate(ctx, prog, chk, table), "fail_err": rule_fail_err(ctx, prog, chk),
            "check_dead": rule_check_dead(ctx, prog, chk), "out_clean": rule_out_clean(ctx, prog, chk), "dec_range": rule_dec_range(ctx, prog, chk), "enc_range": rule_enc_range(ctx, prog, chk)}


def selfcheck(ctx, prog, chk):
    table = {}
    for fn in dec_functions(prog):
        b = fn.name.split("__")[-1]
        # cp_sr_dec: the miniatures of OUT-CLEAN / DEC-RANGE have no authentication gate
        table[b] = {"gates": [] if b == "cp_sr_dec" else [["util_cmp_sec(*,*,32)", "==", 0]]}
    analyse(ctx, prog, chk, table)


def run(ctx, chk):
    chk.assumptions = ["symbols in extent proofs denote non-negative quantities"]
    c = analyse(ctx, ctx.program("BASE"), chk)
    chk.floor("LEN-SUB", "unsigned subtractions from untrusted lengths", c["len_sub"], 3)
    chk.floor("OUT-CAP", "writes through (out, *out_len) pairs", c["out_cap"], 12)
    chk.floor("OUT-GATE", "recorded gates", c["out_gate"], 2)
    chk.floor("FAIL-ERR", "decryption functions with a check", c["fail_err"], 2)
    chk.floor("ENC-RANGE", "encryption functions with an integer plaintext", c["enc_range"], 4)
    chk.floor("DEC-RANGE", "integers decoded from ciphertext bytes", c["dec_range"], 2)
    chk.floor("OUT-CLEAN", "decryption functions with a status and an output", c["out_clean"], 3)
    chk.floor("CHECK-DEAD", "check outcomes stored in locals", c["check_dead"], 3)
