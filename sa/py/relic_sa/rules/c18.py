"""C18 — every built-in parameter set is internally consistent.

Rule PARAM: the switch cases of fp_param_set / fp_prime_set_pairf, fb_param_set, ep_param_set, eb_param_set and
ed_param_set are straight-line constant-building code; CONSTEVAL interprets them with Python integers under each
configuration header, and independent arithmetic (primality, point arithmetic over F_p / GF(2^m) / Edwards form) checks:
  prime       the field characteristic is prime (the binary polynomial irreducible)
  generator   the tabulated generator satisfies the curve equation and is not the identity
  order       the tabulated order r is prime and [r]G = O
  hasse       |h*r - (p + 1)| <= 2*sqrt(p)  (binary: |h*r - (2^m + 1)| <= 2*sqrt(2^m))
  glv         beta^3 = 1, beta != 1, lambda^2 + lambda + 1 = 0 mod r, [lambda]G = (beta*x, +-y)   (where tabulated)
  embed       r | p^k - 1 and r does not divide p^j - 1 for j < k, k = the value ep_param_embed returns for the identifier
  level       ep_param_level is consistent with the size of r (r has at least 2*level - 8 bits) — advertised security level
"""
import re

from .. import ir, consteval, nt
from ..consteval import Interp, Unsupported, case_blocks
from ..facts import AnalysisBroken

EXPLANATION = (
    "Static decision of the consistency of every parameter table the parsed configurations compile: the switch cases of the "
    "parameter-selection functions are interpreted as constant-building code (CONSTEVAL over the clang CFG; anything not "
    "modelled is analysis-broken, never skipped) and the resulting integers are checked with independent arithmetic: prime "
    "modulus / irreducible polynomial, generator on the curve, prime order annihilating the generator, Hasse bound with the "
    "tabulated cofactor, GLV constants (beta, lambda) against their defining equations and against the generator, "
    "embedding degree returned by ep_param_embed, advertised security level against the size of r. Parameter sets that no "
    "test configuration instantiates are covered as soon as their configuration header is parsed (quick: 256-, 255-, "
    "381-bit; thorough: further field sizes). Constants derived at run time (Montgomery constants, GLV lattice basis, "
    "Frobenius and map constants, twist generators) are not tabulated and not decided. Nothing of RELIC is executed.")


class _Site:
    def __init__(self, name, rfile):
        self.name = name
        self.rfile = rfile


# ---------------------------------------------------------------------- extraction
STRICT = [True]


def broken(chk_note, msg):
    """an uninterpretable table is analysis-broken in the claimed configurations; in the additional thorough
    configurations it is recorded as 'no claim for this set'"""
    if STRICT[0]:
        raise AnalysisBroken(msg)
    NOTES.append(msg)


NOTES = []


def extract_primes(prog):
    """{identifier name: {'p': int, 'kind': .., 'x': int|None, 'family': name|None}}"""
    fn = prog.get("fp_param_set")
    pf = prog.get("fp_prime_set_pairf")
    if fn is None or pf is None:
        raise AnalysisBroken("fp_param_set / fp_prime_set_pairf not found")
    fam_cases = {name: bid for val, name, bid in case_blocks(pf, "pairf")}
    fam_by_val = {val: name for val, name, bid in case_blocks(pf, "pairf")}
    out = {}
    for val, name, bid in case_blocks(fn):
        res = {}

        def on_call(cname, args, I, res=res):
            if cname == "fp_prime_set_pmers":
                f = I.env.get(I.path(args[0]))
                n = I.ev(args[1])
                if not isinstance(f, dict) or any(i not in f for i in range(n)):
                    raise Unsupported("sparse form not fully assigned")
                p = 1 << f[n - 1]
                for i in range(n - 2, 0, -1):
                    p += (1 << f[i]) if f[i] > 0 else -(1 << -f[i])
                p += f[0]
                res.update(p=p, kind="pmers", form=[f[i] for i in range(n)])
                return 0
            if cname == "fp_prime_set_dense":
                res.update(p=I.bn(args[0]), kind="dense")
                return 0
            if cname == "fp_prime_set_pairf":
                x = I.bn(args[0])
                famv = I.ev(args[1])
                fam = fam_by_val.get(famv)
                if fam is None or fam not in fam_cases:
                    raise Unsupported("pairing family %s has no case in fp_prime_set_pairf" % famv)
                sub = {}

                def on2(c2, a2, I2, sub=sub):
                    if c2 == "fp_prime_set_dense":
                        sub["p"] = I2.bn(a2[0])
                        return 0
                    if c2 in ("bn_rec_naf", "fp_prime_calc", "fp2_field_init", "fp3_field_init", "fp4_field_init", "fp8_field_init"):
                        return 0
                    return None
                I2 = Interp(pf, {"x": x, "t0": x}, on2)
                I2.run_case(fam_cases[fam])
                if "p" not in sub:
                    raise Unsupported("family %s does not install a prime" % fam)
                res.update(p=sub["p"], kind="pairf", x=x, family=fam)
                return 0
            return None
        I = Interp(fn, {}, on_call)
        try:
            I.run_case(bid)
        except Unsupported as e:
            broken(None, "PARAM: cannot interpret the prime %s in fp_param_set: %s" % (name, e))
            continue
        if "p" not in res:
            broken(None, "PARAM: case %s of fp_param_set installs no prime" % name)
            continue
        out[name] = res
    return out


def extract_curves(prog, fname, field_setter):
    """interpret the cases of an X_param_set: {name: env}"""
    fn = prog.get(fname)
    if fn is None:
        return {}, None
    out = {}
    for val, name, bid in case_blocks(fn):
        rec = {}

        def on_call(cname, args, I, rec=rec):
            if cname == field_setter:
                a = ir.peel(I.fn, args[0])
                rec["field"] = a[2] if isinstance(a, list) and a[0] == "i" and len(a) > 2 else str(I.ev(args[0]))
                return 0
            if cname in ("ep_param_set_ctmap", "ep_param_get_coeffs", "ed_curve_set", "ep_curve_set_plain", "ep_curve_set_super", "ep_curve_set_endom",
                         "eb_curve_set", "core_get"):
                return 0
            return None
        I = Interp(fn, {}, on_call)
        try:
            I.run_case(bid)
        except Unsupported as e:
            broken(None, "PARAM: cannot interpret the case %s of %s: %s" % (name, fname, e))
            continue
        rec["env"] = I.env
        out[name] = rec
    return out, fn


def family_lambda(fn, pairf_val, u, r):
    """interpret the arm of the post-switch `switch (pairf)` of ep_param_set that derives the GLV eigenvalue of a pairing
    family from the curve parameter u: returns lambda, None if there is no arm for the family, raises Unsupported"""
    arm = None
    for b in fn.blocks.values():
        t = b.term
        if not t or t["k"] != "SwitchStmt" or t.get("c") is None:
            continue
        c = ir.peel(fn, t["c"])
        if not (isinstance(c, list) and c[0] == "v" and fn.vars[c[1]]["n"] == "pairf" and fn.vars[c[1]]["k"] != "p"):
            continue
        for sx in b.succ:
            if sx is None:
                continue
            lab = fn.blocks[sx].label
            if lab and lab[0] == "case" and lab[1][1] == pairf_val:
                arm = sx
            # several labels can share a block: labels are a list of alternatives in the extractor output
            if lab and lab[0] == "case" and len(lab) > 2:
                for alt in lab[2:]:
                    if isinstance(alt, list) and len(alt) > 1 and alt[1] == pairf_val:
                        arm = sx
    if arm is None:
        return None

    def on_call(cname, args, I):
        if cname in ("core_get",):
            return 0
        return None
    I = Interp(fn, {"lamb": u, "r": r, "t": 0, "h": 1}, on_call)
    I.run_case(arm)
    return I.env.get("lamb")


def switch_returns(prog, fname, by_value=False):
    """{case name: returned constant} for `switch (X) { case A: case B: return K; ... }` functions"""
    fn = prog.get(fname)
    if fn is None:
        return {}
    out = {}
    for b in fn.blocks.values():
        t = b.term
        if not t or t["k"] != "SwitchStmt":
            continue
        for s in b.succ:
            if s is None:
                continue
            lab = fn.blocks[s].label
            if not lab or lab[0] != "case":
                continue
            name = lab[1][2] if len(lab[1]) > 2 else str(lab[1][1])
            if by_value:
                name = lab[1][1]
            # follow fall-through labels to the return
            cur = fn.blocks[s]
            for _ in range(80):
                ret = None
                for el in cur.els:
                    if el.e[0] == "ret" and el.e[1] is not None:
                        r = ir.peel(fn, el.e[1])
                        if isinstance(r, list) and r[0] == "i":
                            ret = r[1]
                if ret is not None:
                    out[name] = ret
                    break
                succ = [x for x in cur.succ if x is not None]
                if len(succ) != 1 or cur.term is not None:
                    break
                cur = fn.blocks[succ[0]]
    return out


# ---------------------------------------------------------------------- checks
def check_prime_fields(prog, chk, primes):
    for name, r in sorted(primes.items()):
        site = _Site(name, "src/fp/relic_fp_param.c")
        p = r["p"]
        if p > 3 and nt.is_prime(p):
            chk.ok("PARAM-PRIME", site, name, "%d-bit modulus (%s%s) is prime" % (p.bit_length(), r["kind"], ", family %s at x = %s%#x" % (
                r["family"], "-" if r["x"] < 0 else "", abs(r["x"])) if r.get("family") else ""), file=site.rfile)
        else:
            chk.fail("PARAM-PRIME", site, name, "the modulus built for %s (%d bits, %s) is not prime" % (name, p.bit_length(), r["kind"]), file=site.rfile)


def check_prime_curves(prog, chk, primes):
    curves, fn = extract_curves(prog, "ep_param_set", "fp_param_set")
    embed_fam = switch_returns(prog, "ep_curve_embed", by_value=True)     # pairing family (enum value) -> embedding degree
    embed = {}
    for nm, rec in curves.items():
        pf = rec.get("env", {}).get("pairf")
        if isinstance(pf, int) and pf in embed_fam:
            embed[nm] = embed_fam[pf]
    level = switch_returns(prog, "ep_param_level")
    n = 0
    groups = {}
    for name, rec in sorted(curves.items()):
        env = rec["env"]
        site = _Site(name if prog.library is None else fn.name, "src/ep/relic_ep_param.c" if prog.library is None else fn.rfile)
        need = ["a", "b", "g->x", "g->y", "r", "h"]
        if "field" not in rec or any(k not in env for k in need):
            chk.note("PARAM: case %s of ep_param_set assigns no curve table (field %s); nothing to check" % (name, rec.get("field")))
            continue
        pr = primes.get(rec["field"])
        if pr is None:
            broken(None, "PARAM: curve %s selects the field %s, which fp_param_set does not build in this configuration" % (name, rec["field"]))
            continue
        n += 1
        p = pr["p"]
        a, b, x, y, r, h = (env[k] for k in need)
        groups.setdefault((embed.get(name), p.bit_length()), []).append((name, level.get(name), site))
        E = nt.Curve(p, a, b)
        G = (x % p, y % p)
        okc = lambda what, detail: chk.ok("PARAM-" + what.upper(), site, name, detail, file=site.rfile)
        bad = lambda what, msg: chk.fail("PARAM-" + what.upper(), site, name, msg, file=site.rfile)
        if x >= p or y >= p or a >= p or b >= p:
            bad("range", "a coefficient or generator coordinate of %s is not reduced modulo the %d-bit prime of %s" % (name, p.bit_length(), rec["field"]))
        if E.on(G) and (4 * a ** 3 + 27 * b ** 2) % p != 0:
            okc("generator", "generator satisfies y^2 = x^3 + ax + b over %s" % rec["field"])
        else:
            bad("generator", "the tabulated generator of %s does not satisfy the curve equation over the prime of %s (or the curve is singular)" % (name, rec["field"]))
            continue
        if nt.is_prime(r) and E.mul(r, G) is None:
            okc("order", "r (%d bits) is prime and [r]G = O" % r.bit_length())
        else:
            bad("order", "the tabulated order of %s is %s" % (name, "not prime" if not nt.is_prime(r) else "not the order of the generator: [r]G != O"))
            continue
        t = p + 1 - h * r
        if t * t <= 4 * p:
            okc("hasse", "h*r = p + 1 - t with |t| <= 2*sqrt(p) (h = %#x)" % h)
        else:
            bad("hasse", "cofactor %#x times order is not a curve order for %s: |h*r - (p+1)| exceeds 2*sqrt(p)" % (h, name))
        if "beta" in env and "lamb" in env:
            beta, lam = env["beta"] % p, env["lamb"]
            okg = pow(beta, 3, p) == 1 and beta != 1 and (lam * lam + lam + 1) % r == 0
            if okg:
                Q = E.mul(lam % r, G)
                okg = Q is not None and Q[0] == beta * G[0] % p
            if okg:
                okc("glv", "beta^3 = 1, lambda^2 + lambda + 1 = 0 (mod r), [lambda]G = (beta*x, +-y)")
            else:
                bad("glv", "the endomorphism constants of %s do not satisfy beta^3 = 1 != beta, lambda^2 + lambda + 1 = 0 mod r and [lambda]G = (beta*x, +-y)" % name)
        pfv = env.get("pairf")
        if isinstance(pfv, int) and pfv and env.get("endom") and not env.get("lamb") and pr.get("x") is not None:
            # eigenvalue derived from the family parameter after the table switch
            try:
                lam = family_lambda(fn, pfv, pr["x"], r)
            except Unsupported as e:
                lam = None
                chk.note("PARAM-GLV: family arm for %s not interpretable: %s" % (name, str(e)[:100]))
            if lam is not None:
                Q = E.mul(lam % r, G)
                ok3 = (lam * lam + lam + 1) % r == 0 and Q is not None and pow(Q[0] * pow(G[0], -1, p) % p, 3, p) == 1 and Q[0] != G[0]
                ok4 = (lam * lam + 1) % r == 0 and Q is not None and (Q[0] + G[0]) % p == 0
                if ok3 or ok4:
                    okc("glv", "family-derived lambda satisfies lambda^2 + lambda + 1 = 0 resp. lambda^2 + 1 = 0 (mod r) and [lambda]G = (beta*x, .) with beta a root of unity")
                else:
                    bad("glv", "the eigenvalue that ep_param_set derives from the family parameter for %s is not an eigenvalue of the endomorphism: it satisfies neither lambda^2 + lambda + 1 = 0 nor lambda^2 + 1 = 0 modulo r with [lambda]G = (beta*x, .)" % name)
        if name in embed:
            k = embed[name]
            if k and k > 1:
                good = pow(p, k, r) == 1 and all(pow(p, j, r) != 1 for j in range(1, k))
                if good:
                    okc("embed", "embedding degree %d: r | p^%d - 1 and no smaller power" % (k, k))
                else:
                    bad("embed", "ep_param_embed advertises embedding degree %d for %s but that is not the order of p modulo r" % (k, name))
        if name in level:
            lv = level[name]
            if lv and r.bit_length() < 2 * lv - 8:
                bad("level", "ep_param_level advertises %d bits of security for %s but r has only %d bits" % (lv, name, r.bit_length()))
            elif lv:
                okc("level", "advertised level %d with a %d-bit group order" % (lv, r.bit_length()))
    # sibling agreement: parameter sets with the same embedding degree over fields of the same size advertise the same level
    for (k, pb), items in sorted(groups.items(), key=repr):
        lvls = set(lv for _, lv, _ in items if lv)
        if k and k > 1 and len(items) > 1:
            if len(lvls) > 1:
                nm, lv, st = sorted(items)[-1]
                chk.fail("PARAM-LEVEL", st, "k=%s,%dbit" % (k, pb), "parameter sets %s have the same embedding degree %s over %d-bit fields but advertise different security levels %s" % (
                    ", ".join(i[0] for i in items), k, pb, sorted(lvls)), file=st.rfile)
            else:
                chk.ok("PARAM-LEVEL", items[0][2], "k=%s,%dbit" % (k, pb), "siblings %s agree on level %s" % (", ".join(i[0] for i in items), sorted(lvls)), file=items[0][2].rfile)
    return n


def fb_polys(prog):
    fn = prog.get("fb_param_set")
    if fn is None:
        return {}
    out = {}
    m = None
    mm = re.search(r"^#define\s+FB_POLYN\s+(\d+)", prog.data["conf_h"], re.M)
    if mm:
        m = int(mm.group(1))
    for val, name, bid in case_blocks(fn):
        rec = {}

        def on_call(cname, args, I, rec=rec):
            if cname == "fb_poly_set_penta":
                rec["terms"] = [I.ev(a) for a in args]
                return 0
            if cname == "fb_poly_set_trino":
                rec["terms"] = [I.ev(args[0])]
                return 0
            if cname == "fb_poly_set_dense":
                rec["dense"] = I.bn(args[0])
                return 0
            return None
        I = Interp(fn, {}, on_call)
        try:
            I.run_case(bid)
        except Unsupported as e:
            raise AnalysisBroken("PARAM: cannot interpret the case %s of fb_param_set: %s" % (name, e))
        if "terms" in rec and m:
            f = (1 << m) | 1
            for t in rec["terms"]:
                f |= 1 << t
            rec["f"] = f
        elif "dense" in rec:
            rec["f"] = rec["dense"]
        out[name] = rec
    return out, m


def check_binary(prog, chk):
    res = fb_polys(prog)
    if not res:
        return 0
    polys, m = res
    curves, fn = extract_curves(prog, "eb_param_set", "fb_param_set")
    n = 0
    used = set(rec.get("field") for rec in curves.values())
    for name, rec in sorted(polys.items()):
        if "f" not in rec or name not in used:
            continue
        site = _Site(name, "src/fb/relic_fb_param.c")
        if rec["f"].bit_length() - 1 == m and nt.gf2_irreducible(rec["f"]):
            chk.ok("PARAM-IRREDUCIBLE", site, name, "x^%d + ... (terms %s) is irreducible over GF(2)" % (m, rec.get("terms")), file=site.rfile)
        else:
            chk.fail("PARAM-IRREDUCIBLE", site, name, "the polynomial built for %s is not an irreducible polynomial of degree %s" % (name, m), file=site.rfile)
    for name, rec in sorted(curves.items()):
        env = rec["env"]
        need = ["a", "b", "g->x", "g->y", "r", "h"]
        if "field" not in rec or any(k not in env for k in need):
            continue
        pf = polys.get(rec["field"])
        if pf is None or "f" not in pf:
            raise AnalysisBroken("PARAM: binary curve %s selects the polynomial %s, which fb_param_set does not build" % (name, rec["field"]))
        n += 1
        site = _Site(name, "src/eb/relic_eb_param.c")
        a, b, x, y, r, h = (env[k] for k in need)
        E = nt.BinCurve(pf["f"], a, b)
        G = (x, y)
        if b != 0 and E.on(G):
            chk.ok("PARAM-GENERATOR", site, name, "generator satisfies y^2 + xy = x^3 + ax^2 + b over GF(2^%d)" % m, file=site.rfile)
        else:
            chk.fail("PARAM-GENERATOR", site, name, "the tabulated generator of %s does not satisfy the binary curve equation" % name, file=site.rfile)
            continue
        if nt.is_prime(r) and E.mul(r, G) is None:
            chk.ok("PARAM-ORDER", site, name, "r (%d bits) is prime and [r]G = O" % r.bit_length(), file=site.rfile)
        else:
            chk.fail("PARAM-ORDER", site, name, "the tabulated order of %s is not a prime annihilating the generator" % name, file=site.rfile)
            continue
        t = (1 << m) + 1 - h * r
        if t * t <= 4 * (1 << m):
            chk.ok("PARAM-HASSE", site, name, "h*r within the Hasse interval of GF(2^%d) (h = %d)" % (m, h), file=site.rfile)
        else:
            chk.fail("PARAM-HASSE", site, name, "cofactor %d times order is not a curve order over GF(2^%d) for %s" % (h, m, name), file=site.rfile)
    return n


def check_edwards(prog, chk, primes):
    curves, fn = extract_curves(prog, "ed_param_set", "fp_param_set")
    n = 0
    for name, rec in sorted(curves.items()):
        env = rec["env"]
        keys = {"a": None, "d": None}
        for k in env:
            if k.endswith("ed_a"):
                keys["a"] = k
            if k.endswith("ed_d"):
                keys["d"] = k
        if "field" not in rec or not keys["a"] or not keys["d"] or any(k not in env for k in ("g->x", "g->y", "r", "h")):
            continue
        pr = primes.get(rec["field"])
        if pr is None:
            continue        # not selectable in this configuration
        n += 1
        site = _Site(name, "src/ed/relic_ed_param.c")
        p = pr["p"]
        E = nt.EdCurve(p, env[keys["a"]], env[keys["d"]])
        G = (env["g->x"] % p, env["g->y"] % p)
        r, h = env["r"], env["h"]
        if E.on(G) and G != (0, 1):
            chk.ok("PARAM-GENERATOR", site, name, "generator satisfies a x^2 + y^2 = 1 + d x^2 y^2 over %s" % rec["field"], file=site.rfile)
        else:
            chk.fail("PARAM-GENERATOR", site, name, "the tabulated generator of %s does not satisfy the Edwards equation" % name, file=site.rfile)
            continue
        if nt.is_prime(r) and E.mul(r, G) == (0, 1):
            chk.ok("PARAM-ORDER", site, name, "r (%d bits) is prime and [r]G is the neutral element" % r.bit_length(), file=site.rfile)
        else:
            chk.fail("PARAM-ORDER", site, name, "the tabulated order of %s is not a prime annihilating the generator" % name, file=site.rfile)
            continue
        t = p + 1 - h * r
        if t * t <= 4 * p:
            chk.ok("PARAM-HASSE", site, name, "h*r within the Hasse interval (h = %d)" % h, file=site.rfile)
        else:
            chk.fail("PARAM-HASSE", site, name, "cofactor %d times order is not a curve order for %s" % (h, name), file=site.rfile)
    return n


# ---------------------------------------------------------------------- entry points
def analyse(ctx, prog, chk):
    chk.used_program(prog)
    primes = extract_primes(prog)
    check_prime_fields(prog, chk, primes)
    nc = check_prime_curves(prog, chk, primes)
    nb = check_binary(prog, chk)
    ne = check_edwards(prog, chk, primes)
    return {"primes": len(primes), "curves": nc, "binary": nb, "edwards": ne}


def selfcheck(ctx, prog, chk):
    # the miniatures are complete ep_param_set look-alikes evaluated against the primes of the real configuration
    primes = extract_primes(prog.library)
    for fn in prog.all:
        if "ep_param_set" not in fn.name:
            continue
        prog.functions["ep_param_set"] = fn
        check_prime_curves(prog, chk, primes)
    prog.functions.pop("ep_param_set", None)


def run(ctx, chk):
    chk.trusted.append("sa/py/relic_sa/consteval.py (interpreter of the constant-building statements) and sa/py/relic_sa/nt.py (independent arithmetic)")
    c = analyse(ctx, ctx.program("BASE"), chk)
    chk.floor("PARAM-PRIME", "prime moduli built in the baseline configuration", c["primes"], 6)
    chk.floor("PARAM-GENERATOR", "prime curves tabulated in the baseline configuration", c["curves"], 6)
    chk.floor("PARAM-IRREDUCIBLE", "binary curves tabulated in the baseline configuration", c["binary"], 2)
    for cfg in ("P255", "P381"):
        analyse(ctx, ctx.program(cfg), chk)
    if chk.tier == "thorough":
        from .. import facts
        for bits in THOROUGH_PRIMES:
            name = "P%d" % bits
            facts.CONFIGS.setdefault(name, ["-DFP_PRIME=%d" % bits] + (["-DBN_PRECI=%d" % (2 * bits + 64)] if bits > 512 else []))
            try:
                p = ctx.program(name)
            except AnalysisBroken as e:
                chk.note("thorough: configuration %s could not be set up: %s" % (name, str(e)[:120]))
                continue
            STRICT[0] = False
            try:
                analyse(ctx, p, chk)
            finally:
                STRICT[0] = True
            ctx._prog.pop(name, None)       # keep memory flat across 28 configurations
        for m in NOTES:
            chk.note("no claim (thorough configuration): " + m[:200])


THOROUGH_PRIMES = [158, 160, 192, 221, 224, 226, 251, 254, 315, 317, 330, 354, 377, 382, 383, 384, 446, 448, 455, 477, 508, 509, 511, 521, 544, 569, 575, 638]
