"""EXTENT: symbolic comparison of small integer expressions.

Expressions (canonical keys of engines.key) are turned into polynomials over
opaque non-negative symbols; `prove_nonneg` shows p >= 0 using the upper bounds
the dataflow facts provide for loop indices (i < n  =>  i <= n-1).  Symbols are
assumed to denote non-negative quantities (sizes, counts, indices, bit
lengths): this is stated in every evidence file that uses the engine."""
from . import engines


class Poly:
    __slots__ = ("t",)

    def __init__(self, t=None):
        self.t = {k: v for k, v in (t or {}).items() if v != 0}

    @staticmethod
    def const(c):
        return Poly({(): c})

    @staticmethod
    def sym(k):
        return Poly({(k,): 1})

    def __add__(self, o):
        t = dict(self.t)
        for k, v in o.t.items():
            t[k] = t.get(k, 0) + v
        return Poly(t)

    def __neg__(self):
        return Poly({k: -v for k, v in self.t.items()})

    def __sub__(self, o):
        return self + (-o)

    def __mul__(self, o):
        t = {}
        for k1, v1 in self.t.items():
            for k2, v2 in o.t.items():
                k = tuple(sorted(k1 + k2, key=repr))
                t[k] = t.get(k, 0) + v1 * v2
        return Poly(t)

    def is_const(self):
        return all(k == () for k in self.t)

    def const_value(self):
        return self.t.get((), 0)

    def symbols(self):
        out = set()
        for k in self.t:
            out.update(k)
        return out

    def subst(self, sym, p):
        out = Poly()
        for k, v in self.t.items():
            term = Poly.const(v)
            for s in k:
                term = term * (p if s == sym else Poly.sym(s))
            out = out + term
        return out

    def fmt(self, fn):
        if not self.t:
            return "0"
        parts = []
        for k, v in sorted(self.t.items(), key=lambda kv: repr(kv[0])):
            syms = "*".join(engines.fmt_key(fn, s) for s in k)
            if not syms:
                parts.append(str(v))
            elif v == 1:
                parts.append(syms)
            else:
                parts.append("%d*%s" % (v, syms))
        return " + ".join(parts)


def poly(k, depth=0, eq=None):
    """polynomial of a canonical key, or an opaque symbol for anything that is
    not +,-,* of integers and symbols.  `eq` (symbol -> Poly) lets constant
    divisions fold."""
    if not isinstance(k, tuple) or depth > 30:
        return None
    t = k[0]
    if t == "b" and k[1] in ("/", "%") and eq is not None:
        a, b = poly(k[2], depth + 1, eq), poly(k[3], depth + 1, eq)
        if a is not None and b is not None:
            a, b = _apply_eq(a, eq), _apply_eq(b, eq)
            if a.is_const() and b.is_const() and b.const_value() > 0 and a.const_value() >= 0:
                return Poly.const(a.const_value() // b.const_value() if k[1] == "/" else a.const_value() % b.const_value())
        return Poly.sym(k)
    if t == "i":
        try:
            return Poly.const(int(k[1]))
        except (TypeError, ValueError):
            return None
    if t == "b" and k[1] in ("+", "-", "*"):
        a, b = poly(k[2], depth + 1, eq), poly(k[3], depth + 1, eq)
        if a is None or b is None:
            return None
        return a + b if k[1] == "+" else a - b if k[1] == "-" else a * b
    if t == "b" and k[1] == "<<":
        a, b = poly(k[2], depth + 1), poly(k[3], depth + 1)
        if a is not None and b is not None and b.is_const() and 0 <= b.const_value() < 62:
            return a * Poly.const(1 << b.const_value())
        return Poly.sym(k)
    if t == "u" and k[1] == "-":
        a = poly(k[2], depth + 1)
        return None if a is None else -a
    if t == "?" and len(k) == 4:
        return Poly.sym(k)
    return Poly.sym(k)


def _apply_eq(p, eq):
    for _ in range(4):
        changed = False
        for s in list(p.symbols()):
            if s in eq and s not in eq[s].symbols():
                p = p.subst(s, eq[s])
                changed = True
        if not changed:
            break
    return p


def const_upper(p, facts, depth=0):
    """an integer upper bound of p under the facts (symbols >= 0), or None"""
    if p is None or depth > 6:
        return None
    eq = equalities(facts)
    p = _apply_eq(p, eq)
    ub = upper_bounds(facts)
    total = 0
    for k, v in p.t.items():
        if v <= 0:
            if v < 0 and not k:
                total += v
            continue      # negative terms: at least 0 subtracted
        term = v
        for s in k:
            best = None
            for u in ub.get(s, ()):
                c = const_upper(u, _drop(facts, s), depth + 1)
                if c is not None and (best is None or c < best):
                    best = c
            if best is None and isinstance(s, tuple) and s[0] == "b" and s[1] == "/":
                a, b = poly(s[2], 0, eq), poly(s[3], 0, eq)
                if a is not None and b is not None:
                    b = _apply_eq(b, eq)
                    ca = const_upper(a, facts, depth + 1)
                    if ca is not None and b.is_const() and b.const_value() > 0:
                        best = ca // b.const_value()
                    elif ca is not None:
                        best = ca
            if best is None or best < 0:
                return None
            term *= best
        total += term
    return total


def _drop(facts, s):
    return frozenset(a for a in facts if not (a[0] in ("cmp", "rel") and a[1] == s))


def upper_bounds(facts):
    """{symbol key: [Poly upper bounds (inclusive)]} from dataflow facts"""
    ub = {}
    for a in facts:
        if a[0] == "cmp" and a[2] in ("<", "<=", "=="):
            try:
                c = int(a[3])
            except (TypeError, ValueError):
                continue
            ub.setdefault(a[1], []).append(Poly.const(c - 1 if a[2] == "<" else c))
        elif a[0] == "rel":
            l, op, r = a[1], a[2], a[3]
            if op in ("<", "<=", "=="):
                p = poly(r)
                if p is not None:
                    ub.setdefault(l, []).append(p - Poly.const(1) if op == "<" else p)
            if op in (">", ">=", "=="):
                p = poly(l)
                if p is not None:
                    ub.setdefault(r, []).append(p - Poly.const(1) if op == ">" else p)
    return ub


def lower_bounds(facts):
    lb = {}
    for a in facts:
        if a[0] == "cmp" and a[2] in (">", ">=", "=="):
            try:
                c = int(a[3])
            except (TypeError, ValueError):
                continue
            lb.setdefault(a[1], []).append(Poly.const(c + 1 if a[2] == ">" else c))
        elif a[0] == "rel":
            l, op, r = a[1], a[2], a[3]
            if op in (">", ">=", "=="):
                p = poly(r)
                if p is not None:
                    lb.setdefault(l, []).append(p + Poly.const(1) if op == ">" else p)
            if op in ("<", "<=", "=="):
                p = poly(l)
                if p is not None:
                    lb.setdefault(r, []).append(p + Poly.const(1) if op == "<" else p)
    return lb


def equalities(facts):
    eq = {}
    for a in facts:
        if a[0] == "cmp" and a[2] == "==":
            try:
                eq.setdefault(a[1], Poly.const(int(a[3])))
            except (TypeError, ValueError):
                pass
        elif a[0] == "rel" and a[2] == "==":
            p = poly(a[3])
            if p is not None and a[1] not in p.symbols():
                eq.setdefault(a[1], p)
    return eq


def prove_nonneg(p, facts, depth=0):
    """True if p >= 0 follows from: all symbols >= 0, the equalities and the
    upper/lower bounds in `facts`.  Sound but incomplete."""
    if p is None:
        return False
    if all(v >= 0 for v in p.t.values()):
        return True
    if depth > 8:
        return False
    # substitute known equalities first
    eq = equalities(facts)
    for s in list(p.symbols()):
        if s in eq:
            q = p.subst(s, eq[s])
            if q.t != p.t and prove_nonneg(q, _without_eq(facts, s), depth + 1):
                return True
    ub = upper_bounds(facts)
    lb = lower_bounds(facts)
    for s in sorted(p.symbols(), key=repr):
        if isinstance(s, tuple) and s[0] == "b" and s[1] == "/" and s not in ub:
            # a / b <= floor(ub(a) / b) for a constant divisor, and a / b <= a for b >= 1
            a, b = poly(s[2], 0, eq), poly(s[3], 0, eq)
            cands = []
            if a is not None and b is not None:
                b2 = _apply_eq(b, eq)
                ca = const_upper(a, facts)
                if ca is not None and b2.is_const() and b2.const_value() > 0:
                    cands.append(Poly.const(ca // b2.const_value()))
                cands.append(a)
            if cands:
                ub = dict(ub)
                ub[s] = cands
        signs = set()
        for k, v in p.t.items():
            if s in k:
                signs.add(v > 0)
        if signs == {False} and s in ub:
            # p is non-increasing in s (other symbols >= 0): minimum at the upper bound
            for u in ub[s]:
                if s in u.symbols():
                    continue
                if prove_nonneg(p.subst(s, u), facts, depth + 1):
                    return True
        if signs == {True} and s not in lb and isinstance(s, tuple) and s[0] == "?" and len(s) == 4:
            # MAX(a, b) spelled as a conditional: at least both of its arms
            c = s[1]
            if isinstance(c, tuple) and c[0] == "b" and c[1] in (">", ">=", "<", "<="):
                arms = {s[2], s[3]}
                if arms == {c[2], c[3]}:
                    is_max = (c[1] in (">", ">=") and s[2] == c[2]) or (c[1] in ("<", "<=") and s[2] == c[3])
                    if is_max:
                        lb = dict(lb)
                        lb[s] = [q for q in (poly(s[2], 0, eq), poly(s[3], 0, eq)) if q is not None]
        if signs == {True} and s in lb:
            for l in lb[s]:
                if s in l.symbols():
                    continue
                q = p.subst(s, l)
                if q.t != p.t and prove_nonneg(q, facts, depth + 1):
                    return True
    return False


def _without_eq(facts, s):
    return frozenset(a for a in facts if not (a[0] in ("cmp", "rel") and a[2] == "==" and a[1] == s))


def subst_key(k, defs, depth=0):
    """replace variables by their defining expressions (key level), so that
    opaque sub-terms such as divisions become comparable"""
    if not isinstance(k, tuple) or depth > 12:
        return k
    if k in defs:
        return subst_key(defs[k], {a: b for a, b in defs.items() if a != k}, depth + 1)
    return tuple(subst_key(x, defs, depth + 1) if isinstance(x, tuple) else x for x in k)


def definitions(facts):
    """{('v',x): key} from rel == facts whose left side is a plain variable"""
    d = {}
    for a in facts:
        if a[0] == "rel" and a[2] == "==" and isinstance(a[1], tuple) and a[1][0] == "v":
            d.setdefault(a[1], a[3])
        elif a[0] == "cmp" and a[2] == "==" and isinstance(a[1], tuple) and a[1][0] == "v":
            d.setdefault(a[1], ("i", a[3]))
    return d


def norm_poly(k, facts):
    return poly(subst_key(k, definitions(facts)), 0, equalities(facts))
