"""Configuration, extraction and caching of facts about /repo.

A *configuration* is a set of cmake options.  For each one we run `cmake`
(configure only) into a scratch directory outside /repo and /verif, take the
unit list and flags of the static library from `ninja -t compdb`, run the
libTooling extractor on every unit in parallel and cache the merged result
under /verif/.cache keyed by a hash of every input.
"""
import atexit
import hashlib
import json
import os
import pickle
import shlex
import shutil
import subprocess
import sys
import tempfile
import time
from concurrent.futures import ThreadPoolExecutor

VERIF = os.path.dirname(os.path.dirname(os.path.dirname(os.path.dirname(os.path.abspath(__file__)))))
REPO = os.environ.get("RELIC_REPO", "/repo")
CACHE = os.path.join(VERIF, ".cache")
EXTRACTOR = os.path.join(VERIF, "sa", "extract", "relic_facts")
EXTRACTOR_SRC = os.path.join(VERIF, "sa", "extract", "relic_facts.cc")

CONFIGS = {
    "BASE": [],
    "DYN": ["-DALLOC=DYNAMIC"],
    "MULTI": ["-DMULTI=PTHREAD"],
    "P255": ["-DFP_PRIME=255"],
    "P381": ["-DFP_PRIME=381"],
}


class AnalysisBroken(Exception):
    """The analysis itself could not be carried out (exit status 2)."""


_scratch = None


def scratch_dir():
    global _scratch
    if _scratch is None:
        _scratch = tempfile.mkdtemp(prefix="relic-verif-")
        atexit.register(lambda: shutil.rmtree(_scratch, ignore_errors=True))
    return _scratch


def build_extractor(force=False):
    if not force and os.path.exists(EXTRACTOR) and os.path.getmtime(EXTRACTOR) >= os.path.getmtime(EXTRACTOR_SRC):
        return
    cxxflags = subprocess.check_output(["llvm-config-14", "--cxxflags"], text=True).split()
    cmd = ["clang++"] + cxxflags + ["-fno-rtti", "-O1", "-w", EXTRACTOR_SRC, "-o", EXTRACTOR + ".tmp",
                                    "/usr/lib/llvm-14/lib/libclang-cpp.so.14", "/usr/lib/llvm-14/lib/libLLVM-14.so"]
    r = subprocess.run(cmd, stdout=subprocess.PIPE, stderr=subprocess.STDOUT, text=True)
    if r.returncode != 0:
        raise AnalysisBroken("cannot build extractor:\n" + r.stdout[-4000:])
    os.replace(EXTRACTOR + ".tmp", EXTRACTOR)


def _hash_inputs(opts):
    h = hashlib.sha256()
    h.update(repr(opts).encode())
    with open(EXTRACTOR, "rb") as f:
        h.update(hashlib.sha256(f.read()).digest())
    roots = ["src", "include", "cmake", "CMakeLists.txt", "preset"]
    n = 0
    for r in roots:
        p = os.path.join(REPO, r)
        if os.path.isfile(p):
            files = [p]
        else:
            files = []
            for dp, dn, fn in os.walk(p):
                dn.sort()
                for f in sorted(fn):
                    files.append(os.path.join(dp, f))
        for f in files:
            h.update(f.encode())
            try:
                with open(f, "rb") as fh:
                    h.update(hashlib.sha256(fh.read()).digest())
            except OSError:
                h.update(b"<unreadable>")
            n += 1
    return h.hexdigest()[:24], n


def configure(name, opts=None):
    """cmake-configure into scratch; returns (builddir, units[(file, flags)])"""
    if opts is None:
        opts = CONFIGS[name]
    bdir = os.path.join(scratch_dir(), "cfg-" + name)
    if os.path.exists(bdir):
        shutil.rmtree(bdir)
    r = subprocess.run(["cmake", "-S", REPO, "-B", bdir, "-G", "Ninja"] + list(opts),
                       stdout=subprocess.PIPE, stderr=subprocess.STDOUT, text=True)
    if r.returncode != 0:
        raise AnalysisBroken("cmake configure failed for %s:\n%s" % (name, r.stdout[-3000:]))
    r = subprocess.run(["ninja", "-C", bdir, "-t", "compdb"], stdout=subprocess.PIPE, stderr=subprocess.PIPE, text=True)
    if r.returncode != 0:
        raise AnalysisBroken("ninja compdb failed: " + r.stderr[-2000:])
    db = json.loads(r.stdout)
    units = []
    seen = set()
    for e in db:
        out = e.get("output", "")
        if "relic_s.dir" not in out:
            continue
        f = e["file"]
        if f in seen:
            continue
        seen.add(f)
        toks = shlex.split(e["command"])
        flags = []
        i = 0
        while i < len(toks):
            t = toks[i]
            if t.startswith(("-I", "-D", "-U", "-m", "-std=")):
                if t in ("-I", "-D", "-U"):
                    flags += [t, toks[i + 1]]
                    i += 1
                elif t not in ("-MD", "-MT", "-MF", "-MP"):
                    flags.append(t)
            elif t in ("-MT", "-MF", "-o"):
                i += 1
            i += 1
        units.append((f, flags))
    if len(units) < 250:
        raise AnalysisBroken("only %d library units found in the compilation database of %s" % (len(units), name))
    return bdir, units


_resource_dir = None


def resource_dir():
    global _resource_dir
    if _resource_dir is None:
        _resource_dir = subprocess.check_output(["clang", "-print-resource-dir"], text=True).strip()
    return _resource_dir


def _extract_one(args):
    src, flags, out = args
    cmd = [EXTRACTOR, src, out, "--"] + flags + ["-w", "-resource-dir", resource_dir()]
    r = subprocess.run(cmd, stdout=subprocess.PIPE, stderr=subprocess.STDOUT, text=True)
    return src, r.returncode, r.stdout


def extract(name, opts=None, only=None, use_cache=True, quiet=False):
    """Returns dict: {'config','units':[unitjson...],'conf_h':text,'n_units'}"""
    build_extractor()
    if opts is None:
        opts = CONFIGS[name]
    t0 = time.time()
    key, nfiles = _hash_inputs((name, tuple(opts), tuple(only) if only else None))
    os.makedirs(CACHE, exist_ok=True)
    cpath = os.path.join(CACHE, "%s-%s.pkl" % (name, key))
    if use_cache and os.path.exists(cpath):
        try:
            with open(cpath, "rb") as f:
                data = pickle.load(f)
            data["cached"] = True
            return data
        except Exception:
            pass
    bdir, units = configure(name, opts)
    if only:
        units = [(f, fl) for f, fl in units if any(f.endswith(o) for o in only)]
        if len(units) != len(only):
            raise AnalysisBroken("requested units not all found in %s: %s" % (name, only))
    odir = os.path.join(scratch_dir(), "facts-" + name)
    os.makedirs(odir, exist_ok=True)
    jobs = []
    for i, (f, fl) in enumerate(units):
        jobs.append((f, fl, os.path.join(odir, "%04d.json" % i)))
    results = []
    with ThreadPoolExecutor(max_workers=os.cpu_count() or 8) as ex:
        for src, rc, out in ex.map(_extract_one, jobs):
            if rc != 0:
                raise AnalysisBroken("extractor failed on %s (config %s):\n%s" % (src, name, out[-3000:]))
    ulist = []
    for f, fl, o in jobs:
        with open(o) as fh:
            u = json.load(fh)
        u["src"] = f
        ulist.append(u)
        os.unlink(o)
    with open(os.path.join(bdir, "include", "relic_conf.h")) as fh:
        conf = fh.read()
    data = {"config": name, "opts": list(opts), "units": ulist, "conf_h": conf, "n_units": len(ulist),
            "flags": units[0][1], "extract_s": round(time.time() - t0, 2), "cached": False}
    shutil.rmtree(bdir, ignore_errors=True)
    # prune older caches of this configuration
    for fn in os.listdir(CACHE):
        if fn.startswith(name + "-") and fn != os.path.basename(cpath):
            try:
                os.unlink(os.path.join(CACHE, fn))
            except OSError:
                pass
    tmp = cpath + ".tmp%d" % os.getpid()
    with open(tmp, "wb") as f:
        pickle.dump(data, f, protocol=pickle.HIGHEST_PROTOCOL)
    os.replace(tmp, cpath)
    if not quiet:
        sys.stderr.write("[facts] %s: %d units extracted in %.1fs\n" % (name, len(ulist), time.time() - t0))
    return data


def extract_files(tag, files, base_data):
    """extract facts for stand-alone C files (self-tests) under the flags and
    relic_conf.h of an already extracted configuration"""
    build_extractor()
    inc = os.path.join(scratch_dir(), "inc-" + tag)
    os.makedirs(inc, exist_ok=True)
    with open(os.path.join(inc, "relic_conf.h"), "w") as fh:
        fh.write(base_data["conf_h"])
    flags = []
    first_inc = True
    for f in base_data["flags"]:
        if f.startswith("-I") and first_inc and "include" in f and not f.startswith("-I" + REPO):
            flags.append("-I" + inc)
            first_inc = False
        else:
            flags.append(f)
    if first_inc:
        flags.insert(0, "-I" + inc)
    ulist = []
    for i, src in enumerate(files):
        out = os.path.join(inc, "st%d.json" % i)
        s, rc, log = _extract_one((src, flags, out))
        if rc != 0:
            raise AnalysisBroken("extractor failed on self-test %s:\n%s" % (src, log[-3000:]))
        with open(out) as fh:
            u = json.load(fh)
        u["src"] = src
        ulist.append(u)
    return {"config": "SELFTEST-" + tag, "opts": [], "units": ulist, "conf_h": base_data["conf_h"],
            "n_units": len(ulist), "flags": flags, "cached": False}
