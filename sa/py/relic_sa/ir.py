"""In-memory model of the extracted facts: Program / Function / Block / Element
and helpers over expression trees.

Expression tree node kinds (lists, first item is the tag):
  ["i", value, spelling?]      integer constant (folded by clang)
  ["v", varIndex]              variable (see Function.vars)
  ["f", name]                  function designator
  ["m", base, field, arrow, record]
  ["x", base, index]
  ["u", op, e]                 unary (op: * & - ! ~ ++ -- p++ p--)
  ["b", op, l, r]              binary
  ["=", lhs, rhs]   ["o=", op, lhs, rhs]
  ["c", callee|None, [args], calleeExpr?, fnType?]
  ["?", c, a, b]
  ["k", typeinfo, e]           explicit cast
  ["s", text]                  string literal
  ["l", [items]]               init list
  ["d", varIndex, init|None]   declaration   ["ds", d...]
  ["ret", e|None]
  ["r", elementId]             value of an earlier CFG element
  ["?", className] / others    not modelled
"""
import os


class Element:
    __slots__ = ("id", "e", "line", "file", "ms", "rg", "block", "idx", "fn", "tk")

    def __init__(self, fn, block, idx, d, unit):
        self.fn = fn
        self.block = block
        self.idx = idx
        self.id = d["id"]
        self.e = d["e"]
        self.line = d["l"]
        self.file = unit["files"][d["f"]]
        self.ms = unit["_ms"][d["ms"]]
        self.rg = unit["_rg"][d["rg"]]
        self.tk = d.get("tk")

    def loc(self):
        return "%s:%d" % (relpath(self.file), self.line)


class Block:
    __slots__ = ("id", "els", "succ", "term", "label", "noreturn", "preds")

    def __init__(self):
        self.preds = []


def relpath(p):
    for root in ("/repo/",):
        i = p.find(root)
        if i >= 0:
            return p[i + len(root):]
    i = p.find("/src/")
    if i >= 0:
        return p[i + 1:]
    i = p.find("/include/")
    if i >= 0:
        return p[i + 1:]
    return p


def parse_ms(s):
    """macro stack string -> tuple of (name, instanceKey), innermost first"""
    if not s:
        return ()
    out = []
    for part in s.split(";"):
        n, _, k = part.partition("@")
        out.append((n, k))
    return tuple(out)


def parse_rg(s):
    """region string -> tuple of (role, constructId), outermost first"""
    if not s:
        return ()
    return tuple((p[0], int(p[1:])) for p in s.split(","))


class Function:
    def __init__(self, d, unit):
        self.unit = unit
        self.name = d["name"]
        self.file = unit["files"][d["file"]]
        self.rfile = relpath(self.file)
        self.line = d["line"]
        self.endline = d["endline"]
        self.static = bool(d["static"])
        self.inline = bool(d["inline"])
        self.ret = d["ret"]
        self.ms = unit["_ms"][d["ms"]]
        self.vars = d["vars"]
        self.params = d["params"]
        self.constructs = d["constructs"]
        self.entry = d["entry"]
        self.exit = d["exit"]
        self.blocks = {}
        self.elems = {}
        for bd in d["blocks"]:
            b = Block()
            b.id = bd["id"]
            b.succ = bd["succ"]
            b.noreturn = bool(bd.get("nr"))
            b.label = bd.get("label")
            t = bd.get("term")
            if t:
                t = dict(t)
                t["ms"] = unit["_ms"][t["ms"]]
                t["rg"] = unit["_rg"][t["rg"]]
            b.term = t
            b.els = []
            for i, ed in enumerate(bd["els"]):
                el = Element(self, b, i, ed, unit)
                b.els.append(el)
                self.elems[el.id] = el
            self.blocks[b.id] = b
        for b in self.blocks.values():
            for s in b.succ:
                if s is not None:
                    self.blocks[s].preds.append(b.id)

    # ------------------------------------------------------------ helpers
    def var(self, i):
        return self.vars[i]

    def vname(self, i):
        return self.vars[i]["n"]

    def param_names(self):
        return [self.vars[i]["n"] for i in self.params]

    def param_index(self, name):
        for k, i in enumerate(self.params):
            if self.vars[i]["n"] == name:
                return i
        return None

    def all_elements(self):
        for b in self.blocks.values():
            for el in b.els:
                yield el

    def resolve(self, e):
        """follow ["r", id] references one level"""
        while isinstance(e, list) and e and e[0] == "r":
            el = self.elems.get(e[1])
            if el is None:
                return e
            e = el.e
        return e

    def fmt(self, e, depth=0):
        return fmt_expr(self, e, depth)

    def loc(self):
        return "%s:%d" % (self.rfile, self.line)


def fmt_expr(fn, e, depth=0):
    if e is None:
        return "<null>"
    if not isinstance(e, list):
        return repr(e)
    if depth > 12:
        return "..."
    t = e[0]
    f = lambda x: fmt_expr(fn, x, depth + 1)
    if t == "i":
        return str(e[2]) if len(e) > 2 and e[2] else str(e[1])
    if t == "v":
        return fn.vars[e[1]]["n"]
    if t == "f":
        return e[1]
    if t == "n":
        return e[1]
    if t == "m":
        return f(e[1]) + ("->" if e[3] else ".") + e[2]
    if t == "x":
        return "%s[%s]" % (f(e[1]), f(e[2]))
    if t == "u":
        op = e[1]
        if op.startswith("p"):
            return "%s%s" % (f(e[2]), op[1:])
        return "%s(%s)" % (op, f(e[2]))
    if t == "b":
        return "(%s %s %s)" % (f(e[2]), e[1], f(e[3]))
    if t == "=":
        return "%s = %s" % (f(e[1]), f(e[2]))
    if t == "o=":
        return "%s %s %s" % (f(e[2]), e[1], f(e[3]))
    if t == "c":
        name = e[1] if e[1] else "(*%s)" % f(e[3])
        return "%s(%s)" % (name, ", ".join(f(a) for a in e[2]))
    if t == "?":
        if len(e) == 4:
            return "(%s ? %s : %s)" % (f(e[1]), f(e[2]), f(e[3]))
        return "<%s>" % e[1]
    if t == "k":
        return "(%s)%s" % (e[1]["t"], f(e[2]))
    if t == "s":
        s = e[1]
        return '"%s"' % (s if len(s) < 30 else s[:27] + "...")
    if t == "l":
        return "{%s}" % ", ".join(f(a) for a in e[1])
    if t == "d":
        return "decl %s%s" % (fn.vars[e[1]]["n"], "" if e[2] is None else " = " + f(e[2]))
    if t == "ds":
        return "; ".join(f(a) for a in e[1:])
    if t == "ret":
        return "return %s" % ("" if e[1] is None else f(e[1]))
    if t == "r":
        el = fn.elems.get(e[1])
        if el is None:
            return "[r%d]" % e[1]
        return f(el.e)
    if t == "sizeof":
        return "sizeof(...)"
    if t == "cl":
        return "(compound)" + f(e[1])
    return "<%s>" % t


def walk(fn, e, follow_refs=False, _seen=None):
    """yield every sub-tree of e (pre-order).  With follow_refs the value of a
    referenced earlier element is walked too (each element once)."""
    if not isinstance(e, list) or not e:
        return
    t = e[0]
    yield e
    if t in ("i", "v", "f", "n", "s", "fl"):
        return
    if t == "r":
        if follow_refs:
            if _seen is None:
                _seen = set()
            if e[1] not in _seen:
                _seen.add(e[1])
                el = fn.elems.get(e[1])
                if el is not None:
                    yield from walk(fn, el.e, True, _seen)
        return
    if t == "m":
        yield from walk(fn, e[1], follow_refs, _seen)
    elif t == "x":
        yield from walk(fn, e[1], follow_refs, _seen)
        yield from walk(fn, e[2], follow_refs, _seen)
    elif t == "u":
        yield from walk(fn, e[2], follow_refs, _seen)
    elif t == "b":
        yield from walk(fn, e[2], follow_refs, _seen)
        yield from walk(fn, e[3], follow_refs, _seen)
    elif t == "=":
        yield from walk(fn, e[1], follow_refs, _seen)
        yield from walk(fn, e[2], follow_refs, _seen)
    elif t == "o=":
        yield from walk(fn, e[2], follow_refs, _seen)
        yield from walk(fn, e[3], follow_refs, _seen)
    elif t == "c":
        for a in e[2]:
            yield from walk(fn, a, follow_refs, _seen)
        if e[1] is None and len(e) > 3:
            yield from walk(fn, e[3], follow_refs, _seen)
    elif t == "?":
        if len(e) == 4:
            for a in e[1:]:
                yield from walk(fn, a, follow_refs, _seen)
    elif t == "k":
        yield from walk(fn, e[2], follow_refs, _seen)
    elif t == "l":
        for a in e[1]:
            yield from walk(fn, a, follow_refs, _seen)
    elif t == "d":
        if e[2] is not None:
            yield from walk(fn, e[2], follow_refs, _seen)
    elif t == "ds":
        for a in e[1:]:
            yield from walk(fn, a, follow_refs, _seen)
    elif t == "ret":
        if e[1] is not None:
            yield from walk(fn, e[1], follow_refs, _seen)
    elif t in ("sizeof", "cl"):
        if isinstance(e[1], list):
            yield from walk(fn, e[1], follow_refs, _seen)


def calls_in(fn, e, follow_refs=False):
    for n in walk(fn, e, follow_refs):
        if n[0] == "c":
            yield n


def arg_is_pointer(call, i):
    """does argument i of call node have pointer/array type (so that the
    callee could store through it)?  True when the extractor gave no flags."""
    if len(call) > 5 and isinstance(call[5], str) and i < len(call[5]):
        return call[5][i] == "1"
    return True


def peel(fn, e):
    """strip casts and follow element references until neither applies"""
    for _ in range(20):
        if isinstance(e, list) and e:
            if e[0] == "k":
                e = e[2]
                continue
            if e[0] == "r":
                el = fn.elems.get(e[1])
                if el is None:
                    return e
                e = el.e
                continue
        break
    return e


def strip_casts(e):
    while isinstance(e, list) and e and e[0] == "k":
        e = e[2]
    return e


def base_var(fn, e):
    """the variable index at the root of an access path (through member,
    index, deref, address-of, casts, pointer arithmetic), or None"""
    seen = 0
    while isinstance(e, list) and e and seen < 40:
        seen += 1
        t = e[0]
        if t == "v":
            return e[1]
        if t in ("m", "x"):
            e = e[1]
        elif t == "u" and e[1] in ("*", "&"):
            e = e[2]
        elif t == "k":
            e = e[2]
        elif t == "b" and e[1] in ("+", "-"):
            e = e[2]
        elif t == "r":
            el = fn.elems.get(e[1])
            if el is None:
                return None
            e = el.e
        elif t == "?" and len(e) == 4:
            return None
        else:
            return None
    return None


class Program:
    """All functions of one configuration."""

    def __init__(self, data):
        self.config = data["config"]
        self.data = data
        self.library = None
        self.functions = {}      # name -> Function (non-static; static ones under name@file)
        self.by_file = {}        # rfile -> [Function]
        self.callees = {}
        self.globals = []
        self.enums = {}          # (header rfile, line of the enum) -> {enumerator: value}
        self.all = []
        for u in data["units"]:
            for name, val, f, line in u.get("enums", ()):
                self.enums.setdefault((relpath(u["files"][f]), line), {})[name] = val
            u["_ms"] = [parse_ms(s) for s in u["mstacks"]]
            u["_rg"] = [parse_rg(s) for s in u["regions"]]
            main = u.get("main") or u.get("src")
            for name, c in u["callees"].items():
                if name not in self.callees:
                    self.callees[name] = c
            for g in u["globals"]:
                g = dict(g)
                g["file"] = u["files"][g["file"]]
                g["unit"] = main
                self.globals.append(g)
            for fd in u["functions"]:
                fn = Function(fd, u)
                fn.unit_src = main
                key = fn.name
                if fn.static or fn.inline:
                    # static functions: one per defining file; header-defined
                    # ones are repeated in every unit, keep the first
                    key2 = "%s@%s" % (fn.name, fn.rfile)
                    if key2 in self.functions:
                        continue
                    self.functions[key2] = fn
                    # also reachable by bare name if unique
                    if fn.name not in self.functions:
                        self.functions[fn.name] = fn
                    else:
                        other = self.functions[fn.name]
                        if other.static or other.inline:
                            # ambiguous bare name: keep first, callers resolve by file
                            pass
                else:
                    self.functions[fn.name] = fn
                self.all.append(fn)
                self.by_file.setdefault(fn.rfile, []).append(fn)

    def get(self, name, near=None):
        """resolve a callee name; `near` is the calling Function (static
        functions are looked up in its file first)"""
        if near is not None:
            k = "%s@%s" % (name, near.rfile)
            if k in self.functions:
                return self.functions[k]
            # static function defined in the same unit but another file (tmpl)
            for f2 in self.by_unit(near.unit_src):
                if f2.name == name:
                    return f2
        f = self.functions.get(name)
        if f is None and self.library is not None:
            return self.library.get(name)
        return f

    def by_unit(self, src):
        if not hasattr(self, "_by_unit"):
            self._by_unit = {}
            for fn in self.all:
                self._by_unit.setdefault(fn.unit_src, []).append(fn)
        return self._by_unit.get(src, [])

    def in_file(self, suffix):
        out = []
        for rf, fns in self.by_file.items():
            if rf.endswith(suffix):
                out += fns
        return out


def dump_function(fn, out=None):
    import sys
    out = out or sys.stdout
    out.write("function %s (%s) entry=B%d exit=B%d params=%s\n" % (fn.name, fn.loc(), fn.entry, fn.exit, fn.param_names()))
    for bid in sorted(fn.blocks, reverse=True):
        b = fn.blocks[bid]
        out.write(" B%d%s%s -> %s\n" % (b.id, " [%s]" % b.label if b.label else "", " NORETURN" if b.noreturn else "", b.succ))
        for el in b.els:
            ms = ">".join(n for n, _ in el.ms)
            rg = ",".join("%s%d" % r for r in el.rg)
            out.write("   e%-4d L%-5d %-60s %s %s\n" % (el.id, el.line, fn.fmt(el.e)[:100], ("{" + rg + "}") if rg else "", ("<" + ms + ">") if ms else ""))
        if b.term:
            t = b.term
            out.write("   T: %s %s %s\n" % (t["k"], fn.fmt(t.get("c")) if t.get("c") else "", ">".join(n for n, _ in t["ms"])))
