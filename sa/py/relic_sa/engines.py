"""Dataflow engines over the exploded CFG: forward must-analysis with branch
atoms (FACTS), write/kill computation, dominance-style queries."""
from collections import deque

from . import ir

NEG = {"==": "!=", "!=": "==", "<": ">=", ">=": "<", ">": "<=", "<=": ">"}
FLIP = {"==": "==", "!=": "!=", "<": ">", ">": "<", "<=": ">=", ">=": "<="}


# ---------------------------------------------------------------------- keys
def key(fn, e, depth=0):
    """canonical hashable form of a side-effect-free expression; references
    to earlier elements are expanded"""
    if e is None:
        return None
    if not isinstance(e, list):
        return e
    if depth > 25:
        return ("...",)
    t = e[0]
    if t == "r":
        el = fn.elems.get(e[1])
        return ("r?", e[1]) if el is None else key(fn, el.e, depth + 1)
    if t == "k":
        return key(fn, e[2], depth + 1)
    if t == "i":
        return ("i", e[1])
    if t == "v":
        return ("v", e[1])
    if t in ("f", "n", "s"):
        return (t, e[1])
    if t == "m":
        return ("m", key(fn, e[1], depth + 1), e[2])
    if t == "x":
        return ("x", key(fn, e[1], depth + 1), key(fn, e[2], depth + 1))
    if t == "u":
        return ("u", e[1], key(fn, e[2], depth + 1))
    if t == "b":
        return ("b", e[1], key(fn, e[2], depth + 1), key(fn, e[3], depth + 1))
    if t == "c":
        return ("c", e[1] if e[1] else key(fn, e[3], depth + 1), tuple(key(fn, a, depth + 1) for a in e[2]))
    if t == "?" and len(e) == 4:
        return ("?", key(fn, e[1], depth + 1), key(fn, e[2], depth + 1), key(fn, e[3], depth + 1))
    if t == "=":
        return ("=", key(fn, e[1], depth + 1), key(fn, e[2], depth + 1))
    return (t,)


def key_vars(k, out=None):
    if out is None:
        out = set()
    if isinstance(k, tuple):
        if len(k) == 2 and k[0] == "v":
            out.add(k[1])
        else:
            for x in k:
                key_vars(x, out)
    return out


def fmt_key(fn, k):
    if not isinstance(k, tuple):
        return str(k)
    t = k[0]
    if t == "i":
        return str(k[1])
    if t == "v":
        return fn.vars[k[1]]["n"]
    if t in ("f", "n"):
        return k[1]
    if t == "s":
        return '"%s"' % k[1][:20]
    if t == "m":
        return "%s->%s" % (fmt_key(fn, k[1]), k[2])
    if t == "x":
        return "%s[%s]" % (fmt_key(fn, k[1]), fmt_key(fn, k[2]))
    if t == "u":
        return "%s(%s)" % (k[1], fmt_key(fn, k[2]))
    if t == "b":
        return "(%s %s %s)" % (fmt_key(fn, k[2]), k[1], fmt_key(fn, k[3]))
    if t == "c":
        return "%s(%s)" % (k[1] if isinstance(k[1], str) else fmt_key(fn, k[1]), ", ".join(fmt_key(fn, a) for a in k[2]))
    if t == "?":
        return "(%s ? %s : %s)" % tuple(fmt_key(fn, x) for x in k[1:])
    return "<%s>" % (t,)


def fmt_atom(fn, a):
    if a[0] == "cmp":
        return "%s %s %s" % (fmt_key(fn, a[1]), a[2], a[3])
    if a[0] == "rel":
        return "%s %s %s" % (fmt_key(fn, a[1]), a[2], fmt_key(fn, a[3]))
    if a[0] == "ev":
        return "event %s" % (a[1:],)
    if a[0] == "alloc":
        return "%s = %s" % (fmt_key(fn, a[1]), fmt_key(fn, a[2]))
    if a[0] == "capge":
        return "capacity(%s) >= %s" % (fmt_key(fn, a[1]), fmt_key(fn, a[2]))
    return str(a)


# ---------------------------------------------------------------------- atoms
def local_consts(fn):
    """{local variable: constant} for locals whose every assignment (incl. the initialiser) stores the same literal
    constant and that are never stepped or passed by address"""
    lc = getattr(fn, "_local_consts", None)
    if lc is not None:
        return lc
    vals, bad = {}, set()
    for el in fn.all_elements():
        for sub in ir.walk(fn, el.e):
            t = sub[0]
            if t == "d":
                v, rhs = sub[1], sub[2]
                if rhs is None:
                    continue
            elif t == "=":
                l = ir.strip_casts(sub[1])
                if not (isinstance(l, list) and l[0] == "v"):
                    continue
                v, rhs = l[1], sub[2]
            elif t in ("o=", "u"):
                l = ir.strip_casts(sub[2])
                if isinstance(l, list) and l[0] == "v" and (t == "o=" or "+" in sub[1] or "-" in sub[1] or sub[1] == "&"):
                    bad.add(l[1])
                continue
            else:
                continue
            r = ir.peel(fn, rhs)
            if isinstance(r, list) and r[0] == "i" and isinstance(r[1], int):
                vals.setdefault(v, set()).add(r[1])
            else:
                bad.add(v)
    lc = {v: next(iter(c)) for v, c in vals.items() if len(c) == 1 and v not in bad and fn.vars[v]["k"] != "p"}
    fn._local_consts = lc
    return lc


def cond_atoms(fn, cond, truth, depth=0):
    """atoms known to hold when `cond` evaluates to `truth`"""
    e = cond
    while isinstance(e, list) and e and e[0] in ("r", "k"):
        if e[0] == "r":
            el = fn.elems.get(e[1])
            if el is None:
                return []
            e = el.e
        else:
            e = e[2]
    if not isinstance(e, list) or not e or depth > 20:
        return []
    t = e[0]
    if t == "u" and e[1] == "!":
        return cond_atoms(fn, e[2], not truth, depth + 1)
    if t == "b" and e[1] == "&&":
        if truth:
            return cond_atoms(fn, e[2], True, depth + 1) + cond_atoms(fn, e[3], True, depth + 1)
        return []
    if t == "b" and e[1] == "||":
        if not truth:
            return cond_atoms(fn, e[2], False, depth + 1) + cond_atoms(fn, e[3], False, depth + 1)
        return []
    if t == "b" and e[1] in NEG:
        op = e[1]
        lk, rk = key(fn, e[2]), key(fn, e[3])
        if lk and lk[0] == "i" and not (rk and rk[0] == "i"):
            lk, rk, op = rk, lk, FLIP[op]
        if not truth:
            op = NEG[op]
        if rk and rk[0] == "i":
            return [("cmp", lk, op, rk[1])]
        out = [("rel", lk, op, rk)]
        # a local that only ever holds one literal constant stands for that constant
        lc = local_consts(fn)
        if rk and rk[0] == "v" and rk[1] in lc:
            out.append(("cmp", lk, op, lc[rk[1]]))
        elif lk and lk[0] == "v" and lk[1] in lc and rk:
            out.append(("cmp", rk, FLIP[op], lc[lk[1]]))
        return out
    if t == "i":
        return []
    if t == "=":
        # `if ((x = f()) == ...)` style is not used; treat value of assignment as its lhs
        return cond_atoms(fn, e[1], truth, depth + 1)
    k = key(fn, e)
    return [("cmp", k, "!=" if truth else "==", 0)]


def atom_vars(a):
    out = set()
    if a[0] == "cmp":
        key_vars(a[1], out)
    elif a[0] == "rel":
        key_vars(a[1], out)
        key_vars(a[3], out)
    elif a[0] == "ev":
        for x in a[1:]:
            key_vars(x, out)
    return out


def entails(op1, k1, op2, k2):
    """does (x op1 k1) entail (x op2 k2) for integers?"""
    try:
        k1 = int(k1)
        k2 = int(k2)
    except (TypeError, ValueError):
        return op1 == op2 and k1 == k2
    # represent op1 k1 as interval / point-exclusion
    if op1 == "==":
        return {"==": k1 == k2, "!=": k1 != k2, "<": k1 < k2, "<=": k1 <= k2, ">": k1 > k2, ">=": k1 >= k2}[op2]
    if op1 == "!=":
        return op2 == "!=" and k1 == k2
    lo, hi = None, None
    if op1 == "<":
        hi = k1 - 1
    elif op1 == "<=":
        hi = k1
    elif op1 == ">":
        lo = k1 + 1
    elif op1 == ">=":
        lo = k1
    if op2 == "!=":
        return (hi is not None and k2 > hi) or (lo is not None and k2 < lo)
    if op2 == "<":
        return hi is not None and hi < k2
    if op2 == "<=":
        return hi is not None and hi <= k2
    if op2 == ">":
        return lo is not None and lo > k2
    if op2 == ">=":
        return lo is not None and lo >= k2
    return False


def holds_cmp(facts, k, op, const):
    for a in facts:
        if a[0] == "cmp" and a[1] == k and entails(a[2], a[3], op, const):
            return True
    return False


# ---------------------------------------------------------------------- writes
PURE_EXTERNALS = {"strlen", "memcmp", "strcmp", "strncmp", "printf", "fprintf", "util_print", "util_printf",
                  "abs", "isalpha", "isdigit", "isxdigit", "tolower", "toupper"}


def written_vars(prog, fn, e, out=None, top=True):
    """variables (indices) that evaluating the element tree `e` may write,
    directly or through a pointer passed to a callee's non-const parameter.
    Sub-elements referenced by ["r", id] are separate CFG elements and are not
    descended into."""
    if out is None:
        out = set()
    if not isinstance(e, list) or not e:
        return out
    t = e[0]
    if t in ("=", "o="):
        lhs = e[1] if t == "=" else e[2]
        rhs = e[2] if t == "=" else e[3]
        v = ir.base_var(fn, lhs)
        if v is not None:
            out.add(v)
        written_vars(prog, fn, lhs, out, False)
        written_vars(prog, fn, rhs, out, False)
    elif t == "u":
        if e[1] in ("++", "--", "p++", "p--"):
            v = ir.base_var(fn, e[2])
            if v is not None:
                out.add(v)
        written_vars(prog, fn, e[2], out, False)
    elif t == "d":
        out.add(e[1])
        if e[2] is not None:
            written_vars(prog, fn, e[2], out, False)
    elif t == "ds":
        for a in e[1:]:
            written_vars(prog, fn, a, out, False)
    elif t == "c":
        name = e[1]
        cal = prog.callees.get(name) if name else None
        params = cal["params"] if cal else None
        for i, a in enumerate(e[2]):
            written_vars(prog, fn, a, out, False)
            if not ir.arg_is_pointer(e, i):
                continue
            v = ir.base_var(fn, a)
            if v is None:
                continue
            aa = ir.strip_casts(fn.resolve(a))
            is_addr = isinstance(aa, list) and aa[0] == "u" and aa[1] == "&"
            vt = fn.vars[v]
            is_ptr = "pc" in vt or vt["c"].endswith("*")
            if not (is_addr or is_ptr):
                continue
            if params is not None and i < len(params):
                p = params[i]
                if "pc" in p:
                    if not p["pc"] and callee_writes_arg(prog, fn, name, i):
                        out.add(v)
                # non-pointer parameter: passed by value
            else:
                # unknown callee or variadic tail
                if name in PURE_EXTERNALS:
                    continue
                if is_addr or params is None:
                    out.add(v)
        if name is None and len(e) > 3:
            written_vars(prog, fn, e[3], out, False)
    elif t in ("b",):
        written_vars(prog, fn, e[2], out, False)
        written_vars(prog, fn, e[3], out, False)
    elif t == "?":
        if len(e) == 4:
            for a in e[1:]:
                written_vars(prog, fn, a, out, False)
    elif t in ("m",):
        written_vars(prog, fn, e[1], out, False)
    elif t == "x":
        written_vars(prog, fn, e[1], out, False)
        written_vars(prog, fn, e[2], out, False)
    elif t == "k":
        written_vars(prog, fn, e[2], out, False)
    elif t == "l":
        for a in e[1]:
            written_vars(prog, fn, a, out, False)
    elif t == "ret":
        if e[1] is not None:
            written_vars(prog, fn, e[1], out, False)
    return out


# ---------------------------------------------------------------------- field-sensitive access paths
def lvalue_path(fn, e):
    """(variable, field) designated by an lvalue / pointer expression: the field
    is the member selected directly on the variable (a->used -> (a,'used'),
    a->dp[i] -> (a,'dp'), a -> (a,None), *p -> (p,None)); (None,None) if there
    is no base variable"""
    field = None
    guard = 0
    while isinstance(e, list) and e and guard < 40:
        guard += 1
        t = e[0]
        if t == "v":
            return e[1], field
        if t == "m":
            field = e[2]
            e = e[1]
        elif t == "x":
            field = None
            e = e[1]
        elif t == "u" and e[1] in ("*", "&"):
            if e[1] == "*":
                field = None
            e = e[2]
        elif t == "k":
            e = e[2]
        elif t == "b" and e[1] in ("+", "-"):
            e = e[2]
        elif t == "r":
            el = fn.elems.get(e[1])
            if el is None:
                return None, None
            e = el.e
        else:
            return None, None
    return None, None


def key_paths(k, out=None):
    """(variable, field) pairs a canonical key depends on"""
    if out is None:
        out = set()
    if not isinstance(k, tuple) or not k:
        return out
    t = k[0]
    if t == "v" and len(k) == 2:
        out.add((k[1], None))
    elif t == "m" and len(k) == 3:
        b = k[1]
        if isinstance(b, tuple) and len(b) == 2 and b[0] == "v":
            out.add((b[1], k[2]))
        else:
            key_paths(b, out)
    else:
        for x in k:
            if isinstance(x, tuple):
                key_paths(x, out)
    return out


def atom_paths(a):
    out = set()
    if a[0] == "cmp":
        key_paths(a[1], out)
    elif a[0] == "rel":
        key_paths(a[1], out)
        key_paths(a[3], out)
    elif a[0] in ("ev", "capge"):
        for x in a[1:]:
            key_paths(x, out)
    return out


def paths_hit(deps, wp):
    """does a write to the paths `wp` invalidate something depending on `deps`?"""
    for v, f in deps:
        for wv, wf in wp:
            if v == wv and (f is None or wf is None or f == wf):
                return True
    return False


def written_paths(prog, fn, e, out=None):
    """(variable, field|None) pairs the element tree `e` may write"""
    if out is None:
        out = set()
    if not isinstance(e, list) or not e:
        return out
    for n in ir.walk(fn, e):
        t = n[0]
        if t in ("=", "o="):
            lhs = n[1] if t == "=" else n[2]
            v, f = lvalue_path(fn, lhs)
            if v is not None:
                out.add((v, f))
        elif t == "u" and n[1] in ("++", "--", "p++", "p--"):
            v, f = lvalue_path(fn, n[2])
            if v is not None:
                out.add((v, f))
        elif t == "d":
            out.add((n[1], None))
        elif t == "c":
            name = n[1]
            cal = prog.callees.get(name) if name else None
            params = cal["params"] if cal else None
            for i, a in enumerate(n[2]):
                if not ir.arg_is_pointer(n, i):
                    continue
                v, f = lvalue_path(fn, a)
                if v is None:
                    continue
                aa = ir.strip_casts(fn.resolve(a))
                is_addr = isinstance(aa, list) and aa[0] == "u" and aa[1] == "&"
                if params is not None and i < len(params):
                    p = params[i]
                    if "pc" in p and not p["pc"] and callee_writes_arg(prog, fn, name, i):
                        out.add((v, f))
                else:
                    if name in PURE_EXTERNALS:
                        continue
                    if is_addr or params is None:
                        out.add((v, f))
    return out


# ---------------------------------------------------------------------- parameter-write summaries
def param_writes(prog):
    """{Function: set(param positions)}: parameters through which the function
    (or a callee, transitively) may store.  Least fixpoint over the library;
    functions without a body are judged by the const-ness of the declaration."""
    cached = getattr(prog, "_param_writes", None)
    if cached is not None:
        return cached
    summ = {fn: set() for fn in prog.all}
    # per function: direct stores through params, and (param -> callee,pos) flows
    flows = {}
    for fn in prog.all:
        pidx = {v: k for k, v in enumerate(fn.params)}
        fl = []
        for el in fn.all_elements():
            for n in ir.walk(fn, el.e):
                t = n[0]
                if t in ("=", "o=") or (t == "u" and n[1] in ("++", "--", "p++", "p--")):
                    lhs = n[1] if t == "=" else n[2]
                    l = ir.strip_casts(lhs)
                    if isinstance(l, list) and l[0] != "v":
                        v = ir.base_var(fn, l)
                        if v in pidx:
                            summ[fn].add(pidx[v])
                elif t == "c":
                    for i, a in enumerate(n[2]):
                        if not ir.arg_is_pointer(n, i):
                            continue
                        v = ir.base_var(fn, a)
                        if v in pidx:
                            fl.append((pidx[v], n[1], i))
        flows[fn] = fl
    changed = True
    while changed:
        changed = False
        for fn in prog.all:
            for ppos, callee, apos in flows[fn]:
                if ppos in summ[fn]:
                    continue
                w = False
                g = prog.get(callee, near=fn) if callee else None
                if g is not None and g in summ:
                    w = apos in summ[g] or apos >= len(g.params)
                else:
                    cal = prog.callees.get(callee) if callee else None
                    if cal is None:
                        w = True
                    elif apos < len(cal["params"]):
                        p = cal["params"][apos]
                        w = ("pc" in p and not p["pc"])
                    else:
                        w = callee not in PURE_EXTERNALS
                if w:
                    summ[fn].add(ppos)
                    changed = True
    prog._param_writes = summ
    return summ


def callee_writes_arg(prog, fn, callee, apos):
    """may a call to `callee` from `fn` store through its argument number apos?"""
    summ = param_writes(prog)
    g = prog.get(callee, near=fn) if callee else None
    if g is not None and g in summ:
        return apos in summ[g] or apos >= len(g.params)
    lib = getattr(prog, "library", None)
    if g is not None and lib is not None:
        ls = param_writes(lib)
        if g in ls:
            return apos in ls[g] or apos >= len(g.params)
    cal = prog.callees.get(callee) if callee else None
    if cal is None:
        return True
    if apos < len(cal["params"]):
        p = cal["params"][apos]
        return "pc" in p and not p["pc"]
    return callee not in PURE_EXTERNALS


# ---------------------------------------------------------------------- engine
_REL_SIGNS = {"==": frozenset("0"), "<": frozenset("-"), "<=": frozenset("-0"), ">": frozenset("+"), ">=": frozenset("+0"), "!=": frozenset("-+")}
_SIGNS_REL = {v: k for k, v in _REL_SIGNS.items()}
_REL_FLIP = {"==": "==", "!=": "!=", "<": ">", "<=": ">=", ">": "<", ">=": "<="}


def _join_weaken(cur, v, new):
    """join of two must-states beyond plain intersection: two different relations between the same pair of keys
    (x == y on one path, x <= y on the other) leave the weakest relation both imply (x <= y)"""
    extra = []
    # flag implications ("v truthy => atoms"): the join implies what both sides imply; a side on which the flag is known
    # to be zero implies everything
    def _imp_of(st, k):
        for b in st:
            if b[0] == "imp" and b[1] == k:
                return b
        if ("cmp", k, "==", 0) in st:
            return ("imp", k, None)
        return None
    for side, oth in ((cur, v), (v, cur)):
        for a in side:
            if a[0] != "imp" or a in new:
                continue
            other = _imp_of(oth, a[1])
            if other is None:
                continue
            if a[2] is None:
                if other[2] is not None:
                    extra.append(other)
            elif other[2] is None:
                extra.append(a)
            else:
                both = a[2] & other[2]
                if both:
                    extra.append(("imp", a[1], both))
    # vacuous-verdict marker of rule modules: ("ev", "vg0") on one side lets the other side's ("ev", "vg", X) tokens through
    VG0 = ("ev", "vg0")
    if (VG0 in cur) != (VG0 in v):
        src = v if VG0 in cur else cur
        extra += [a for a in src if a[0] == "ev" and len(a) >= 3 and a[1] == "vg"]
    for a in cur:
        if a[0] != "rel" or a in new or a[2] not in _REL_SIGNS:
            continue
        for b in v:
            if b[0] != "rel" or b[2] not in _REL_SIGNS:
                continue
            if b[1] == a[1] and b[3] == a[3]:
                bop = b[2]
            elif b[1] == a[3] and b[3] == a[1]:
                bop = _REL_FLIP[b[2]]
            else:
                continue
            w = _SIGNS_REL.get(_REL_SIGNS[a[2]] | _REL_SIGNS[bop])
            if w is not None:
                extra.append(("rel", a[1], w, a[3]))
    return new | frozenset(extra) if extra else new


def forward_must(g, init, transfer, edge=None, follow=None):
    """Forward must-analysis over XCFG `g`.  States are frozensets; join is
    intersection.  transfer(node, in) -> out; edge(node, label, succ, out) ->
    state along that edge.  Returns {node: in-state} (None = unreachable)."""
    IN = {n: None for n in g.nodes}
    IN[g.entry] = frozenset(init)
    work = deque([g.entry])
    inq = {g.entry}
    steps = 0
    while work:
        n = work.popleft()
        inq.discard(n)
        s = IN[n]
        out = transfer(n, s)
        for m, label in n.succ:
            if follow is not None and not follow(n, m, label):
                continue
            v = edge(n, label, m, out) if edge else out
            if v is INFEASIBLE:
                continue
            cur = IN[m]
            if cur is None:
                IN[m] = v
                changed = True
            elif v is UNIVERSE:
                changed = False
            elif cur is UNIVERSE:
                IN[m] = v
                changed = True
            else:
                new = cur & v
                if len(new) != len(cur):
                    new = _join_weaken(cur, v, new)
                changed = new != cur
                if changed:
                    IN[m] = new
            if changed and m not in inq:
                work.append(m)
                inq.add(m)
        steps += 1
        if steps > 2000000:
            raise RuntimeError("dataflow did not converge in " + g.fn.name)
    return IN


PURE_CALLS = {"bn_bits", "bn_size_bin", "bn_size_raw", "bn_size_str", "bn_is_zero", "bn_is_even", "bn_sign", "bn_get_bit",
              "fp_bits", "fb_bits", "util_bits_dig", "strlen", "ep_param_level", "ep_curve_is_endom", "ep_curve_is_pairf",
              "ep_curve_is_super", "ep_curve_is_ctmap", "ep_curve_opt_a", "ep_curve_opt_b", "ep_curve_embed", "ep_param_embed",
              "eb_curve_is_kbltz", "fp_prime_get_mod8", "fp_prime_get_2ad", "fp_param_get", "md_size", "log_radix", "valid_radix",
              "fb_size_str", "fp_size_str", "ep_size_bin", "ep2_size_bin", "ep3_size_bin", "ep4_size_bin", "ep8_size_bin",
              "eb_size_bin", "ed_size_bin", "fp2_size_bin", "fp12_size_bin", "abs", "alloca", "__builtin_alloca", "_alloca",
              "malloc", "calloc", "core_get"}


ALLOC_CALLS = ("alloca", "__builtin_alloca", "_alloca", "malloc", "calloc")


def directly_assigned(fn, e):
    """variables whose own value the element assigns (not stores through them)"""
    out = set()
    for n in ir.walk(fn, e):
        t = n[0]
        if t == "=" and n[1][0] == "v":
            out.add(n[1][1])
        elif t == "o=" and n[2][0] == "v":
            out.add(n[2][1])
        elif t == "u" and n[1] in ("++", "--", "p++", "p--") and n[2][0] == "v":
            out.add(n[2][1])
        elif t == "d":
            out.add(n[1])
        elif t == "u" and n[1] == "&" and n[2][0] == "v":
            out.add(n[2][1])
    return out


import re as _re
PURE_PREDICATE = _re.compile(r"^[a-z0-9]+_(is_\w+|cmp(_\w+)?|on_curve|test_\w+)$")


def _pure_key(k):
    if not isinstance(k, tuple):
        return True
    if k and k[0] == "c":
        if not (isinstance(k[1], str) and (k[1] in PURE_CALLS or PURE_PREDICATE.match(k[1]))):
            return False
        return all(_pure_key(a) for a in k[2])
    if k and k[0] in ("=", "?stmt", "r?", "..."):
        return False
    if k and k[0] == "u" and k[1] in ("++", "--", "p++", "p--"):
        return False
    return all(_pure_key(x) for x in k[1:] if isinstance(x, tuple))


def assignment_atoms(fn, e):
    """value atoms established by `X = E` / `T X = E` when E is a constant or
    a pure expression not mentioning X"""
    out = []
    t = e[0]
    if t == "d" and e[2] is not None:
        lk, rhs = ("v", e[1]), e[2]
    elif t == "=":
        lk, rhs = key(fn, e[1]), e[2]
        # chained assignment a = b = E: both receive E
        inner = ir.strip_casts(rhs)
        while isinstance(inner, list) and inner and inner[0] == "=":
            out += assignment_atoms(fn, inner)
            rhs = inner[2]
            inner = ir.strip_casts(rhs)
        if not (isinstance(lk, tuple) and lk[0] in ("v", "m", "x", "u")) or not _pure_key(lk):
            return out
    elif t == "ds":
        for a in e[1:]:
            out += assignment_atoms(fn, a)
        return out
    else:
        return out
    rk = key(fn, rhs)
    if not isinstance(rk, tuple) or not _pure_key(rk):
        return out
    # X = (A > B ? B : A) and the like: the minimum / maximum of two operands is bounded by each of them; a bound by an
    # operand that is X itself (X = X > B ? B : X) speaks of the old value and is left out
    if rk[0] == "?" and len(rk) == 4 and isinstance(rk[1], tuple) and rk[1][0] == "b" and rk[1][1] in ("<", "<=", ">", ">="):
        c = rk[1]
        if {rk[2], rk[3]} == {c[2], c[3]} and c[2] != c[3]:
            first_is_smaller_when_true = c[1] in ("<", "<=")
            picks_first = rk[2] == c[2]
            is_min = (first_is_smaller_when_true and picks_first) or (not first_is_smaller_when_true and not picks_first)
            for operand in (c[2], c[3]):
                if not (key_vars(lk) & key_vars(operand)) and _pure_key(operand):
                    out.append(("rel", lk, "<=" if is_min else ">=", operand) if operand[0] != "i" else ("cmp", lk, "<=" if is_min else ">=", operand[1]))
            return out
    if key_vars(lk) & key_vars(rk):
        return out
    if rk[0] == "c" and rk[1] in ALLOC_CALLS and lk[0] == "v":
        out.append(("alloc", lk, rk))
    elif rk[0] == "i":
        out.append(("cmp", lk, "==", rk[1]))
    elif rk[0] in ("v", "m", "x", "b", "c", "u"):
        out.append(("rel", lk, "==", rk))
    return out


def self_update_atoms(fn, e, s):
    """atoms about X after `X = X + c`, `X += c`, `X++` (c a literal constant), from the atoms about X before"""
    v = c = None
    if e[0] == "=":
        l = ir.strip_casts(e[1])
        r = ir.peel(fn, e[2])
        if isinstance(l, list) and l[0] == "v" and isinstance(r, list) and r[0] == "b" and r[1] in ("+", "-"):
            a, b = ir.peel(fn, r[2]), ir.peel(fn, r[3])
            if a == l and isinstance(b, list) and b[0] == "i" and isinstance(b[1], int):
                v, c = l[1], (b[1] if r[1] == "+" else -b[1])
            elif r[1] == "+" and b == l and isinstance(a, list) and a[0] == "i" and isinstance(a[1], int):
                v, c = l[1], a[1]
    elif e[0] == "o=" and e[1] in ("+=", "-="):
        l = ir.strip_casts(e[2])
        b = ir.peel(fn, e[3])
        if isinstance(l, list) and l[0] == "v" and isinstance(b, list) and b[0] == "i" and isinstance(b[1], int):
            v, c = l[1], (b[1] if e[1] == "+=" else -b[1])
    if v is None or not s or s is UNIVERSE:
        return []
    out = []
    k = ("v", v)
    for a in s:
        if a[0] == "cmp" and a[1] == k and isinstance(a[3], int):
            out.append(("cmp", k, a[2], a[3] + c))
        elif a[0] == "rel" and a[1] == k and not (key_vars(a[3]) & {v}):
            out.append(("rel", k, a[2], ("b", "+", a[3], ("i", c)) if c >= 0 else ("b", "-", a[3], ("i", -c))))
    return out


class _Universe(frozenset):
    """state of a path on which a THROW has already been executed (the error
    is reported): every fact holds vacuously; identity of the join"""

    def __repr__(self):
        return "UNIVERSE"


UNIVERSE = _Universe()
INFEASIBLE = object()
CURRENT = None          # the Facts instance whose edge_gen callback is running (its edge_state is the state before the edge)


def key_atoms(K, truth, depth=0):
    """atoms that hold when the (pure) expression with key K evaluates to `truth` (cond_atoms on keys)"""
    if not isinstance(K, tuple) or depth > 8:
        return []
    if K[0] == "b" and K[1] in NEG and isinstance(K[3], tuple) and K[3][0] == "i":
        return [("cmp", K[2], K[1] if truth else NEG[K[1]], K[3][1])]
    def _const_truth(k):
        return (k[1] != 0) if (isinstance(k, tuple) and len(k) == 2 and k[0] == "i" and isinstance(k[1], int)) else None
    if K[0] == "b" and K[1] == "&&":
        if truth:
            return key_atoms(K[2], True, depth + 1) + key_atoms(K[3], True, depth + 1)
        # a conjunction is false; when one conjunct is a constant that holds (sizeof(int) > 2), the other one is false
        if _const_truth(K[2]) is True:
            return key_atoms(K[3], False, depth + 1)
        if _const_truth(K[3]) is True:
            return key_atoms(K[2], False, depth + 1)
        return []
    if K[0] == "b" and K[1] == "||":
        if not truth:
            return key_atoms(K[2], False, depth + 1) + key_atoms(K[3], False, depth + 1)
        if _const_truth(K[2]) is False:
            return key_atoms(K[3], True, depth + 1)
        if _const_truth(K[3]) is False:
            return key_atoms(K[2], True, depth + 1)
        return []
    if K[0] == "u" and K[1] == "!":
        return key_atoms(K[2], not truth, depth + 1)
    if K[0] in ("c", "m", "v", "x"):
        return [("cmp", K, "!=" if truth else "==", 0)]
    return []


def derive_atoms(atoms, s):
    """consequences of branch atoms about a local that holds the value of an expression (z = f(x); if (z) ...;
    neg = (g(b) == K); if (neg) ...; limit = C; if (n > limit) ...): the same atoms about the expression itself"""
    out = list(atoms)
    for a in atoms:
        if a[0] == "cmp" and isinstance(a[1], tuple) and a[1][0] == "v":
            for b in s:
                if b[0] == "rel" and b[1] == a[1] and b[2] == "==":
                    K = b[3]
                    out.append(("cmp", K, a[2], a[3]))
                    # the local holds a comparison / a conjunction: truthiness of the local decides its parts
                    if entails(a[2], a[3], "!=", 0):
                        out += key_atoms(K, True)
                    elif entails(a[2], a[3], "==", 0):
                        out += key_atoms(K, False)
        elif a[0] == "rel" and isinstance(a[3], tuple) and a[3][0] == "v":
            for b in s:
                if b[0] == "cmp" and b[1] == a[3] and b[2] == "==" and isinstance(b[3], int):
                    out.append(("cmp", a[1], a[2], b[3]))
        if a[0] == "rel":
            # a relation with a local that still holds the value of an expression (k = f(n); if (len != k) ...):
            # the same relation with the expression
            for side, other in ((1, 3), (3, 1)):
                if isinstance(a[side], tuple) and a[side][0] == "v":
                    for b in s:
                        if b[0] == "rel" and b[1] == a[side] and b[2] == "==" and b[3] != a[other]:
                            na = list(a)
                            na[side] = b[3]
                            out.append(tuple(na))
    return out


def counted_loop_nodes(fn, node, min_trips=1):
    """the XCFG nodes of the body of `for (v = 0; v < C; v++)` (C a constant >= min_trips; v assigned nowhere else) when
    `node` is the branch node of its condition and no path of the body leaves the function; None otherwise.  On the
    not-taken edge of such a condition the body has run at least min_trips times."""
    t = node.info.get("term") if node.kind == "br" else None
    c = ir.strip_casts(fn.resolve(t["c"])) if t and t.get("c") is not None else None
    if not (isinstance(c, list) and c and c[0] == "b" and c[1] == "<"):
        return None
    v = ir.strip_casts(fn.resolve(c[2]))
    bound = ir.peel(fn, c[3])
    if not (isinstance(v, list) and v[0] == "v" and isinstance(bound, list) and bound[0] == "i" and isinstance(bound[1], int) and bound[1] >= min_trips):
        return None
    vi = v[1]
    init0 = incs = other = 0
    for el in fn.all_elements():
        for sub in ir.walk(fn, el.e):
            if sub[0] == "d" and sub[1] == vi:
                r = ir.peel(fn, sub[2]) if sub[2] is not None else None
                if isinstance(r, list) and r[:2] == ["i", 0]:
                    init0 += 1
                else:
                    other += 1
            elif sub[0] == "=" and ir.strip_casts(sub[1]) == ["v", vi]:
                r = ir.peel(fn, sub[2])
                if isinstance(r, list) and r[:2] == ["i", 0]:
                    init0 += 1
                else:
                    other += 1
            elif sub[0] == "u" and sub[1] in ("++", "p++") and ir.strip_casts(sub[2]) == ["v", vi]:
                incs += 1
            elif sub[0] == "o=" and ir.strip_casts(sub[2]) == ["v", vi]:
                other += 1
    if init0 != 1 or incs != 1 or other:
        return None
    body = []
    seen = set()
    work = [s2 for s2, lab in node.succ if lab == "T"]
    while work:
        x = work.pop()
        if id(x) in seen or x is node:
            continue
        seen.add(id(x))
        if x.kind in ("raise", "noret"):
            continue            # an abnormal way out: not a path on which the function returns
        if x.kind == "exit":
            return None
        body.append(x)
        for y, lab in x.succ:
            if lab == "raise":
                continue        # the exceptional way out of the body is not a path on which the loop completes
            work.append(y)
        if len(seen) > 400:
            return None
    return body


def flag_implication(prog, fn, e, s):
    """("imp", key of a local integer flag, atoms | None) established by `flag = <constant>` / `flag = <pure condition>`:
    when the flag is later found truthy, everything in force at this assignment (and the condition's own parts) held;
    None stands for "the flag is zero here" (implies anything)"""
    if e[0] == "d" and e[2] is not None:
        v, rhs = e[1], e[2]
    elif e[0] == "=":
        l = ir.strip_casts(e[1])
        if not (isinstance(l, list) and l[0] == "v"):
            return None
        v, rhs = l[1], e[2]
    else:
        return None
    vi = fn.vars[v]
    if vi.get("k") != "l" or "pc" in vi or "dims" in vi or vi.get("c") not in ("int", "unsigned int", "_Bool", "char", "unsigned char", "long", "unsigned long"):
        return None
    rk = key(fn, rhs)
    k = ("v", v)
    if isinstance(rk, tuple) and rk[0] == "i" and isinstance(rk[1], int):
        if rk[1] == 0:
            return ("imp", k, None)
        own = []
    elif isinstance(rk, tuple) and _pure_key(rk) and not (key_vars(rk) & {v}):
        own = expand_predicates(prog, fn, key_atoms(rk, True))
        if not own:
            return None
    else:
        return None
    inner = frozenset(a for a in list(s) + list(own) if a[0] in ("cmp", "rel") and v not in atom_vars(a))
    if not inner:
        return None
    return ("imp", k, inner)


def expand_flags(atoms, s):
    """a flag found truthy on this edge brings in what its assignments implied"""
    out = list(atoms)
    for a in atoms:
        if a[0] == "cmp" and isinstance(a[1], tuple) and a[1][0] == "v" and entails(a[2], a[3], "!=", 0):
            for b in s:
                if b[0] == "imp" and b[1] == a[1] and b[2] is not None:
                    out += list(b[2])
    return out


_PRED_CACHE = {}


def predicate_summary(prog, name, near, depth=0):
    """(callee Function, key of the returned expression) for a helper whose whole body is `return <pure expression over its
    parameters>;` - such a helper is the expression; None otherwise"""
    g = prog.get(name, near=near) if name else None
    if g is None:
        return None
    ck = (prog.config, id(g))
    if ck in _PRED_CACHE:
        return _PRED_CACHE[ck]
    res = None
    rets = []
    ok = depth < 3 and len(g.params) <= 6
    if ok:
        for el in g.all_elements():
            e = el.e
            if e[0] == "ret":
                rets.append(e)
            for sub in ir.walk(g, e):
                if sub[0] in ("=", "o=", "d", "ds") or (sub[0] == "u" and sub[1] in ("++", "--", "p++", "p--")):
                    ok = False
    if ok and len(rets) == 1 and rets[0][1] is not None:
        rk = key(g, rets[0][1])
        pset = set(g.params)
        if isinstance(rk, tuple) and _pure_key(rk) and key_vars(rk) <= pset:
            res = (g, rk)
    _PRED_CACHE[ck] = res
    return res


_PRED2_CACHE = {}


def predicate_paths(prog, name, near, may_throw):
    """(callee, atoms implied by a truthy return, atoms implied by a falsy return) for a helper without side effects whose
    returns are constants or pure expressions guarded by pure conditions over its parameters (if (A) return 1; if (B)
    return 1; return 0;): the facts in force at the returns, intersected per outcome; None if the helper writes anything"""
    g = prog.get(name, near=near) if name else None
    if g is None or may_throw is None:
        return None
    ck = (prog.config, id(g))
    if ck in _PRED2_CACHE:
        return _PRED2_CACHE[ck]
    _PRED2_CACHE[ck] = None       # recursion guard
    res = None
    ok = len(g.params) <= 6 and len(g.blocks) <= 40
    rets = 0
    if ok:
        for el in g.all_elements():
            e = el.e
            if e[0] == "ret":
                rets += 1
            for sub in ir.walk(g, e):
                if sub[0] in ("=", "o=", "d", "ds") or (sub[0] == "u" and sub[1] in ("++", "--", "p++", "p--")):
                    ok = False
                elif sub[0] == "c" and not (isinstance(sub[1], str) and (sub[1] in PURE_CALLS or PURE_PREDICATE.match(sub[1]))):
                    ok = False
    if ok and rets >= 2:
        from . import xcfg as _x
        try:
            xg = _x.XCFG(g, may_throw)
            F = Facts(prog, xg)
        except Exception:
            xg = None
        if xg is not None:
            T = Fz = None
            pset = set(g.params)
            good = True
            for p, st in normal_exit_states(F, xg):
                if not (p.kind == "el" and p.el.e[0] == "ret" and p.el.e[1] is not None):
                    good = False
                    break
                rk = key(g, p.el.e[1])
                at = frozenset(a for a in st if a[0] in ("cmp", "rel") and atom_vars(a) <= pset)
                if isinstance(rk, tuple) and rk[0] == "i":
                    if rk[1] != 0:
                        T = at if T is None else (T & at)
                    else:
                        Fz = at if Fz is None else (Fz & at)
                elif isinstance(rk, tuple) and _pure_key(rk) and key_vars(rk) <= pset:
                    t1 = at | frozenset(key_atoms(rk, True))
                    f1 = at | frozenset(key_atoms(rk, False))
                    T = t1 if T is None else (T & t1)
                    Fz = f1 if Fz is None else (Fz & f1)
                else:
                    good = False
                    break
            if good:
                res = (g, T or frozenset(), Fz or frozenset())
    _PRED2_CACHE[ck] = res
    return res


def _subst_atom(a, m):
    if a[0] == "cmp":
        return ("cmp", _subst(a[1], m), a[2], a[3])
    if a[0] == "rel":
        return ("rel", _subst(a[1], m), a[2], _subst(a[3], m))
    return a


def _subst(k, m):
    if not isinstance(k, tuple):
        return k
    if len(k) == 2 and k[0] == "v":
        return m.get(k[1], k)
    return tuple(_subst(x, m) if isinstance(x, tuple) else x for x in k)


def expand_predicates(prog, fn, atoms, depth=0, may_throw=None):
    """atoms about the truth of a call to a pure predicate helper: the same about the expression it returns"""
    out = list(atoms)
    if prog is None or depth > 2:
        return out
    if may_throw is None and CURRENT is not None:
        may_throw = getattr(CURRENT.g, "may_throw", None)
    for a in atoms:
        if a[0] != "cmp" or not (isinstance(a[1], tuple) and a[1] and a[1][0] == "c" and isinstance(a[1][1], str)):
            continue
        truth = True if entails(a[2], a[3], "!=", 0) else (False if entails(a[2], a[3], "==", 0) else None)
        if truth is None:
            continue
        ps = predicate_summary(prog, a[1][1], fn)
        if ps is None:
            pp = predicate_paths(prog, a[1][1], fn, may_throw)
            if pp is not None and len(a[1][2]) == len(pp[0].params):
                m = {pv: a[1][2][i] for i, pv in enumerate(pp[0].params)}
                out += [_subst_atom(x, m) for x in (pp[1] if truth else pp[2])]
            continue
        g, rk = ps
        args = a[1][2]
        if len(args) != len(g.params):
            continue
        m = {pv: args[i] for i, pv in enumerate(g.params)}
        more = key_atoms(_subst(rk, m), truth)
        if more:
            out += expand_predicates(prog, fn, more, depth + 1)
    return out


class Facts:
    """Standard FACTS analysis: branch atoms, killed by writes to their
    variables; rules may add event facts through `gen`."""

    def __init__(self, prog, g, gen=None, extra_kill=None, init=(), edge_gen=None, mark_thrown=True, follow=None, assign_atoms=True):
        self.prog = prog
        self.g = g
        self.fn = g.fn
        self.gen = gen
        self.extra_kill = extra_kill
        self.edge_gen = edge_gen
        self.mark_thrown = mark_thrown
        self._wcache = {}
        self._wpcache = {}
        self.follow = follow
        self.assign_atoms = assign_atoms
        self.IN = forward_must(g, init, self._transfer, self._edge, follow)

    def writes(self, node):
        w = self._wcache.get(node.id)
        if w is None:
            if node.kind == "el":
                w = written_vars(self.prog, self.fn, node.el.e)
            else:
                w = set()
            self._wcache[node.id] = w
        return w

    def wpaths(self, node):
        w = self._wpcache.get(node.id)
        if w is None:
            w = written_paths(self.prog, self.fn, node.el.e) if node.kind == "el" else set()
            self._wpcache[node.id] = w
        return w

    def _transfer(self, node, s):
        if s is UNIVERSE:
            return s
        if node.kind == "throw" and self.mark_thrown:
            return UNIVERSE
        if node.kind != "el":
            return s
        w = self.writes(node)
        self.pre = s
        shifted = self_update_atoms(self.fn, node.el.e, s)
        if self.extra_kill:
            s = self.extra_kill(node, s)
            if s is UNIVERSE:
                return s
        if w:
            dw = None
            wp = self.wpaths(node)
            keep = []
            for a in s:
                if a[0] in ("alloc", "capge"):
                    # the size of an allocation / a granted capacity survives writes *through* the pointer
                    if dw is None:
                        dw = directly_assigned(self.fn, node.el.e)
                    if a[1][1] in dw or paths_hit(key_paths(a[2]), wp):
                        continue
                    if a[0] == "capge" and (a[1][1], None) in wp:
                        continue
                    keep.append(a)
                elif a[0] == "imp":
                    if paths_hit(key_paths(a[1]), wp):
                        continue
                    if a[2] is None:
                        keep.append(a)
                    else:
                        inner = frozenset(b for b in a[2] if not paths_hit(atom_paths(b), wp))
                        if inner:
                            keep.append(("imp", a[1], inner))
                elif not paths_hit(atom_paths(a), wp):
                    keep.append(a)
            s = frozenset(keep)
        if self.assign_atoms:
            add = assignment_atoms(self.fn, node.el.e)
            if add:
                s = s | frozenset(add)
            if shifted:
                s = s | frozenset(shifted)
            imp = flag_implication(self.prog, self.fn, node.el.e, s)
            if imp is not None:
                s = frozenset(a for a in s if not (a[0] == "imp" and a[1] == imp[1])) | frozenset([imp])
        if self.gen:
            add = self.gen(node, s, self.pre)
            if add:
                s = s | frozenset(add)
        return s

    def _edge(self, node, label, succ, s):
        if s is UNIVERSE:
            return s
        if node.kind == "br" and label in ("T", "F"):
            t = node.info.get("term")
            if t and t.get("c") is not None:
                atoms = cond_atoms(self.fn, t["c"], label == "T")
                if atoms:
                    # light path sensitivity: an edge whose condition contradicts a known fact is infeasible
                    for a in atoms:
                        if a[0] == "cmp":
                            for b in s:
                                if b[0] == "cmp" and b[1] == a[1] and entails(b[2], b[3], NEG[a[2]], a[3]):
                                    return INFEASIBLE
                    atoms = derive_atoms(atoms, s)
                    atoms = expand_predicates(self.prog, self.fn, atoms, may_throw=getattr(self.g, "may_throw", None))
                    atoms = expand_flags(atoms, s)
                    if self.edge_gen:
                        self.edge_state = s
                        global CURRENT
                        CURRENT = self
                        atoms = list(atoms) + list(self.edge_gen(node, label, atoms) or ())
                    return s | frozenset(atoms)
        elif node.kind == "br" and isinstance(label, tuple) and label[0] == "case":
            t = node.info.get("term")
            if t and t.get("c") is not None and isinstance(label[1], int):
                atoms = derive_atoms([("cmp", key(self.fn, t["c"]), "==", label[1])], s)
                if self.edge_gen:
                    self.edge_state = s
                    atoms = atoms + list(self.edge_gen(node, label, atoms) or ())
                return s | frozenset(atoms)
        return s

    def at(self, node):
        return self.IN.get(node)


def normal_exit_states(F, g):
    """(node, state) for every edge into the exit on which no throw has happened: the state after the node's transfer
    function and the edge function (a function may end in the not-taken edge of a branch)"""
    for p, l in g.exit.pred:
        st = F.IN.get(p)
        if st is None:
            continue
        if F.follow is not None and not F.follow(p, g.exit, l):
            continue
        st = F._transfer(p, st)
        if st is UNIVERSE:
            continue
        st = F._edge(p, l, g.exit, st)
        if st is INFEASIBLE or st is UNIVERSE:
            continue
        yield p, st


def world_follow(fn, varkey, w):
    """edge filter: only edges consistent with the integer variable `varkey`
    having the concrete value w (conditions on other things are not decided)"""
    def follow(n, m, label):
        if n.kind != "br":
            return True
        t = n.info.get("term")
        if not t or t.get("c") is None:
            return True
        if label in ("T", "F"):
            for a in cond_atoms(fn, t["c"], label == "T"):
                if a[0] == "cmp" and a[1] == varkey:
                    k = a[3]
                    if not {"==": w == k, "!=": w != k, "<": w < k, "<=": w <= k, ">": w > k, ">=": w >= k}[a[2]]:
                        return False
            return True
        if isinstance(label, tuple) and key(fn, t["c"]) == varkey:
            if label[0] == "case":
                return label[1] == w
            cases = [l[1] for _, l in n.succ if isinstance(l, tuple) and l[0] == "case"]
            return w not in cases
        return True
    return follow


def nullary_conditions(g):
    """keys of pure parameterless calls that decide branches (ep_curve_is_endom(), ...)"""
    fn = g.fn
    out = set()
    for n in g.nodes:
        if n.kind != "br":
            continue
        t = n.info.get("term")
        if not t or t.get("c") is None:
            continue
        for truth in (True,):
            for a in cond_atoms(fn, t["c"], truth):
                if a[0] == "cmp" and isinstance(a[1], tuple) and a[1][0] == "c" and a[1][2] == () and isinstance(a[1][1], str):
                    out.add(a[1])
    return sorted(out)


def condition_worlds(g, limit=3):
    """edge filters, one per assignment of zero / non-zero to the parameterless calls deciding branches: the value of
    such a call is the same at every test within one invocation (configuration queries)"""
    keys = nullary_conditions(g)[:limit]
    if not keys:
        return [(None, {})]
    fn = g.fn
    worlds = []
    for mask in range(1 << len(keys)):
        assign = {k: bool(mask >> i & 1) for i, k in enumerate(keys)}

        def follow(n, m, label, assign=assign):
            if n.kind != "br" or label not in ("T", "F"):
                return True
            t = n.info.get("term")
            if not t or t.get("c") is None:
                return True
            for a in cond_atoms(fn, t["c"], label == "T"):
                if a[0] == "cmp" and a[1] in assign:
                    nz = assign[a[1]]
                    # atom says: call op const
                    if nz and entails(a[2], a[3], "==", 0):
                        return False
                    if not nz and entails(a[2], a[3], "!=", 0):
                        return False
            return True
        worlds.append((follow, assign))
    return worlds


def reachable_from(g, starts, follow=lambda n, m, label: True):
    seen = set(starts)
    work = list(starts)
    while work:
        n = work.pop()
        for m, label in n.succ:
            if m not in seen and follow(n, m, label):
                seen.add(m)
                work.append(m)
    return seen


# ---------------------------------------------------------------------- small constant-set analysis
TOPV = "T"


def const_sets(g, track=None):
    """forward may-analysis of the sets of integer constants local scalar
    variables can hold.  Returns {node: {var: frozenset|TOPV}} (IN states).
    Variables never assigned on a path are absent."""
    fn = g.fn

    def ev(e, st):
        e = ir.strip_casts(fn.resolve(e))
        if not isinstance(e, list) or not e:
            return TOPV
        t = e[0]
        if t == "i" and isinstance(e[1], int):
            return frozenset([e[1]])
        if t == "v":
            return st.get(e[1], TOPV)
        if t == "b" and e[1] in ("+", "-", "*"):
            a, b = ev(e[2], st), ev(e[3], st)
            if a == TOPV or b == TOPV:
                return TOPV
            out = set()
            for x in a:
                for y in b:
                    out.add(x + y if e[1] == "+" else x - y if e[1] == "-" else x * y)
            return frozenset(out) if len(out) <= 16 else TOPV
        if t == "?" and len(e) == 4:
            a, b = ev(e[2], st), ev(e[3], st)
            if a == TOPV or b == TOPV:
                return TOPV
            return a | b
        return TOPV

    def join(a, b):
        out = {}
        for k in set(a) | set(b):
            x, y = a.get(k), b.get(k)
            if x is None:
                out[k] = y
            elif y is None:
                out[k] = x
            elif x == TOPV or y == TOPV:
                out[k] = TOPV
            else:
                u = x | y
                out[k] = u if len(u) <= 16 else TOPV
        return out

    def transfer(n, st):
        if n.kind != "el":
            return st
        e = n.el.e
        t = e[0]
        if t == "d":
            if e[2] is None:
                return st
            st = dict(st)
            st[e[1]] = ev(e[2], st)
            return st
        if t == "=" and e[1][0] == "v":
            st = dict(st)
            st[e[1][1]] = ev(e[2], st)
            return st
        if t == "o=" and e[2][0] == "v" and e[1] in ("+=", "-=", "*="):
            st = dict(st)
            st[e[2][1]] = ev(["b", e[1][0], e[2], e[3]], st)
            return st
        if t == "u" and e[1] in ("++", "--", "p++", "p--") and e[2][0] == "v":
            st = dict(st)
            st[e[2][1]] = ev(["b", "+" if "+" in e[1] else "-", e[2], ["i", 1]], st)
            return st
        # any other write (address taken, passed to a callee) makes the variable unknown
        for n2 in ir.walk(fn, e):
            if n2[0] == "u" and n2[1] == "&" and n2[2][0] == "v":
                st = dict(st)
                st[n2[2][1]] = TOPV
        return st

    IN = {g.entry: {}}
    work = deque([g.entry])
    steps = 0
    while work:
        n = work.popleft()
        out = transfer(n, IN[n])
        for m, label in n.succ:
            cur = IN.get(m)
            new = out if cur is None else join(cur, out)
            if cur is None or new != cur:
                IN[m] = new
                work.append(m)
        steps += 1
        if steps > 400000:
            break
    return IN, ev
