"""Exploded control-flow graph: clang's CFG of the macro expansion re-interpreted
under the semantics of RELIC's TRY/CATCH/FINALLY/THROW protocol.

The protocol state carried by every node is small and finite:
  z      constant values of the protocol loop variables (`_z`)
  caught value of ctx->caught when known
  stack  installed handlers (one entry per executed `ctx->last = &_this`)
  saved  for each `_last` variable the stack depth at the time it was saved

Interpretation is *semantic* (what the statements do), not by macro name, so an
edited macro that e.g. no longer restores `ctx->last` on one path shows up as an
imbalance at every use.

Modelling decisions (DESIGN.md section 2.3):
  * `setjmp(..) == 0`: the true edge is the normal flow; the false edge is the
    handler entry, reached only by `raise` edges from nodes executed while
    that handler is on top of the stack;
  * a THROW expansion collapses to one `throw` node.  With a handler installed
    by this function it only raises; otherwise it raises to the caller *or*
    falls through (error only recorded);
  * a call to a MayThrow function has, besides its normal successor, a raise
    edge to the top handler or, with none installed, to the RAISE exit.
"""
from collections import namedtuple, deque

from . import ir

State = namedtuple("State", "z caught stack saved")
EMPTY = State((), None, (), ())

CTX_RECS = ("_ctx_t", "ctx_t")
PROTO_MACROS = ("RLC_ERR_TRY", "RLC_ERR_CATCH", "RLC_FINALLY", "RLC_ERR_THROW")


class Node:
    __slots__ = ("id", "kind", "el", "block", "pos", "state", "succ", "pred", "info", "proto")

    def __init__(self, nid, kind, block, pos, state, el=None):
        self.id = nid
        self.kind = kind      # el | br | throw | entry | exit | raise | noret
        self.block = block
        self.pos = pos
        self.state = state
        self.el = el
        self.succ = []        # (Node, label)
        self.pred = []        # (Node, label)
        self.info = {}
        self.proto = False

    def line(self):
        if self.el is not None:
            return self.el.line
        return self.info.get("line", 0)

    def __repr__(self):
        return "<N%d %s B%s.%s>" % (self.id, self.kind, self.block, self.pos)


def throw_key(x):
    """throw-expansion instance key of an Element or a terminator dict"""
    if isinstance(x, dict):
        return x.get("tk")
    return x.tk


def is_proto_ms(ms):
    return bool(ms) and ms[0][0] in PROTO_MACROS or any(n in PROTO_MACROS for n, _ in ms[:2])


class ThrowRegion:
    def __init__(self, key):
        self.key = key
        self.els = []
        self.code = None
        self.code_val = None
        self.first = None
        self.user_macro = None  # outermost macro in which the throw is written (e.g. bn_new)


def find_throw_regions(fn):
    regs = {}
    for b in fn.blocks.values():
        for el in b.els:
            k = throw_key(el)
            if k is None:
                continue
            r = regs.get(k)
            if r is None:
                r = regs[k] = ThrowRegion(k)
                r.user_macro = el.ms[-1][0] if el.ms else None
            r.els.append(el)
            e = el.e
            if e[0] == "=" and e[1][0] == "m" and e[1][2] == "number":
                rhs = e[2]
                if rhs[0] == "i":
                    r.code_val = rhs[1]
                    r.code = rhs[2] if len(rhs) > 2 else str(rhs[1])
                else:
                    r.code = fn.fmt(rhs)
    return regs


def const_of(fn, e):
    e = fn.resolve(e)
    e = ir.strip_casts(e)
    if isinstance(e, list) and e and e[0] == "i" and isinstance(e[1], int):
        return e[1]
    return None


class XCFG:
    def __init__(self, fn, may_throw):
        self.fn = fn
        self.nodes = []
        self.index = {}
        self.may_throw = may_throw
        self.regions = find_throw_regions(fn)
        self.region_entry_seen = {}
        self.imbalances = []     # (node, message)
        self.exit = self._mk("exit", None, None, None)
        self.raise_exit = self._mk("raise", None, None, None)
        self.noret = self._mk("noret", None, None, None)
        self._states = []
        self._state_ids = {}
        self.zvars = set()
        for i, v in enumerate(fn.vars):
            if v.get("mb") in ("RLC_ERR_TRY", "RLC_ERR_CATCH") and v["c"] == "int":
                self.zvars.add(i)
        self._build()

    # ------------------------------------------------------------------ nodes
    def _mk(self, kind, block, pos, state, el=None):
        n = Node(len(self.nodes), kind, block, pos, state, el)
        self.nodes.append(n)
        return n

    def _get(self, block, pos, state):
        key = (block, pos, state)
        n = self.index.get(key)
        if n is not None:
            return n, False
        b = self.fn.blocks[block]
        if pos < len(b.els):
            el = b.els[pos]
            tk = throw_key(el)
            if tk is not None:
                n = self._mk("throw", block, pos, state, el)
                n.info["region"] = self.regions[tk]
                n.proto = True
            else:
                n = self._mk("el", block, pos, state, el)
                n.proto = any(m in PROTO_MACROS for m, _ in el.ms)
        else:
            n = self._mk("br", block, pos, state)
            if b.term:
                n.info["term"] = b.term
                n.info["line"] = b.term["l"]
                n.proto = any(m in PROTO_MACROS for m, _ in b.term["ms"])
        self.index[key] = n
        return n, True

    @staticmethod
    def _edge(a, b, label=None):
        a.succ.append((b, label))
        b.pred.append((a, label))

    # ------------------------------------------------------------------ protocol semantics
    def _zget(self, st, v):
        for k, val in st.z:
            if k == v:
                return val
        return None

    def _zset(self, st, v, val):
        z = tuple((k, x) for k, x in st.z if k != v)
        if val is not None:
            z = tuple(sorted(z + ((v, val),)))
        return st._replace(z=z)

    def _interp(self, node, el, st):
        fn = self.fn
        e = el.e
        t = e[0]
        if t == "d":
            v = e[1]
            if v in self.zvars:
                return self._zset(st, v, const_of(fn, e[2]) if e[2] is not None else None)
            return st
        if t == "u" and e[1] in ("p++", "++", "p--", "--") and e[2][0] == "v" and e[2][1] in self.zvars:
            cur = self._zget(st, e[2][1])
            if cur is None:
                return st
            return self._zset(st, e[2][1], cur + (1 if "+" in e[1] else -1))
        if t == "=":
            lhs, rhs = e[1], e[2]
            if lhs[0] == "v" and lhs[1] in self.zvars:
                return self._zset(st, lhs[1], const_of(fn, rhs))
            rr = ir.strip_casts(fn.resolve(rhs))
            if lhs[0] == "v" and isinstance(rr, list) and rr[0] == "m" and rr[2] == "last" and rr[4] in CTX_RECS:
                # _last = ctx->last
                saved = tuple((k, d) for k, d in st.saved if k != lhs[1]) + ((lhs[1], len(st.stack)),)
                return st._replace(saved=tuple(sorted(saved)))
            if lhs[0] == "m" and lhs[2] == "last" and lhs[4] in CTX_RECS:
                if isinstance(rr, list) and rr[0] == "u" and rr[1] == "&" and rr[2][0] == "v":
                    # push
                    node.info["push"] = rr[2][1]
                    if len(st.stack) >= 6:
                        self.imbalances.append((node, "handlers pile up: a path re-enters a TRY without having restored the handler chain"))
                        return None
                    return st._replace(stack=st.stack + ((rr[2][1], None),))
                if isinstance(rr, list) and rr[0] == "v":
                    d = dict(st.saved).get(rr[1])
                    if d is not None:
                        node.info["pop"] = rr[1]
                        if len(st.stack) != d + 1:
                            self.imbalances.append((node, "handler chain restored from depth %d to %d (expected to pop exactly one handler)" % (len(st.stack), d)))
                        return st._replace(stack=st.stack[:d])
                return st
            if lhs[0] == "m" and lhs[2] == "caught" and lhs[4] in CTX_RECS:
                return st._replace(caught=const_of(fn, rhs))
        return st

    def _peval(self, cond, st):
        """evaluate a branch condition over the protocol state; None = unknown"""
        fn = self.fn
        e = ir.strip_casts(fn.resolve(cond))
        if not isinstance(e, list) or not e:
            return None
        t = e[0]
        if t == "i" and isinstance(e[1], int):
            return e[1] != 0
        if t == "v" and e[1] in self.zvars:
            v = self._zget(st, e[1])
            return None if v is None else v != 0
        if t == "m" and e[2] == "caught" and e[4] in CTX_RECS:
            return None if st.caught is None else st.caught != 0
        if t == "b" and e[1] in ("==", "!=", "<", "<=", ">", ">="):
            l = ir.strip_casts(fn.resolve(e[2]))
            r = const_of(fn, e[3])
            if isinstance(l, list) and l[0] == "v" and l[1] in self.zvars and r is not None:
                v = self._zget(st, l[1])
                if v is None:
                    return None
                return {"==": v == r, "!=": v != r, "<": v < r, "<=": v <= r, ">": v > r, ">=": v >= r}[e[1]]
        if t == "u" and e[1] == "!":
            v = self._peval(e[2], st)
            return None if v is None else not v
        return None

    def _is_setjmp_cond(self, cond):
        fn = self.fn
        e = ir.strip_casts(fn.resolve(cond))
        if isinstance(e, list) and e and e[0] == "b" and e[1] in ("==", "!="):
            l = ir.strip_casts(fn.resolve(e[2]))
            if isinstance(l, list) and l[0] == "c" and l[1] in ("_setjmp", "setjmp", "__sigsetjmp", "sigsetjmp"):
                k = const_of(fn, e[3])
                if k == 0:
                    return e[1]
        return None

    def _raise_target(self, st):
        """(block,pos,state) of the handler a raise in state st reaches, or None"""
        if st.stack:
            h = st.stack[-1][1]
            if h is None:
                return None
            return (h[0], h[1], self._states[h[2]])
        return None

    def _sid(self, st):
        i = self._state_ids.get(st)
        if i is None:
            i = len(self._states)
            self._state_ids[st] = i
            self._states.append(st)
        return i

    def _throw_exits(self, region, block, pos):
        """fall-through positions of a throw region"""
        fn = self.fn
        key = region.key
        seen = set()
        out = set()
        work = [(block, pos)]
        while work:
            b, i = work.pop()
            if (b, i) in seen:
                continue
            seen.add((b, i))
            blk = fn.blocks[b]
            if i < len(blk.els):
                if throw_key(blk.els[i]) == key:
                    work.append((b, i + 1))
                else:
                    out.add((b, i))
                continue
            if blk.noreturn:
                continue
            if blk.term is not None and throw_key(blk.term) != key:
                out.add((b, i))
                continue
            if blk.term is None and not blk.els:
                # empty join block: pass through
                pass
            for s in blk.succ:
                if s is not None:
                    work.append((s, 0))
        return out

    # ------------------------------------------------------------------ construction
    def _build(self):
        fn = self.fn
        entry, _ = self._get(fn.entry, 0, EMPTY)
        self.entry = entry
        work = deque([entry])
        guard = 0
        while work:
            n = work.popleft()
            guard += 1
            if guard > 100000:
                raise RuntimeError("exploded graph too large in " + fn.name)
            b = fn.blocks[n.block]
            st = n.state
            if n.kind == "throw":
                region = n.info["region"]
                tgt = self._raise_target(st)
                if st.stack:
                    if tgt is None:
                        self._edge(n, self.raise_exit, "raise")
                    else:
                        m, new = self._get(*tgt)
                        self._edge(n, m, "raise")
                        if new:
                            work.append(m)
                    n.info["falls"] = False
                else:
                    self._edge(n, self.raise_exit, "raise")
                    n.info["falls"] = True
                    for (eb, ei) in self._throw_exits(region, n.block, n.pos):
                        if eb == fn.exit:
                            self._edge(n, self.exit, "fall")
                            continue
                        m, new = self._get(eb, ei, st)
                        self._edge(n, m, "fall")
                        if new:
                            work.append(m)
                continue
            if n.kind == "el":
                el = n.el
                st2 = self._interp(n, el, st)
                if st2 is None:
                    continue
                # raise edges for calls that may throw
                if not n.proto or True:
                    thrower = None
                    for c in ir.calls_in(fn, el.e):
                        if c[1] is None or self.may_throw(c[1], fn):
                            thrower = c[1] or "<indirect>"
                            break
                    if thrower is not None:
                        n.info["may_raise"] = thrower
                        tgt = self._raise_target(st)
                        if tgt is None:
                            self._edge(n, self.raise_exit, "raise")
                        else:
                            m, new = self._get(*tgt)
                            self._edge(n, m, "raise")
                            if new:
                                work.append(m)
                m, new = self._get(n.block, n.pos + 1, st2)
                self._edge(n, m, None)
                if new:
                    work.append(m)
                continue
            if n.kind == "br":
                if b.noreturn:
                    self._edge(n, self.noret, None)
                    continue
                succ = b.succ
                term = b.term
                if n.block == fn.exit:
                    continue
                targets = []   # (blockid, label, state)
                if term is None or len(succ) <= 1:
                    for s in succ:
                        if s is not None:
                            targets.append((s, None, st))
                elif term["k"] == "SwitchStmt":
                    for s in succ:
                        if s is None:
                            continue
                        lab = fn.blocks[s].label
                        if lab and lab[0] == "case":
                            v = lab[1]
                            label = ("case", v[1] if v[0] == "i" else fn.fmt(v), v[2] if len(v) > 2 else None)
                        elif lab and lab[0] == "default":
                            label = ("default",)
                        else:
                            label = ("nodefault",)
                        targets.append((s, label, st))
                else:
                    cond = term.get("c")
                    sj = self._is_setjmp_cond(cond) if cond is not None else None
                    if sj is not None and len(succ) == 2:
                        normal, handler = (succ[0], succ[1]) if sj == "==" else (succ[1], succ[0])
                        if st.stack and handler is not None and st.stack[-1][1] is None:
                            hkey = (handler, 0, self._sid(st))
                            top = st.stack[-1]
                            st_body = st._replace(stack=st.stack[:-1] + ((top[0], hkey),))
                            n.info["setjmp"] = top[0]
                        else:
                            st_body = st
                        if normal is not None:
                            targets.append((normal, "T" if sj == "==" else "F", st_body))
                    else:
                        val = self._peval(cond, st) if cond is not None else None
                        st_out = st
                        # leaving a protocol loop: forget its counter and the caught flag
                        if term["k"] == "ForStmt" and val is False and cond is not None:
                            e = ir.strip_casts(fn.resolve(cond))
                            if isinstance(e, list) and e[0] == "b":
                                l = ir.strip_casts(fn.resolve(e[2]))
                                if isinstance(l, list) and l[0] == "v" and l[1] in self.zvars:
                                    st_out = self._zset(st, l[1], None)._replace(caught=None)
                        if len(succ) >= 1 and succ[0] is not None and val is not False:
                            targets.append((succ[0], "T", st))
                        if len(succ) >= 2 and succ[1] is not None and val is not True:
                            targets.append((succ[1], "F", st_out))
                for s, label, st2 in targets:
                    if s == fn.exit:
                        # normal function exit
                        if st2.stack:
                            self.imbalances.append((n, "function exit with %d handler(s) still installed" % len(st2.stack)))
                        self._edge(n, self.exit, label)
                        continue
                    m, new = self._get(s, 0, st2)
                    self._edge(n, m, label)
                    if new:
                        work.append(m)
                continue

    # ------------------------------------------------------------------ queries
    def user_nodes(self):
        return [n for n in self.nodes if n.kind in ("el", "br", "throw") and not (n.proto and n.kind != "throw")]

    def dump(self, out=None):
        import sys
        out = out or sys.stdout
        fn = self.fn
        for n in self.nodes:
            if n.kind == "el":
                txt = fn.fmt(n.el.e)[:70]
            elif n.kind == "br":
                t = n.info.get("term")
                txt = "br " + (t["k"] + " " + (fn.fmt(t["c"])[:50] if t.get("c") else "") if t else "")
            elif n.kind == "throw":
                txt = "THROW %s" % n.info["region"].code
            else:
                txt = n.kind
            st = n.state
            sts = "" if st is None else "z=%s c=%s d=%d" % (dict(st.z), st.caught, len(st.stack))
            out.write("N%-4d %s%-72s [%s] -> %s\n" % (n.id, "p " if n.proto else "  ", txt, sts,
                                                      ", ".join("N%d%s" % (m.id, ":" + str(l) if l else "") for m, l in n.succ)))


def compute_may_throw(prog, base=None):
    """least fixpoint: functions from which an exception can propagate to the
    caller (a throw, or a call to such a function, outside every try-body)."""
    direct = set()
    calls = {}
    for fn in prog.all:
        cs = set()
        for el in fn.all_elements():
            if any(r == "T" for r, _ in el.rg):
                continue
            if throw_key(el) is not None:
                direct.add(fn)
                continue
            for c in ir.calls_in(fn, el.e):
                if c[1] is None:
                    direct.add(fn)
                else:
                    cs.add(c[1])
        calls[fn] = cs
    mt = set(direct)
    if base is not None:
        mt |= base
    changed = True
    # resolve names lazily
    resolved = {}
    for fn, cs in calls.items():
        rs = []
        for name in cs:
            g = prog.get(name, near=fn)
            if g is not None:
                rs.append(g)
        resolved[fn] = rs
    while changed:
        changed = False
        for fn in prog.all:
            if fn in mt:
                continue
            if any(g in mt for g in resolved[fn]):
                mt.add(fn)
                changed = True
    return mt


def make_may_throw(prog, base=None):
    mt = compute_may_throw(prog, base)

    def may_throw(name, near=None):
        g = prog.get(name, near=near)
        if g is None:
            return False
        return g in mt
    may_throw.set = mt
    return may_throw
