"""Flow-insensitive interval analysis of the integer variables of a set of functions (with C integer types,
promotions and wrap-around), interprocedural over static callees: parameter intervals are the join over the call
sites, return intervals the join over the return statements.  Used for exactness of carry chains and for
value-changing narrowings of lengths."""
import re

from . import ir, engines
from .engines import key

TYPES = {
    "_Bool": (1, False), "char": (8, True), "signed char": (8, True), "unsigned char": (8, False),
    "short": (16, True), "unsigned short": (16, False), "int": (32, True), "unsigned int": (32, False),
    "long": (64, True), "unsigned long": (64, False), "long long": (64, True), "unsigned long long": (64, False),
    "__int128": (128, True), "unsigned __int128": (128, False),
}
INT = (32, True)
TYPEDEFS = {"uint8_t": "unsigned char", "int8_t": "signed char", "uint16_t": "unsigned short", "int16_t": "short",
            "uint32_t": "unsigned int", "int32_t": "int", "uint64_t": "unsigned long", "int64_t": "long",
            "size_t": "unsigned long", "ssize_t": "long", "dig_t": "unsigned long", "dis_t": "long", "uint_t": "unsigned int",
            "ull_t": "unsigned long long"}


def ctype(canon):
    if canon is None:
        return None
    c = canon.replace("const ", "").replace("volatile ", "").strip()
    if c.startswith("enum "):
        return (32, False)
    c = TYPEDEFS.get(c, c)
    return TYPES.get(c)


def trange(t):
    bits, signed = t
    if bits == 1:
        return (0, 1)
    return (-(1 << (bits - 1)), (1 << (bits - 1)) - 1) if signed else (0, (1 << bits) - 1)


def fits(iv, t):
    lo, hi = trange(t)
    return iv[0] >= lo and iv[1] <= hi


def join(a, b):
    if a is None:
        return b
    if b is None:
        return a
    return (min(a[0], b[0]), max(a[1], b[1]))


def promote(t):
    if t is None:
        return INT
    return INT if t[0] < 32 else t


def arith_type(a, b):
    a, b = promote(a), promote(b)
    if a == b:
        return a
    if a[0] != b[0]:
        return a if a[0] > b[0] else b
    return (a[0], False)


def elem_type(canon):
    """element type of a pointer / array canonical type string"""
    if canon is None:
        return None
    c = canon.replace("const ", "").replace("volatile ", "").strip()
    m = re.match(r"^(.*?)\s*\[\d*\]$", c)
    if m:
        return ctype(m.group(1))
    if c.endswith("*"):
        return ctype(c[:-1].strip())
    return None


class Val:
    """interval of the mathematically exact value, the C type it was computed in, and whether that computation
    may have wrapped / overflowed"""
    __slots__ = ("iv", "t", "wrapped")

    def __init__(self, iv, t, wrapped=False):
        self.iv, self.t, self.wrapped = iv, t, wrapped

    def __repr__(self):
        return "Val(%s,%s%s)" % (self.iv, self.t, ",wrapped" if self.wrapped else "")


BOTTOM = Val(None, None)      # depends on a variable that has no value yet


class Analysis:
    def __init__(self, prog, fns, fields=None, facts_of=None, library=None):
        """fns: functions analysed together; fields: {(record, field): (interval, ctype)}; facts_of(fn) -> Facts"""
        self.prog = prog
        self.fns = list(fns)
        self.by_name = {f.name: f for f in self.fns}
        self.fields = fields or {}
        self.facts_of = facts_of
        self.env = {f.name: {} for f in self.fns}         # var index -> interval
        self.ret = {}                                       # function name -> interval
        self.param_in = {f.name: {} for f in self.fns}     # var index -> interval from call sites
        self.narrowings = {}                                # (fn name, element id, var) -> Val assigned
        self.called = set()
        for f in self.fns:
            for el in f.all_elements():
                for c in ir.calls_in(f, el.e):
                    callee = self.by_name.get(c[1])
                    if callee is not None and callee is not f and callee.static:
                        self.called.add(callee.name)
        self.run()

    # ---------------------------------------------------------------- evaluation
    def vtype(self, fn, v):
        return ctype(fn.vars[v].get("c"))

    def var_iv(self, fn, v):
        t = self.vtype(fn, v)
        if t is None:
            return None
        iv = self.env[fn.name].get(v)
        if fn.vars[v]["k"] == "p":
            if fn.static and fn.name in self.called:
                iv = join(iv, self.param_in[fn.name].get(v))
            else:
                iv = trange(t)
        if iv is None:
            return BOTTOM     # not assigned yet
        return Val(iv, t)

    def ev(self, fn, e, depth=0):
        """Val or None (unknown / not an integer / bottom)"""
        if e is None or not isinstance(e, list) or depth > 40:
            return None
        k = e[0]
        if k == "r":
            el = fn.elems.get(e[1])
            return self.ev(fn, el.e, depth + 1) if el is not None else None
        if k == "i":
            v = e[1]
            if isinstance(v, str):
                v = int(v)
            t = INT if -(1 << 31) <= v < (1 << 31) else ((64, True) if v < (1 << 63) else (64, False))
            return Val((v, v), t)
        if k == "v":
            return self.var_iv(fn, e[1])
        if k == "x":
            b = ir.base_var(fn, e[1])
            base = ir.peel(fn, e[1])
            if isinstance(base, list) and base[0] == "v":
                t = elem_type(fn.vars[base[1]].get("c"))
                if t is not None:
                    return Val(trange(t), t)
            return None
        if k == "m":
            f = self.fields.get((e[4] if len(e) > 4 else None, e[2]))
            if f is not None:
                return Val(f[0], f[1])
            return None
        if k == "k":
            inner = self.ev(fn, e[2], depth + 1)
            if inner is BOTTOM:
                return BOTTOM
            t = ctype(e[1].get("c")) if isinstance(e[1], dict) else None
            if t is None:
                return inner
            if inner is None:
                return Val(trange(t), t)
            if fits(inner.iv, t):
                return Val(inner.iv, t, inner.wrapped)
            return Val(trange(t), t, inner.wrapped)      # explicit cast: deliberate truncation
        if k == "u":
            op = e[1]
            a = self.ev(fn, e[2], depth + 1)
            if a is BOTTOM:
                return BOTTOM
            if op == "!":
                return Val((0, 1), INT)
            if a is None:
                return None
            if op == "-":
                return self.fit(Val((-a.iv[1], -a.iv[0]), promote(a.t), a.wrapped))
            if op == "+":
                return a
            if op == "~":
                return Val(trange(promote(a.t)), promote(a.t))
            if op in ("++", "--", "p++", "p--", "++p", "--p", "post++", "post--", "pre++", "pre--"):
                return Val((a.iv[0] - 1, a.iv[1] + 1), a.t)
            return None
        if k == "?" and len(e) == 4:
            a, b = self.ev(fn, e[2], depth + 1), self.ev(fn, e[3], depth + 1)
            if a is BOTTOM or b is BOTTOM:
                return b if a is BOTTOM else a
            if a is None or b is None:
                return a or b
            return Val(join(a.iv, b.iv), arith_type(a.t, b.t), a.wrapped or b.wrapped)
        if k == "=":
            return self.ev(fn, e[2], depth + 1)
        if k == "c":
            name = e[1]
            if name in self.by_name:
                callee = self.by_name[name]
                r = self.ret.get(name)
                t = self.ret_type(e)
                if t is not None:
                    return Val(r, t) if r is not None else BOTTOM
            t = self.ret_type(e)
            if t is not None:
                return Val(trange(t), t)
            return None
        if k == "b":
            op = e[1]
            if op in ("==", "!=", "<", ">", "<=", ">=", "&&", "||"):
                return Val((0, 1), INT)
            if op == ",":
                return self.ev(fn, e[3], depth + 1)
            a, b = self.ev(fn, e[2], depth + 1), self.ev(fn, e[3], depth + 1)
            if a is BOTTOM or b is BOTTOM:
                return BOTTOM
            if a is None or b is None:
                return None
            return self.binop(op, a, b)
        return None

    def ret_type(self, call):
        callee = self.by_name.get(call[1])
        if callee is not None:
            return ctype(callee.ret)
        p = self.prog
        while p is not None:
            c = p.callees.get(call[1]) if call[1] else None
            if c is not None:
                return ctype(c.get("ret"))
            p = getattr(p, "library", None)
        return None

    def fit(self, v):
        if v.t is not None and not fits(v.iv, v.t):
            return Val(trange(v.t), v.t, True)
        return v

    def binop(self, op, a, b):
        if op in ("<<", ">>"):
            t = promote(a.t)
        else:
            t = arith_type(a.t, b.t)
        w = a.wrapped or b.wrapped
        # operands converted to the arithmetic type
        ai, bi = a.iv, b.iv
        if not fits(ai, t):
            ai, w = trange(t), True
        if op not in ("<<", ">>") and not fits(bi, t):
            bi, w = trange(t), True
        if op == "+":
            iv = (ai[0] + bi[0], ai[1] + bi[1])
        elif op == "-":
            iv = (ai[0] - bi[1], ai[1] - bi[0])
        elif op == "*":
            c = [ai[0] * bi[0], ai[0] * bi[1], ai[1] * bi[0], ai[1] * bi[1]]
            iv = (min(c), max(c))
        elif op == "/":
            if bi[0] <= 0:
                iv = trange(t)
            elif ai[0] >= 0:
                iv = (ai[0] // bi[1], ai[1] // bi[0])
            else:
                m = max(abs(ai[0]), abs(ai[1]))
                iv = (-m, m)
        elif op == "%":
            if bi[0] > 0 and ai[0] >= 0:
                iv = (0, min(ai[1], bi[1] - 1))
            elif bi[0] > 0:
                iv = (-(bi[1] - 1), bi[1] - 1)
            else:
                iv = trange(t)
        elif op == ">>":
            if ai[0] >= 0 and bi[0] >= 0:
                iv = (ai[0] >> bi[1], ai[1] >> bi[0])
            elif bi[0] >= 0:
                iv = (ai[0] >> bi[0], max(ai[1] >> bi[0], -1)) if ai[1] < 0 else (ai[0] >> bi[0], ai[1] >> bi[0])
            else:
                iv = trange(t)
        elif op == "<<":
            if ai[0] >= 0 and 0 <= bi[0] and bi[1] < 128:
                iv = (ai[0] << bi[0], ai[1] << bi[1])
            else:
                iv = trange(t)
        elif op == "&":
            if bi[0] >= 0 and ai[0] >= 0:
                iv = (0, min(ai[1], bi[1]))
            elif bi[0] >= 0:
                iv = (0, bi[1])
            elif ai[0] >= 0:
                iv = (0, ai[1])
            else:
                iv = trange(t)
        elif op in ("|", "^"):
            if ai[0] >= 0 and bi[0] >= 0:
                n = max(ai[1], bi[1]).bit_length()
                iv = (0, (1 << n) - 1)
            else:
                iv = trange(t)
        else:
            return None
        return self.fit(Val(iv, t, w))

    # ---------------------------------------------------------------- fixpoint
    def assignments(self, fn):
        """(element, var index, rhs expression or ('op', op, rhs))"""
        for el in fn.all_elements():
            for sub in ir.walk(fn, el.e):
                if sub[0] == "d" and sub[2] is not None:
                    yield el, sub[1], sub[2]
                elif sub[0] == "=":
                    l = ir.strip_casts(sub[1])
                    if isinstance(l, list) and l[0] == "v":
                        yield el, l[1], sub[2]
                elif sub[0] == "o=":
                    l = ir.strip_casts(sub[2])
                    if isinstance(l, list) and l[0] == "v":
                        yield el, l[1], ["b", sub[1][:-1], ["v", l[1]], sub[3]]
                elif sub[0] == "u" and sub[1] in ("++", "--", "p++", "p--", "++p", "--p", "post++", "post--", "pre++", "pre--"):
                    l = ir.strip_casts(sub[2])
                    if isinstance(l, list) and l[0] == "v":
                        yield el, l[1], ["b", "+" if "+" in sub[1] else "-", ["v", l[1]], ["i", 1]]

    def run(self):
        for rnd in range(14):
            changed = False
            for fn in self.fns:
                env = self.env[fn.name]
                for el, v, rhs in self.assignments(fn):
                    t = self.vtype(fn, v)
                    if t is None:
                        continue
                    val = self.ev(fn, rhs)
                    if val is BOTTOM:
                        continue
                    if val is None:
                        val = Val(trange(t), t)
                    self.narrowings[(fn.name, el.id, v)] = val
                    iv = val.iv if fits(val.iv, t) else trange(t)
                    old = env.get(v)
                    new = join(old, iv)
                    if rnd >= 5 and old is not None and new != old:
                        lo, hi = trange(t)
                        new = (lo if new[0] < old[0] else new[0], hi if new[1] > old[1] else new[1])
                    if new != old:
                        env[v] = new
                        changed = True
                # returns
                for el in fn.all_elements():
                    if el.e[0] == "ret" and el.e[1] is not None:
                        val = self.ev(fn, el.e[1])
                        if val is not None and val is not BOTTOM:
                            new = join(self.ret.get(fn.name), val.iv)
                            if new != self.ret.get(fn.name):
                                self.ret[fn.name] = new
                                changed = True
                # call sites into analysed static functions
                for el in fn.all_elements():
                    for c in ir.calls_in(fn, el.e):
                        callee = self.by_name.get(c[1])
                        if callee is None or callee is fn:
                            continue
                        bounds = self.site_bounds(fn, el)
                        for i, a in enumerate(c[2]):
                            if i >= len(callee.params):
                                break
                            pv = callee.params[i]
                            pt = self.vtype(callee, pv)
                            if pt is None:
                                continue
                            val = self.ev(fn, a)
                            if val is BOTTOM:
                                continue
                            iv = val.iv if val is not None else trange(pt)
                            ak = key(fn, a)
                            if ak in bounds:
                                lo, hi = bounds[ak]
                                iv = (max(iv[0], lo) if lo is not None else iv[0], min(iv[1], hi) if hi is not None else iv[1])
                            if not fits(iv, pt):
                                iv = trange(pt)
                            old = self.param_in[callee.name].get(pv)
                            new = join(old, iv)
                            if new != old:
                                self.param_in[callee.name][pv] = new
                                changed = True
            if not changed:
                break

    def site_bounds(self, fn, el):
        """constant bounds that branch facts give for expressions at the nodes of this element"""
        if self.facts_of is None:
            return {}
        F = self.facts_of(fn)
        out = None
        for nd in F.g.nodes:
            if nd.kind != "el" or nd.el.id != el.id:
                continue
            s = F.IN.get(nd)
            if s is None or s is engines.UNIVERSE:
                continue
            b = {}
            for a in s:
                if a[0] == "cmp" and isinstance(a[3], int):
                    lo, hi = b.get(a[1], (None, None))
                    if a[2] in ("<=", "<", "=="):
                        c = a[3] - 1 if a[2] == "<" else a[3]
                        hi = c if hi is None else min(hi, c)
                    if a[2] in (">=", ">", "=="):
                        c = a[3] + 1 if a[2] == ">" else a[3]
                        lo = c if lo is None else max(lo, c)
                    b[a[1]] = (lo, hi)
            if out is None:
                out = b
            else:
                # several exploded nodes: keep the weaker bound
                for k in list(out):
                    if k not in b:
                        del out[k]
                    else:
                        l1, h1 = out[k]
                        l2, h2 = b[k]
                        out[k] = (None if l1 is None or l2 is None else min(l1, l2), None if h1 is None or h2 is None else max(h1, h2))
        return out or {}


def field_interval(prog, rec, field, t):
    """interval of a record field all of whose writes in the program are non-negative constants or increments of
    itself by a non-negative constant: [min constant, max of the type]; None if written any other way"""
    lo = None
    n = 0
    for fn in prog.all:
        for el in fn.all_elements():
            for sub in ir.walk(fn, el.e):
                if sub[0] not in ("=", "o=", "u"):
                    continue
                l = ir.strip_casts(sub[1] if sub[0] == "=" else sub[2])
                if not (isinstance(l, list) and l[0] == "m" and l[2] == field and (len(l) < 5 or l[4] == rec)):
                    continue
                n += 1
                if sub[0] == "u":
                    if "+" in sub[1]:
                        continue
                    return None
                if sub[0] == "o=":
                    r = ir.peel(fn, sub[3])
                    if sub[1] == "+=" and isinstance(r, list) and r[0] == "i" and r[1] >= 0:
                        continue
                    return None
                r = ir.peel(fn, sub[2])
                while isinstance(r, list) and r[0] == "=":
                    r = ir.peel(fn, r[2])
                if isinstance(r, list) and r[0] == "i" and isinstance(r[1], int) and r[1] >= 0:
                    lo = r[1] if lo is None else min(lo, r[1])
                    continue
                if isinstance(r, list) and r[0] == "b" and r[1] == "+":
                    a, b = ir.peel(fn, r[2]), ir.peel(fn, r[3])
                    if isinstance(a, list) and a[0] == "m" and a[2] == field and isinstance(b, list) and b[0] == "i" and b[1] >= 0:
                        continue
                return None
    if n == 0 or lo is None:
        return None
    return ((lo, trange(t)[1]), t)
