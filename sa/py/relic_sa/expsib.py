"""EXP-SIB, generic form: every exponentiation sibling consults the sign of each of its exponent parameters on every path
that returns a power (negative exponents must end in an inversion; an algorithm that works on the bits of |b| and never
looks at the sign returns a^|b|), unless the path hands that exponent to another sibling; and where a sibling tells
the zero exponent apart, that path sets the result to one."""
import re

from . import ir, engines
from .engines import Facts, key
from .facts import AnalysisBroken


def exponent_params(fn):
    out = []
    for v in fn.params:
        info = fn.vars[v]
        t = (info.get("ot") or info.get("t", ""))
        if re.match(r"^const bn_t\b", t) or (re.match(r"^bn_t\b", t.replace("const ", "")) and info.get("pc") == 1):
            out.append(v)
    return out


def c05_line(node, fn):
    seen = set()
    work = [node]
    while work:
        n = work.pop(0)
        if n.id in seen:
            continue
        seen.add(n.id)
        if n.line():
            return n.line()
        for p, _ in n.pred:
            work.append(p)
    return fn.line


def rule(ctx, prog, chk, family, set_one, rule_name="EXP-SIB"):
    """family: list of functions; set_one: regex of the call that stores 1 into the first parameter"""
    names = set(f.name for f in family) | set(f.name.split("__")[-1] for f in family)
    n = 0
    for fn in family:
        exps = exponent_params(fn)
        if not exps or not fn.params:
            continue
        c = fn.params[0]
        g = ctx.xcfg(prog, fn)

        def gen(node, s, pre, fn=fn, exps=exps, c=c):
            out = []
            e = node.el.e
            for cl in ir.calls_in(fn, e):
                if not cl[1]:
                    continue
                if cl[1] == "bn_copy" and len(cl[2]) == 2:
                    sk = key(fn, cl[2][1])
                    for E in exps:
                        if sk == ("v", E):
                            out.append(("ev", "copyof", key(fn, cl[2][0]), E))
                elif cl[1] == "bn_sign" and len(cl[2]) == 1:
                    k = key(fn, cl[2][0])
                    for E in exps:
                        if k == ("v", E) or ("ev", "copyof", k, E) in pre:
                            out.append(("ev", "signchk", E))
                elif cl[1] in names or cl[1].split("__")[-1] in names:
                    # delegation: the sibling is held to the same rule for the exponents it receives
                    for a in cl[2]:
                        k = key(fn, a)
                        for E in exps:
                            if k == ("v", E):
                                out.append(("ev", "signchk", E))
                elif set_one.match(cl[1]) and len(cl[2]) == 2 and key(fn, cl[2][0]) == ("v", c) and (ir.peel(fn, cl[2][1]) or [0, 0])[:2] == ["i", 1]:
                    out.append(("ev", "one"))
            for sub in ir.walk(fn, e):
                if sub[0] == "m" and sub[2] == "sign":
                    k = key(fn, sub[1])
                    for E in exps:
                        if k == ("v", E):
                            out.append(("ev", "signchk", E))
            return out

        def kill(node, s, fn=fn, c=c):
            w = engines.written_vars(prog, fn, node.el.e)
            if c in w and not any(cl[1] and set_one.match(cl[1]) for cl in ir.calls_in(fn, node.el.e)):
                s = frozenset(x for x in s if x != ("ev", "one"))
            return s
        F = Facts(prog, g, gen=gen, extra_kill=kill, mark_thrown=True)
        nret = 0
        bad_sign = {}
        bad_zero = None
        for p, st in engines.normal_exit_states(F, g):
            nret += 1
            zero_of = [E for E in exps if any(x[0] == "cmp" and x[1] == ("c", "bn_is_zero", (("v", E),)) and engines.entails(x[2], x[3], "!=", 0) for x in st)]
            if zero_of:
                if len(exps) == 1 and ("ev", "one") not in st:
                    bad_zero = p
                continue
            for E in exps:
                if ("ev", "signchk", E) not in st:
                    bad_sign.setdefault(E, p)
        if nret == 0:
            continue
        for E in exps:
            n += 1
            nm = fn.vars[E]["n"]
            if E in bad_sign:
                chk.fail(rule_name, fn, "sign:" + nm, "a path returns a power without ever consulting the sign of the exponent `%s` (nor handing it to a sibling): negative values of `%s` are treated as positive, or by the sign of another operand" % (nm, nm), line=c05_line(bad_sign[E], fn))
            else:
                chk.ok(rule_name, fn, "sign:" + nm, "every path returning a power consults the sign of `%s` or delegates" % nm, line=fn.line)
        if len(exps) == 1:
            n += 1
            if bad_zero is not None:
                chk.fail(rule_name, fn, "zero", "the path taken for a zero exponent returns without having set the result to 1", line=c05_line(bad_zero, fn))
            else:
                chk.ok(rule_name, fn, "zero", "wherever the exponent is known to be zero the result was set to 1", line=fn.line)
    return n
