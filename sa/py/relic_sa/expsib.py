"""EXP-SIB, generic form: every exponentiation sibling consults the sign of each of its exponent parameters on every path
that returns a power (negative exponents must end in an inversion; an algorithm that works on the bits of |b| and never
looks at the sign returns a^|b|), unless the path hands that exponent to another sibling; and where a sibling tells
the zero exponent apart, that path sets the result to one."""
import re

from . import ir, engines
from .engines import Facts, key
from .facts import AnalysisBroken


def exponent_params(fn):
    out = []
    for v in fn.params:
        info = fn.vars[v]
        t = (info.get("ot") or info.get("t", ""))
        if re.match(r"^const bn_t\b", t) or (re.match(r"^bn_t\b", t.replace("const ", "")) and info.get("pc") == 1):
            out.append(v)
    return out


def c05_line(node, fn):
    seen = set()
    work = [node]
    while work:
        n = work.pop(0)
        if n.id in seen:
            continue
        seen.add(n.id)
        if n.line():
            return n.line()
        for p, _ in n.pred:
            work.append(p)
    return fn.line


def rule(ctx, prog, chk, family, set_one, rule_name="EXP-SIB"):
    """family: list of functions; set_one: regex of the call that stores 1 into the first parameter"""
    names = set(f.name for f in family) | set(f.name.split("__")[-1] for f in family)
    n = 0
    for fn in family:
        exps = exponent_params(fn)
        if not exps or not fn.params:
            continue
        c = fn.params[0]
        g = ctx.xcfg(prog, fn)

        def gen(node, s, pre, fn=fn, exps=exps, c=c):
            out = []
            e = node.el.e
            for cl in ir.calls_in(fn, e):
                if not cl[1]:
                    continue
                if cl[1] == "bn_copy" and len(cl[2]) == 2:
                    sk = key(fn, cl[2][1])
                    for E in exps:
                        if sk == ("v", E):
                            out.append(("ev", "copyof", key(fn, cl[2][0]), E))
                elif cl[1] == "bn_sign" and len(cl[2]) == 1:
                    k = key(fn, cl[2][0])
                    for E in exps:
                        if k == ("v", E) or ("ev", "copyof", k, E) in pre:
                            out.append(("ev", "signchk", E))
                elif cl[1] in names or cl[1].split("__")[-1] in names:
                    # delegation: the sibling is held to the same rule for the exponents it receives
                    for a in cl[2]:
                        k = key(fn, a)
                        for E in exps:
                            if k == ("v", E):
                                out.append(("ev", "signchk", E))
                elif set_one.match(cl[1]) and len(cl[2]) == 2 and key(fn, cl[2][0]) == ("v", c) and (ir.peel(fn, cl[2][1]) or [0, 0])[:2] == ["i", 1]:
                    out.append(("ev", "one"))
            for sub in ir.walk(fn, e):
                if sub[0] == "m" and sub[2] == "sign":
                    k = key(fn, sub[1])
                    for E in exps:
                        if k == ("v", E):
                            out.append(("ev", "signchk", E))
            return out

        def kill(node, s, fn=fn, c=c):
            w = engines.written_vars(prog, fn, node.el.e)
            if c in w and not any(cl[1] and set_one.match(cl[1]) for cl in ir.calls_in(fn, node.el.e)):
                s = frozenset(x for x in s if x != ("ev", "one"))
            return s
        F = Facts(prog, g, gen=gen, extra_kill=kill, mark_thrown=True)
        nret = 0
        bad_sign = {}
        bad_zero = None
        for p, st in engines.normal_exit_states(F, g):
            nret += 1
            zero_of = [E for E in exps if any(x[0] == "cmp" and x[1] == ("c", "bn_is_zero", (("v", E),)) and engines.entails(x[2], x[3], "!=", 0) for x in st)]
            if zero_of:
                if len(exps) == 1 and ("ev", "one") not in st:
                    bad_zero = p
                continue
            for E in exps:
                if ("ev", "signchk", E) not in st:
                    bad_sign.setdefault(E, p)
        if nret == 0:
            continue
        for E in exps:
            n += 1
            nm = fn.vars[E]["n"]
            if E in bad_sign:
                chk.fail(rule_name, fn, "sign:" + nm, "a path returns a power without ever consulting the sign of the exponent `%s` (nor handing it to a sibling): negative values of `%s` are treated as positive, or by the sign of another operand" % (nm, nm), line=c05_line(bad_sign[E], fn))
            else:
                chk.ok(rule_name, fn, "sign:" + nm, "every path returning a power consults the sign of `%s` or delegates" % nm, line=fn.line)
        if len(exps) == 1:
            n += 1
            if bad_zero is not None:
                chk.fail(rule_name, fn, "zero", "the path taken for a zero exponent returns without having set the result to 1", line=c05_line(bad_zero, fn))
            else:
                chk.ok(rule_name, fn, "zero", "wherever the exponent is known to be zero the result was set to 1", line=fn.line)
    return n


# ---------------------------------------------------------------------- SM-SIGN (scalar multiplications)
def rule_sm_sign(ctx, prog, chk, family, famre, rule_name="SM-SIGN", only_named=None):
    """every scalar-multiplication sibling honours the sign of each scalar parameter on every path that returns a point
    computed from it: the path consults the sign (bn_sign / ->sign, also of a copy), reduces the scalar modulo the order with
    bn_mod (which maps a negative scalar to its positive representative), or hands the scalar to a sibling; paths on which
    that scalar's term is moot (the scalar tested zero, its point tested to be the identity) or the result is the identity
    need nothing"""
    names = set(f.name for f in family)
    n = 0
    for fn in family:
        exps = exponent_params(fn)
        if only_named is not None:
            # families whose other integer parameters are bases / moduli: only the named ones are exponents
            exps = [E for E in exps if fn.vars[E]["n"] in only_named]
        if not exps or not fn.params:
            continue
        r = fn.params[0]
        rv = fn.vars[r]
        if "pc" not in rv or rv.get("pc"):
            continue        # no output parameter: a predicate or helper that happens to carry the family's name
        # the point a scalar multiplies: the point-typed parameter just before it
        point_of = {}
        for E in exps:
            i = fn.params.index(E)
            if i > 0:
                point_of[E] = fn.params[i - 1]
        g = ctx.xcfg(prog, fn)

        def is_scalar(k, E):
            """the scalar parameter itself, or an element of an array of scalars"""
            while isinstance(k, tuple) and k and k[0] == "x":
                k = k[1]
            return k == ("v", E)

        def gen(node, s, pre, fn=fn, exps=exps, r=r):
            out = []
            for cl in ir.calls_in(fn, node.el.e):
                if not cl[1]:
                    continue
                if cl[1] == "bn_sign" and len(cl[2]) == 1:
                    k = key(fn, cl[2][0])
                    kb = k
                    while isinstance(kb, tuple) and kb and kb[0] == "x":
                        kb = kb[1]
                    for E in exps:
                        if is_scalar(k, E) or ("ev", "copyof", k, E) in pre or ("ev", "copyof", kb, E) in pre:
                            out.append(("ev", "sc", E))
                elif cl[1] in ("bn_rec_frb", "bn_rec_glv") and len(cl[2]) >= 3:
                    # the decompositions give their sub-scalars the sign of the scalar (bn_rec_frb) or signs whose
                    # combination denotes it (bn_rec_glv): consulting the sign of a sub-scalar honours the scalar's
                    src = cl[2][2]
                    sk = key(fn, src)
                    for E in exps:
                        if is_scalar(sk, E) or ("ev", "copyof", sk, E) in pre:
                            for a in (cl[2][:1] if cl[1] == "bn_rec_frb" else cl[2][:2]):
                                kb = key(fn, a)
                                while isinstance(kb, tuple) and kb and kb[0] == "x":
                                    kb = kb[1]
                                out.append(("ev", "copyof", kb, E))
                elif cl[1] in ("bn_copy", "bn_lsh", "bn_dbl") and len(cl[2]) >= 2:
                    # copies and left shifts keep the sign
                    for E in exps:
                        if is_scalar(key(fn, cl[2][1]), E):
                            out.append(("ev", "copyof", key(fn, cl[2][0]), E))
                            # a copy into an element of a local array: remembered for the array as a whole (by name, so that
                            # filling the next element does not forget it)
                            kd = key(fn, cl[2][0])
                            if isinstance(kd, tuple) and kd[0] == "x" and isinstance(kd[1], tuple) and kd[1][0] == "v":
                                out.append(("ev", "copyarr", fn.vars[kd[1][1]]["n"], E))
                elif re.match(r"^bn_mod(_basic|_barrt|_monty|_pmers)?$", cl[1]) and len(cl[2]) >= 3:
                    k = key(fn, cl[2][1])
                    for E in exps:
                        if is_scalar(k, E) or ("ev", "copyof", k, E) in pre:
                            out.append(("ev", "sc", E))
                elif re.search(r"_set_infty$", cl[1]) and cl[2] and key(fn, cl[2][0]) == ("v", r):
                    out.append(("ev", "infty"))
                elif cl[1] in names or famre.match(cl[1]):
                    for a in cl[2]:
                        ka = key(fn, a)
                        for E in exps:
                            if is_scalar(ka, E):
                                out.append(("ev", "sc", E))
                            # a copy of the scalar (or the local array that holds such copies) handed to the sibling
                            elif any(x[0] == "ev" and x[1] == "copyof" and x[3] == E and (x[2] == ka or (isinstance(x[2], tuple) and x[2][0] == "x" and x[2][1] == ka)) for x in pre) \
                                    or (isinstance(ka, tuple) and ka[0] == "v" and ("ev", "copyarr", fn.vars[ka[1]]["n"], E) in pre):
                                out.append(("ev", "sc", E))
            for sub in ir.walk(fn, node.el.e):
                if sub[0] == "m" and sub[2] == "sign":
                    for E in exps:
                        if is_scalar(key(fn, sub[1]), E):
                            out.append(("ev", "sc", E))
            return out

        def kill(node, s, fn=fn, r=r):
            w = engines.written_vars(prog, fn, node.el.e)
            if r in w and not any(cl[1] and re.search(r"_set_infty$", cl[1]) for cl in ir.calls_in(fn, node.el.e)):
                s = frozenset(x for x in s if x != ("ev", "infty"))
            if r in w:
                s = frozenset(x for x in s if x != ("ev", "untouched"))
            return s

        def moot_by(k, E, point_of=point_of):
            """does the truth of the (pure) condition with key k make the term of scalar E moot?  a disjunction does when
            each of its disjuncts does"""
            if not isinstance(k, tuple):
                return False
            if k[0] == "b" and k[1] == "||":
                return moot_by(k[2], E) and moot_by(k[3], E)
            if k[0] == "c" and k[1] == "bn_is_zero" and len(k[2]) == 1 and is_scalar(k[2][0], E):
                return True
            P = point_of.get(E)
            if k[0] == "c" and P is not None and isinstance(k[1], str) and re.search(r"_is_infty$", k[1]) and k[2] == (("v", P),):
                return True
            return False

        def edge_gen(node, label, atoms, fn=fn, exps=exps, point_of=point_of):
            out = []
            for at in atoms:
                if at[0] != "cmp" or not isinstance(at[1], tuple) or at[1][0] != "c" or not engines.entails(at[2], at[3], "!=", 0):
                    continue
                for E in exps:
                    if at[1][1] == "bn_is_zero" and len(at[1][2]) == 1 and is_scalar(at[1][2][0], E):
                        out.append(("ev", "moot", E))
                    P = point_of.get(E)
                    if P is not None and isinstance(at[1][1], str) and re.search(r"_is_infty$", at[1][1]) and at[1][2] == (("v", P),):
                        out.append(("ev", "moot", E))
            # the condition held in a local (v = A || B; if (v) ...): the local found truthy
            cur = engines.CURRENT
            st = getattr(cur, "edge_state", None) if cur is not None else None
            if st:
                for at in atoms:
                    if at[0] == "cmp" and isinstance(at[1], tuple) and at[1][0] == "v" and engines.entails(at[2], at[3], "!=", 0):
                        for b in st:
                            if b[0] == "rel" and b[1] == at[1] and b[2] == "==":
                                for E in exps:
                                    if moot_by(b[3], E):
                                        out.append(("ev", "moot", E))
            return out
        miss_of = {}
        nret = 0
        somewhere = set()
        for follow, assign in engines.condition_worlds(g):
            F = Facts(prog, g, gen=gen, extra_kill=kill, edge_gen=edge_gen, mark_thrown=True, follow=follow, init=[("ev", "untouched")])
            for nd in g.nodes:
                if nd.kind == "el":
                    st0 = F.IN.get(nd)
                    if st0 is not None and st0 is not engines.UNIVERSE:
                        for x in gen(nd, st0, st0) or ():
                            if x[:2] == ("ev", "sc"):
                                somewhere.add(x[2])
            for p, st in engines.normal_exit_states(F, g):
                nret += 1
                if ("ev", "untouched") in st:
                    continue        # nothing was written through the output on this path: no point is returned
                for E in exps:
                    if ("ev", "infty") in st or ("ev", "moot", E) in st or ("ev", "sc", E) in st:
                        continue
                    miss_of.setdefault(E, p)
        for E in exps:
            miss = miss_of.get(E)
            if nret == 0:
                continue
            et = fn.vars[E].get("ot") or fn.vars[E].get("t", "")
            if miss is not None and ("*" in et or "[" in et):
                # an array of scalars is handled in a loop that runs once per element (zero times for an empty list): the
                # consultation has to exist inside the function, it cannot lie on every path
                if E in somewhere:
                    miss = None
            n += 1
            nm = fn.vars[E]["n"]
            if miss is not None:
                chk.fail(rule_name, fn, nm, "a path returns a point computed from the scalar `%s` without consulting its sign, reducing it modulo the order or handing it to a sibling: negative scalars yield [|%s|]P" % (nm, nm), line=c05_line(miss, fn))
            else:
                chk.ok(rule_name, fn, nm, "every path honours the sign of `%s` (sign test, reduction modulo the order, delegation) or the term is moot" % nm, line=fn.line)
    return n


# ---------------------------------------------------------------------- LOOP-BITS
def rule_loop_bits(ctx, prog, chk, family, exceptions=None, rule_name="LOOP-BITS"):
    """a sibling that scans the bits of a scalar/exponent parameter E with bn_get_bit(E, i) bounds i by the length of E:
    the index (or the condition of the loop it runs in) derives from bn_bits(E).  A scan bounded by a constant or by the
    length of the group order drops the high bits of longer values."""
    n = 0
    exceptions = exceptions or {}
    for fn in family:
        exps = exponent_params(fn)
        if not exps:
            continue
        derived = {}
        for rnd in range(3):
            for el in fn.all_elements():
                for sub in ir.walk(fn, el.e):
                    if sub[0] not in ("d", "="):
                        continue
                    if sub[0] == "d":
                        tgt, rhs = sub[1], sub[2]
                    else:
                        l = ir.strip_casts(sub[1])
                        tgt, rhs = (l[1] if isinstance(l, list) and l[0] == "v" else None), sub[2]
                    if tgt is None or rhs is None:
                        continue
                    for c in ir.calls_in(fn, rhs, follow_refs=True):
                        if c[1] == "bn_bits" and c[2]:
                            k = key(fn, c[2][0])
                            for E in exps:
                                if k == ("v", E):
                                    derived.setdefault(tgt, set()).add(E)
                    for s2 in ir.walk(fn, rhs, follow_refs=True):
                        if s2[0] == "v" and s2[1] in derived and s2[1] != tgt:
                            derived.setdefault(tgt, set()).update(derived[s2[1]])
        # index variables compared with bn_bits(E) (or a derived local) in a branch condition
        for b in fn.blocks.values():
            t = b.term
            if not t or t.get("c") is None:
                continue
            vs = [s2[1] for s2 in ir.walk(fn, t["c"], follow_refs=True) if s2[0] == "v"]
            es = set()
            for c in ir.calls_in(fn, t["c"], follow_refs=True):
                if c[1] == "bn_bits" and c[2]:
                    k = key(fn, c[2][0])
                    for E in exps:
                        if k == ("v", E):
                            es.add(E)
            for v in vs:
                es |= derived.get(v, set())
            if es:
                for v in vs:
                    derived.setdefault(v, set()).update(es)
        seen = set()
        for el in fn.all_elements():
            for c in ir.calls_in(fn, el.e):
                if c[1] != "bn_get_bit" or len(c[2]) != 2:
                    continue
                k = key(fn, c[2][0])
                for E in exps:
                    if k != ("v", E) or (E, el.line) in seen:
                        continue
                    seen.add((E, el.line))
                    n += 1
                    idx = [s2[1] for s2 in ir.walk(fn, c[2][1], follow_refs=True) if s2[0] == "v"]
                    nm = fn.vars[E]["n"]
                    base = fn.name.split("__")[-1]
                    if any(E in derived.get(v, ()) for v in idx):
                        chk.ok(rule_name, fn, "%s@%d" % (nm, el.line), "bit scan of `%s` bounded by bn_bits(%s)" % (nm, nm), line=el.line)
                    elif base in exceptions:
                        chk.ok(rule_name, fn, "%s@%d" % (nm, el.line), "not claimed: " + exceptions[base], line=el.line)
                    else:
                        chk.fail(rule_name, fn, "%s@%s" % (nm, fn.fmt(c[2][1])[:20]), "the bits of `%s` are scanned with an index that does not derive from bn_bits(%s): values longer than the fixed bound lose their high bits" % (nm, nm), line=el.line)
    return n


# ---------------------------------------------------------------------- PAR-SIGN
def rule_par_sign(ctx, prog, chk, in_scope, rule_name="PAR-SIGN"):
    """the curve parameter (fp_prime_get_par) is a signed integer - negative for some parameter sets, positive for others of the
    same family: a function that uses its low digit as a whole multiplier / exponent (V->dp[0] handed to a *_dig routine)
    consults its sign on every path from there to a normal return"""
    n = 0
    for fn in prog.all:
        if not (in_scope(fn) or "selftest" in fn.file):
            continue
        pars = set()
        for el in fn.all_elements():
            for c in ir.calls_in(fn, el.e):
                if c[1] == "fp_prime_get_par" and c[2]:
                    pars.add(key(fn, c[2][0]))
        if not pars:
            continue
        sites = []
        for el in fn.all_elements():
            for c in ir.calls_in(fn, el.e):
                if not (c[1] and re.search(r"_(mul|exp)_dig$", c[1])):
                    continue
                for a in c[2]:
                    k = key(fn, a)
                    if isinstance(k, tuple) and k[0] == "x" and isinstance(k[1], tuple) and k[1][0] == "m" and k[1][2] == "dp" and k[2] == ("i", 0) and k[1][1] in pars:
                        sites.append((el, k[1][1], c[1]))
        if not sites:
            continue
        g = ctx.xcfg(prog, fn)
        ids = {el.id: V for el, V, _ in sites}

        def gen(node, s, pre, fn=fn, ids=ids):
            out = []
            if node.el.id in ids:
                out.append(("ev", "lowdig", ids[node.el.id]))
            for c in ir.calls_in(fn, node.el.e):
                if c[1] == "bn_sign" and c[2] and key(fn, c[2][0]) in pars:
                    out.append(("ev", "signchk", key(fn, c[2][0])))
            for sub in ir.walk(fn, node.el.e):
                if sub[0] == "m" and sub[2] == "sign" and key(fn, sub[1]) in pars:
                    out.append(("ev", "signchk", key(fn, sub[1])))
            return out
        F = Facts(prog, g, gen=gen, mark_thrown=True)
        for el, V, callee in sites:
            n += 1
            bad = None
            for p, st in engines.normal_exit_states(F, g):
                if ("ev", "lowdig", V) in st and ("ev", "signchk", V) not in st:
                    bad = p
            nm = engines.fmt_key(fn, V) if hasattr(engines, "fmt_key") else str(V)
            if bad is not None:
                chk.fail(rule_name, fn, "%s@%s" % (nm, callee), "the low digit of the curve parameter `%s` is used as the whole multiplier of `%s` and a path returns without its sign ever being consulted: the parameter is negative for some parameter sets and positive for others" % (nm, callee), line=el.line)
            else:
                chk.ok(rule_name, fn, "%s@%s" % (nm, callee), "sign of the curve parameter consulted on every path after its low digit is used", line=el.line)
    return n
