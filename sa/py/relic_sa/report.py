"""Obligation bookkeeping, known findings, evidence and exit status."""
import json
import os
import sys
import time

from .facts import VERIF, AnalysisBroken

KNOWN = os.path.join(VERIF, "known_findings.txt")
EVID = os.path.join(VERIF, "evidence")
OUT = os.path.join(VERIF, "out")


def load_known():
    """lines:  finding: property=C08 rule=WRAP file=src/x.c function=f object=o | text
               fixed: property=C08 <commit> <text>      (suppresses nothing)"""
    out = {}
    if not os.path.exists(KNOWN):
        return out
    with open(KNOWN) as fh:
        for ln in fh:
            ln = ln.strip()
            if not ln or ln.startswith("#") or not ln.startswith("finding:"):
                continue
            head, _, text = ln[len("finding:"):].partition("|")
            kv = {}
            for tok in head.split():
                k, _, v = tok.partition("=")
                kv[k] = v
            key = (kv.get("property"), kv.get("rule"), kv.get("file"), kv.get("function"), kv.get("object", ""))
            out[key] = text.strip()
    return out


class Check:
    def __init__(self, pid, tier, explanation):
        self.pid = pid
        self.tier = tier
        self.t0 = time.time()
        self.explanation = explanation
        self.obligations = 0
        self.discharged = 0
        self.by_rule = {}
        self.samples = []
        self.sample_rules = {}
        self.violations = []
        self.known_hits = []
        self.nontrivial = set()
        self.floors = []
        self.configs = []
        self.units = 0
        self.functions = 0
        self.notes = []
        self.trusted = ["clang 14 parser, constant evaluator and CFG builder", "sa/extract/relic_facts.cc",
                        "cmake generation of relic_conf.h", "instance tables under sa/py/relic_sa/rules (anchored by names that must exist)"]
        self.assumptions = []
        self.known = load_known()
        self.only_key = None   # replay: restrict reporting to one obligation key

    # -------------------------------------------------------------- recording
    def used_program(self, prog):
        if prog.config not in self.configs:
            self.configs.append(prog.config)
            self.units += prog.data["n_units"]
            self.functions += len(prog.all)

    def ok(self, rule, fn, obj, detail="", line=None, file=None):
        self._count(rule, fn, True)
        self._sample(rule, fn, obj, detail, line, file, "discharged")

    def fail(self, rule, fn, obj, message, line=None, file=None, trace=None):
        """an obligation that does not hold: violation or known finding"""
        self._count(rule, fn, False)
        fname = fn.name if hasattr(fn, "name") else str(fn)
        f = file or (fn.rfile if hasattr(fn, "rfile") else "")
        key = (self.pid, rule, f, fname, str(obj))
        rec = {"property": self.pid, "rule": rule, "file": f, "function": fname, "object": str(obj), "line": line,
               "message": message, "trace": trace or []}
        if key in self.known:
            rec["known"] = self.known[key]
            self.known_hits.append(rec)
        else:
            self.violations.append(rec)
        self._sample(rule, fn, obj, message, line, f, "known-finding" if key in self.known else "VIOLATED", force=True)

    def _count(self, rule, fn, good):
        self.obligations += 1
        r = self.by_rule.setdefault(rule, [0, 0])
        r[0] += 1
        if good:
            self.discharged += 1
            r[1] += 1
        self.nontrivial.add((rule, fn.name if hasattr(fn, "name") else str(fn)))

    def _sample(self, rule, fn, obj, detail, line, file, verdict, force=False):
        n = self.sample_rules.get(rule, 0)
        if n >= 3 and not force:
            return
        self.sample_rules[rule] = n + 1
        fname = fn.name if hasattr(fn, "name") else str(fn)
        f = file or (fn.rfile if hasattr(fn, "rfile") else "")
        self.samples.append({"rule": rule, "function": fname, "site": "%s:%s" % (f, line if line else "?"),
                             "object": str(obj), "verdict": verdict, "detail": detail[:300]})

    def floor(self, rule, what, count, minimum):
        self.floors.append({"rule": rule, "what": what, "count": count, "min": minimum})
        if count < minimum:
            raise AnalysisBroken("%s: %s matched %d instance(s), below the floor of %d confirmed by reading — "
                                 "the rule would pass vacuously" % (rule, what, count, minimum))

    def note(self, s):
        self.notes.append(s)

    # -------------------------------------------------------------- finishing
    def finish(self, broken=None):
        os.makedirs(EVID, exist_ok=True)
        os.makedirs(os.path.join(OUT, "replay"), exist_ok=True)
        if self.only_key is None:
            for fnm in os.listdir(os.path.join(OUT, "replay")):
                if fnm.startswith("%s-%s-" % (self.pid, self.tier)):
                    os.unlink(os.path.join(OUT, "replay", fnm))
        wall = time.time() - self.t0
        seed = int(os.environ.get("VERIF_SEED", "0") or 0)
        lines = []
        # the same finding key may be hit in several configurations
        seen = set()
        for r in self.known_hits:
            k = (r["rule"], r["file"], r["function"], r["object"])
            if k in seen:
                continue
            seen.add(k)
            lines.append("KNOWN-FINDING: property=%s %s %s:%s:%s %s" % (self.pid, r["rule"], r["file"], r["function"], r["object"], r["message"]))
        vio_paths = []
        seen = set()
        more = 0
        for i, r in enumerate(self.violations):
            k = (r["rule"], r["file"], r["function"], r["object"])
            if k in seen:
                continue
            seen.add(k)
            if len(vio_paths) >= 40:
                more += 1
                continue
            p = os.path.join(OUT, "replay", "%s-%s-%d.json" % (self.pid, self.tier, len(vio_paths)))
            with open(p, "w") as fh:
                json.dump(r, fh, indent=1)
            vio_paths.append((r, p))
        cov = {
            "explanation": self.explanation,
            "obligations": self.obligations,
            "discharged": self.discharged,
            "evaluations": self.obligations,
            "distinct_nontrivial": len(self.nontrivial),
            "rule": "one obligation per (rule, site); distinct_nontrivial counts distinct (rule, function) pairs with at least one real site in the source",
            "samples": self.samples[:60],
            "by_rule": {k: {"obligations": v[0], "discharged": v[1]} for k, v in sorted(self.by_rule.items())},
            "floors": self.floors,
            "configs": self.configs,
            "units_parsed": self.units,
            "functions_analysed": self.functions,
            "known_findings_hit": len(self.known_hits),
            "checker_cmd": "bin/check %s --tier %s" % (self.pid, self.tier),
            "trusted_base": self.trusted,
            "notes": self.notes,
            "exhaustive": False,
        }
        if broken:
            cov["analysis_broken"] = broken
        ev = {"property_id": self.pid, "tier": self.tier, "seed": seed, "level": "other", "coverage": cov,
              "assumptions": self.assumptions, "wall_s": round(wall, 2), "violations": len(vio_paths) + more}
        with open(os.path.join(EVID, self.pid + ".json"), "w") as fh:
            json.dump(ev, fh, indent=1)
            fh.write("\n")
        for l in lines:
            print(l)
        for r, p in vio_paths:
            print("%s:%s: %s [%s] %s: %s" % (r["file"], r["line"], r["function"], r["rule"], r["object"], r["message"]))
            for t in r["trace"][:12]:
                print("    " + t)
        if more:
            print("... and %d further violation(s) not listed" % more)
        for r, p in vio_paths:
            print("VIOLATION property=%s replay=%s" % (self.pid, p))
        if broken:
            print("ANALYSIS-BROKEN property=%s %s" % (self.pid, broken))
            return 2
        print("[%s %s] obligations=%d discharged=%d known-findings=%d violations=%d configs=%s wall=%.1fs" % (
            self.pid, self.tier, self.obligations, self.discharged, len(lines), len(vio_paths), ",".join(self.configs), wall))
        return 1 if vio_paths else 0
