"""ALIAS-RW: read of an input object after a write to an output object that may be the same object.

For a function with an output parameter X and an input parameter Y of the same handle type (the library's contract
allows the output to be one of the inputs), a read of field F of Y *in a later statement than* a write of field F of X
sees the new value when X == Y.  Reads and writes inside one call are the callee's business (it is analysed under its
own parameters).  Writes that copy Y into X (X_copy(X, Y)) do not count for Y: under aliasing they change nothing.

Fields: for struct handles (bn_t) `used`, `sign`, `dp` (the digits); for digit-vector handles (fp_t, fb_t, dv_t) a
single pseudo-field `*`.  Only reads that are visible in the function itself are considered: Y->field, Y->dp[...] or
Y->dp handed to a callee, Y handed whole to a *public* bn_* operation at a const position (all fields, or the subset
tabulated for the simple readers), and - for digit vectors - Y handed to a callee's const parameter.  A struct handle
handed whole to a static helper is not counted as a read (the helper may read any subset, and its own first statement
is often the very copy that makes the alias harmless; it is analysed under its own parameters)."""
import re

from . import ir, engines
from .engines import key

POINTS = False      # set by the rule modules that arm ALIAS-RW for single points
STRUCT_FIELDS = ("used", "sign", "dp")
PT_FIELDS = ("x", "y", "z", "t", "coord")
# public operations that read (only) these fields of a struct handle given at a const position; any other public
# bn_* operation reads all fields of its const operands.  Static helpers are not counted (see the module comment).
READER_FIELDS = {"bn_sign": ("sign",), "bn_is_zero": ("used", "dp"), "bn_is_even": ("used", "dp"), "bn_bits": ("used", "dp"),
                 "bn_get_bit": ("used", "dp"), "bn_cmp_abs": ("used", "dp"), "bn_ham": ("used", "dp"), "bn_get_dig": ("dp",)}
COPY = re.compile(r"^(bn|fp\d*|fb\d*|dv|ep\d*|eb|ed)_copy(_sec|_cond)?$")
NO_WRITE = re.compile(r"^(bn_grow|bn_null|fp_null|fb_null|bn_new\w*|fp_new|fb_new|bn_make|bn_init|bn_free|fp_free|fb_free|bn_clean)$")


def handle_kind(fn, v):
    info = fn.vars[v]
    t = (info.get("ot") or info.get("t", "")).replace("const ", "")
    if re.match(r"^bn_t\b", t):
        return "struct", "bn_t"
    m = re.match(r"^(fp|fb|dv)_t\b", t)
    if m:
        return "vec", m.group(1) + "_t"
    m = re.match(r"^(fp\d+|fb\d+|dv\d+)_t\b", t)
    if m:
        return "tower", m.group(1) + "_t"
    # point structures (ep_t, eb_t, ed_t): only single points are handles (POINTS switch); arrays of points are
    # precomputation tables that no caller passes as the output - a survey with them produced some 250 reports in src/epx
    m = re.match(r"^(ep\d*|eb|ed)_t$", t.strip())
    if m and POINTS:
        return "point", m.group(1) + "_t"
    return None, None


def access(fn, e):
    """(base variable, field) of an lvalue / pointer expression; field None = the handle itself"""
    e0 = ir.strip_casts(fn.resolve(e))
    fld = None
    guard = 0
    while isinstance(e0, list) and e0 and guard < 30:
        guard += 1
        t = e0[0]
        if t == "m":
            if e0[2] in STRUCT_FIELDS or e0[2] in PT_FIELDS:
                fld = e0[2]
            e0 = ir.strip_casts(fn.resolve(e0[1]))
        elif t == "x":
            e0 = ir.strip_casts(fn.resolve(e0[1]))
        elif t == "u" and e0[1] in ("*", "&"):
            e0 = ir.strip_casts(fn.resolve(e0[2]))
        elif t == "b" and e0[1] in ("+", "-"):
            e0 = ir.strip_casts(fn.resolve(e0[2]))
        elif t == "k":
            e0 = e0[2]
        elif t == "v":
            return e0[1], fld
        else:
            return None, None
    return None, None


def component(fn, e):
    """path of constant subscripts of a tower element expression, outermost object first: a[1][0] -> (1, 0);
    a non-constant subscript ends the path with "*" (any component from there on); () is the whole element"""
    e0 = ir.strip_casts(fn.resolve(e))
    chain = []
    guard = 0
    while isinstance(e0, list) and e0 and guard < 30:
        guard += 1
        if e0[0] == "x":
            chain.append(ir.peel(fn, e0[2]))
            e0 = ir.strip_casts(fn.resolve(e0[1]))
        elif e0[0] == "k":
            e0 = e0[2]
        elif e0[0] == "u" and e0[1] in ("*", "&"):
            e0 = ir.strip_casts(fn.resolve(e0[2]))
        elif e0[0] == "v":
            break
        else:
            return ("*",)
    path = []
    for idx in reversed(chain):
        if isinstance(idx, list) and idx[0] == "i":
            path.append(idx[1])
        else:
            k = key(fn, idx)
            path.append(("s", k) if k is not None else "*")
    return tuple(path)


def overlap(p, q):
    """do two component paths designate overlapping storage?"""
    if not isinstance(p, tuple) or not isinstance(q, tuple):
        return p == q
    for a, b in zip(p, q):
        if a == "*" or b == "*":
            return True
        sa, sb = isinstance(a, tuple), isinstance(b, tuple)
        if sa and sb:
            if a[0] == "old" or b[0] == "old":
                return False        # an earlier value of a loop index: another element (monotone loops assumed)
            if a != b:
                return True         # two different index expressions may coincide
            continue                # the same index expression: the same element, look deeper
        if sa or sb:
            return True             # symbolic (or old) against a constant: may coincide
        if a != b:
            return False
    return True


def pointer_aliases(fn, params):
    """local pointer variables assigned (also through ?:) an expression based on a parameter: {local: parameter}"""
    out = {}
    for el in fn.all_elements():
        for sub in ir.walk(fn, el.e):
            if sub[0] == "d" and sub[2] is not None:
                v, rhs = sub[1], sub[2]
            elif sub[0] == "=" and isinstance(ir.strip_casts(sub[1]), list) and ir.strip_casts(sub[1])[0] == "v":
                v, rhs = ir.strip_casts(sub[1])[1], sub[2]
            else:
                continue
            if fn.vars[v]["k"] == "p" or fn.vars[v].get("pc") is None:
                continue        # not a pointer-typed local
            cands = []
            r = ir.peel(fn, rhs)
            if isinstance(r, list) and r and r[0] == "?" and len(r) == 4:
                cands = [r[2], r[3]]
            else:
                cands = [rhs]
            for c in cands:
                b = ir.base_var(fn, c)
                if b in params and b != v:
                    out.setdefault(v, b)
    return out


def node_effects(prog, fn, e, outs, ins):
    """(reads {(var, field)}, writes {(var, field)}, copies {(dst var, src var)}) of one CFG element"""
    reads, writes, copies = set(), set(), set()
    kinds = {v: handle_kind(fn, v)[0] for v in set(outs) | set(ins)}
    pal = getattr(fn, "_ptr_alias", None)
    if pal is None:
        pal = pointer_aliases(fn, set(outs) | set(ins))
        fn._ptr_alias = pal
    _access = globals()["access"]

    def access(fn_, ex):        # local view that sees through pointer aliases of the parameters
        v, fld = _access(fn_, ex)
        return pal.get(v, v), fld

    def rd(v, fld, expr=None):
        if v in ins:
            if kinds[v] == "vec":
                reads.add((v, "*"))
            elif kinds[v] == "tower":
                reads.add((v, component(fn, expr) if expr is not None else ("*",)))
            elif fld is not None:
                reads.add((v, fld))

    def wr(v, fld, allf=False, expr=None):
        if v in outs:
            if kinds[v] == "vec":
                writes.add((v, "*"))
            elif kinds[v] == "tower":
                writes.add((v, component(fn, expr) if expr is not None else ("*",)))
            elif allf:
                for f in (PT_FIELDS if kinds[v] == "point" else STRUCT_FIELDS):
                    writes.add((v, f))
            elif fld is not None:
                writes.add((v, fld))
    lhs_nodes = set()
    for sub in ir.walk(fn, e):
        if sub[0] in ("=", "o=") or (sub[0] == "u" and ("++" in sub[1] or "--" in sub[1])):
            lhs = sub[1] if sub[0] == "=" else sub[2]
            v, fld = access(fn, lhs)
            if v is not None:
                wr(v, fld, expr=lhs)
                lhs_nodes.add(id(ir.strip_casts(fn.resolve(lhs))))
                if sub[0] != "=":
                    rd(v, fld, expr=lhs)
                elif fld is not None:
                    # X->f = Y->f keeps the value when X is Y: recorded like a copy, for this field
                    r = ir.strip_casts(fn.resolve(sub[2]))
                    if isinstance(r, list) and r and r[0] == "m":
                        sv, sf = access(fn, r)
                        if sv is not None and sf == fld:
                            copies.add((v, sv, fld))
        elif sub[0] == "c" and sub[1]:
            name = sub[1]
            if NO_WRITE.match(name):
                # capacity changes and life-cycle calls give the object no new value; their other arguments are reads
                for a in sub[2][1:]:
                    for m in ir.walk(fn, a):
                        if m[0] == "m":
                            v, fld = access(fn, m)
                            if v is not None:
                                rd(v, fld)
                continue
            if COPY.match(name) and len(sub[2]) >= 2:
                d, _ = access(fn, sub[2][0])
                s, _ = access(fn, sub[2][1])
                if d is not None and s is not None:
                    copies.add((d, s))
            for i, a in enumerate(sub[2]):
                if not ir.arg_is_pointer(sub, i):
                    continue
                v, fld = access(fn, a)
                if v is None:
                    continue
                w = engines.callee_writes_arg(prog, fn, name, i)
                if w:
                    if fld is None:
                        wr(v, None, allf=True, expr=a)
                    else:
                        wr(v, fld, expr=a)
                # reads: digit vectors handed to anything; struct handles through ->dp, or whole to a public operation
                if kinds.get(v) == "tower":
                    if not w or True:
                        rd(v, None, expr=a)
                elif kinds.get(v) == "vec":
                    rd(v, "*")
                elif fld == "dp":
                    rd(v, "dp")
                elif kinds.get(v) == "point":
                    if fld is not None:
                        rd(v, fld)
                    elif not w and v in ins:
                        callee = prog.get(name, near=fn)
                        if callee is None or not callee.static:
                            for f in PT_FIELDS:
                                rd(v, f)
                elif fld is None and not w and v in ins and re.match(r"^bn_\w+$", name) and not name.endswith(("_imp", "_low")):
                    callee = prog.get(name, near=fn)
                    lib = getattr(prog, "library", None)
                    if callee is None and lib is not None:
                        callee = lib.get(name)
                    if callee is None or not callee.static:
                        for f in READER_FIELDS.get(name, STRUCT_FIELDS):
                            rd(v, f)
    # member reads anywhere in the element (conditions, right-hand sides, arguments)
    for sub in ir.walk(fn, e):
        if sub[0] == "m" and (sub[2] in STRUCT_FIELDS or sub[2] in PT_FIELDS) and id(sub) not in lhs_nodes:
            v, fld = access(fn, sub)
            if v is not None and fld != "dp":
                rd(v, fld)
        elif sub[0] == "x":
            v, fld = access(fn, sub)
            if v is not None and id(sub) not in lhs_nodes and kinds.get(v) != "tower":
                rd(v, fld if fld else None)
    return reads, writes, copies


def hazards(ctx, prog, fn):
    """[(out var, in var, field, line of the read, line of the earlier write, reading callee or 'expression')]"""
    outs, ins = [], []
    pw = engines.param_writes(prog).get(fn)
    if pw is None and getattr(prog, "library", None) is not None:
        pw = engines.param_writes(prog).get(fn, set())
    for i, v in enumerate(fn.params):
        k, t = handle_kind(fn, v)
        if k is None:
            continue
        info = fn.vars[v]
        is_const = info.get("pc") == 1 or (info.get("ot") or "").startswith("const")
        # a parameter that is not declared const but through which the function never stores is an input all the same
        if not is_const and pw is not None and i not in pw:
            is_const = True
        (ins if is_const else outs).append(v)
    pairs = [(x, y) for x in outs for y in ins if handle_kind(fn, x)[1] == handle_kind(fn, y)[1]]
    # an output may also alias another *output*-typed input (in/out parameters are both)
    if not pairs:
        return [], 0
    g = ctx.xcfg(prog, fn)
    eff = {}
    for nd in g.nodes:
        if nd.kind == "el" and not nd.proto:
            eff[nd.id] = node_effects(prog, fn, nd.el.e, outs, ins)
    found = None
    for follow, assign in engines.condition_worlds(g):
        found_w = []
        for x, y in pairs:
            # forward may-analysis: fields of x written so far (with respect to y)
            state = {g.entry.id: frozenset()}
            work = [g.entry]
            first_write = {}
            while work:
                nd = work.pop()
                st = state[nd.id]
                out = st
                if nd.id in eff:
                    reads, writes, copies = eff[nd.id]
                    for (v, f) in reads:
                        if v == y and (f in st or (isinstance(f, tuple) and any(overlap(f, w) for w in st))):
                            calls = [c[1] for c in ir.calls_in(fn, nd.el.e) if c[1]]
                            found_w.append((x, y, f, nd.line(), first_write.get(f), calls[-1] if calls else "expression"))
                    if (x, y) not in copies:
                        new = frozenset(f for (v, f) in writes if v == x and (x, y, f) not in copies)
                        for f in new:
                            first_write.setdefault(f, nd.line())
                        out = st | new
                    # a loop index that changes: paths through it now name an element of an earlier iteration
                    wv = engines.written_vars(prog, fn, nd.el.e)
                    if wv and any(isinstance(f, tuple) for f in out):
                        ren = set()
                        for f in out:
                            if isinstance(f, tuple) and any(isinstance(c, tuple) and c[0] == "s" and (engines.key_vars(c[1]) & wv) for c in f):
                                f = tuple(("old",) if (isinstance(c, tuple) and c[0] == "s" and (engines.key_vars(c[1]) & wv)) else c for c in f)
                            ren.add(f)
                        out = frozenset(ren)
                if nd.kind in ("throw",):
                    continue
                for s, l in nd.succ:
                    if follow is not None and not follow(nd, s, l):
                        continue
                    old = state.get(s.id)
                    new = out if old is None else (old | out)
                    if new != old:
                        state[s.id] = new
                        work.append(s)
        # a hazard counts if it exists in some world of the configuration queries (each world is a real configuration)
        found = found_w if found is None else found + found_w
    found = found or []
    # de-duplicate by (x, y, field, read line)
    seen = set()
    res = []
    for h in found:
        k = h[:4]
        if k not in seen:
            seen.add(k)
            res.append(h)
    return res, len(pairs)


def rule(ctx, prog, chk, in_scope, exceptions, prefix_ok=("selftest",), points=False):
    """ALIAS-RW over the functions selected by in_scope(fn); exceptions: {(function, out, in, field, reader): reason}"""
    global POINTS
    n = 0
    used = set()
    saved = POINTS
    POINTS = points
    try:
        return _rule(ctx, prog, chk, in_scope, exceptions, n, used)
    finally:
        POINTS = saved


def _rule(ctx, prog, chk, in_scope, exceptions, n, used):
    for fn in prog.all:
        if not (in_scope(fn) or "selftest" in fn.file):
            continue
        hs, npairs = hazards(ctx, prog, fn)
        n += npairs
        base = fn.name.split("__")[-1]
        flagged = set()
        # a static helper's aliasing contract is what its callers do: a pair counts only if some call site in the unit
        # hands the same object in at both positions
        aliased_pairs = None
        if fn.static and hs:
            aliased_pairs = set()
            px = {v: i for i, v in enumerate(fn.params)}
            for caller in prog.by_unit(fn.unit_src):
                for el in caller.all_elements():
                    for c in ir.calls_in(caller, el.e):
                        if c[1] != fn.name:
                            continue
                        for (x, y, f, rl, wl, reader) in hs:
                            i, j = px.get(x), px.get(y)
                            if i is None or j is None or i >= len(c[2]) or j >= len(c[2]):
                                continue
                            bi, bj = ir.base_var(caller, c[2][i]), ir.base_var(caller, c[2][j])
                            if bi is not None and bi == bj:
                                aliased_pairs.add((x, y))
                            elif bi is not None and bj is not None and bi in caller.params and bj in caller.params \
                                    and handle_kind(caller, bi)[1] is not None and handle_kind(caller, bi)[1] == handle_kind(caller, bj)[1]:
                                aliased_pairs.add((x, y))      # the caller's own parameters may be the same object
        for (x, y, f, rl, wl, reader) in hs:
            if aliased_pairs is not None and (x, y) not in aliased_pairs:
                continue
            k = None
            for ek in exceptions:
                if ek[:3] == (base, fn.vars[x]["n"], fn.vars[y]["n"]) and (ek[3] == f or ek[3] == "*") and reader.startswith(ek[4]):
                    k = ek
            if k is not None:
                used.add(k)
                continue
            fs = "".join("[%s]" % ("i" if isinstance(c, tuple) else c) for c in f) if isinstance(f, tuple) else str(f)
            obj = "%s<-%s.%s@%s" % (fn.vars[x]["n"], fn.vars[y]["n"], fs or "whole", reader)
            if obj in flagged:
                continue
            flagged.add(obj)
            chk.fail("ALIAS-RW", fn, obj, "`%s` (%s) is read at line %s after `%s` was written at line %s: when the output object is that input, the read sees the new value" % (
                fn.vars[y]["n"], "digits" if f in ("dp", "*") else ("component " + (fs or "whole") if isinstance(f, tuple) else "->" + f), rl, fn.vars[x]["n"], wl), line=rl)
        if npairs and not flagged:
            chk.ok("ALIAS-RW", fn, "pairs", "%d output/input pair(s) of the same type: no input is read in a later statement than a write of the output" % npairs, line=fn.line)
    return n, used


# ---------------------------------------------------------------------- OUT-RBW
POINT_FIELDS = ("x", "y", "z", "t", "coord")


def rule_out_rbw(ctx, prog, chk, in_scope, type_re, fields=POINT_FIELDS, exceptions=None, out_def=None):
    """OUT-RBW: in a function with an output structure X and an input structure of the same type, no field of X is read
    before that field of X was written on every path to the read (must-definition analysis): when output and input are
    different objects the output holds unspecified data, so such a read is a slip for the input's field"""
    import collections
    n = 0
    for fn in prog.all:
        if not (in_scope(fn) or "selftest" in fn.file):
            continue

        def tname(v):
            t = (fn.vars[v].get("ot") or fn.vars[v].get("t", ""))
            m = type_re.match(t.replace("const ", ""))
            return m.group(0) if m else None

        def is_const(v):
            return fn.vars[v].get("pc") == 1 or (fn.vars[v].get("ot") or "").startswith("const")
        outs = [v for v in fn.params if tname(v) and not is_const(v)]
        ins = [v for v in fn.params if tname(v) and is_const(v)]
        def is_arr(v):
            t = fn.vars[v].get("ot") or fn.vars[v].get("t", "")
            return "*" in t or "[" in t
        pairs = [(x, y) for x in outs for y in ins if tname(x).split()[0] == tname(y).split()[0] and (not is_arr(x) or is_arr(y))]
        if not pairs:
            continue
        g = ctx.xcfg(prog, fn)

        def is_obj(e, X):
            """the output object itself: X, or an element X[i] of an array of outputs"""
            a = ir.strip_casts(fn.resolve(e))
            guard = 0
            while isinstance(a, list) and a and a[0] == "x" and guard < 6:
                guard += 1
                a = ir.strip_casts(fn.resolve(a[1]))
            return a == ["v", X]

        def field_of(e, X):
            """(field, m-node) if the expression designates (a component of) a field of X (or of an element of X)"""
            a = ir.strip_casts(fn.resolve(e))
            guard = 0
            while isinstance(a, list) and a and a[0] in ("x", "u") and guard < 10:
                guard += 1
                if a[0] == "u" and a[1] not in ("*", "&"):
                    break
                a = ir.strip_casts(fn.resolve(a[1] if a[0] == "x" else a[2]))
            if isinstance(a, list) and a and a[0] == "m" and a[2] in fields and is_obj(a[1], X):
                return a[2], a
            return None, None

        # fields that exist under this configuration (the extended coordinate t of Edwards points, say, may not)
        fields_live = set(sub[2] for el in fn.all_elements() for sub in ir.walk(fn, el.e) if sub[0] == "m" and sub[2] in fields) | {"x", "y", "z", "coord"}
        fields_live &= set(fields)

        def eff(e, X):
            reads, writes, lhs, whole = set(), set(), set(), set()
            for sub in ir.walk(fn, e):
                if sub[0] in ("=", "o="):
                    f, m = field_of(sub[1] if sub[0] == "=" else sub[2], X)
                    if f is not None:
                        writes.add(f)
                        if sub[0] == "=":
                            lhs.add(id(m))
                elif sub[0] == "c" and sub[1]:
                    for i, a in enumerate(sub[2]):
                        f, m = field_of(a, X)
                        aa = ir.strip_casts(fn.resolve(a))
                        if f is not None:
                            if ir.arg_is_pointer(sub, i) and engines.callee_writes_arg(prog, fn, sub[1], i):
                                writes.add(f)
                                if re.search(r"_copy_sec$", sub[1]):
                                    lhs.add(id(m))      # masked select chain: the old value only survives where a later select replaces it
                                # the same field handed in at another position of the same call is a read
                                if not any(j != i and key(fn, b) == key(fn, a) for j, b in enumerate(sub[2])):
                                    lhs.add(id(m))
                        elif is_obj(a, X) and ir.arg_is_pointer(sub, i):
                            if engines.callee_writes_arg(prog, fn, sub[1], i):
                                writes.update(fields)
                                # the same object handed in at a const position of the same call is read whole
                                if any(j != i and is_obj(b, X) and not engines.callee_writes_arg(prog, fn, sub[1], j) for j, b in enumerate(sub[2])):
                                    whole.add(sub[1])
                            elif not re.search(r"_(null|new|free|is_infty|set_infty)$", sub[1]):
                                whole.add(sub[1])
            for sub in ir.walk(fn, e):
                if sub[0] == "m" and sub[2] in fields and is_obj(sub[1], X) and id(sub) not in lhs:
                    reads.add(sub[2])
            if whole:
                reads.update(fields_live)
            return reads, writes
        # edges of constant-trip loops that cannot be taken (for (m = 0; m < 8; ...) is entered at least once)
        PF = engines.Facts(prog, g, mark_thrown=True)

        def feasible(nd, label, succ):
            st0 = PF.IN.get(nd)
            if st0 is None:
                return False
            if st0 is engines.UNIVERSE:
                return True
            return PF._edge(nd, label, succ, PF._transfer(nd, st0)) is not engines.INFEASIBLE
        def at_least_once(nd):
            """a `for (v = c0; v < c1; ...)` head with constants c0 < c1"""
            t = nd.info.get("term") or {}
            if t.get("k") != "ForStmt" or t.get("c") is None:
                return False
            c = ir.peel(fn, t["c"])
            if not (isinstance(c, list) and c[0] == "b" and c[1] in ("<", "<=")):
                return False
            l, r = ir.strip_casts(fn.resolve(c[2])), ir.peel(fn, c[3])
            if not (isinstance(l, list) and l[0] == "v" and isinstance(r, list) and r[0] == "i"):
                return False
            for el in fn.all_elements():
                e = el.e
                init = None
                if e[0] == "d" and e[1] == l[1] and e[2] is not None:
                    init = ir.peel(fn, e[2])
                elif e[0] == "=" and ir.strip_casts(e[1]) == ["v", l[1]]:
                    init = ir.peel(fn, e[2])
                if init is not None:
                    if isinstance(init, list) and init[0] == "i" and (init[1] < r[1] or (c[1] == "<=" and init[1] == r[1])):
                        continue
                    # any other assignment of the index (besides the step, seen as ++) makes the claim unsafe
                    if not (isinstance(init, list) and init[0] == "b" and init[1] in ("+",) and ir.strip_casts(fn.resolve(init[2])) == ["v", l[1]]):
                        return False
            return True
        for X in sorted(set(x for x, _ in pairs)):
            arr = is_arr(X)
            # state: (fields written for the element currently designated - must; fields written for every element by a
            # completed loop iteration - promoted when the index changes, joined by union)
            # round-robin iteration, IN recomputed from the predecessors' OUT each round (the loop-exit promotion makes the
            # transfer non-monotone, so states are not accumulated with their own earlier values)
            cache = {}
            for nd in g.nodes:
                if nd.kind == "el" and not nd.proto:
                    cache[nd.id] = eff(nd.el.e, X)
            OUT = {}
            state = {}
            order = list(g.nodes)
            for rnd in range(12):
                changed = False
                for nd in order:
                    if nd is g.entry:
                        st_in = (frozenset(), frozenset(), frozenset())
                    else:
                        st_in = None
                        for p, l in nd.pred:
                            o = OUT.get((p.id, id(nd), l))
                            if o is None:
                                continue
                            st_in = o if st_in is None else (st_in[0] & o[0], st_in[1] | o[1], st_in[2] | o[2])
                        if st_in is None:
                            continue
                    if state.get(nd.id) != st_in:
                        state[nd.id] = st_in
                        changed = True
                    cur, allf, pend = st_in
                    if nd.id in cache:
                        cur = cur | frozenset(cache[nd.id][1])
                        wv = engines.written_vars(prog, fn, nd.el.e)
                        steps = any(fn.vars[v].get("c") in ("int", "unsigned long", "unsigned int", "long") and fn.vars[v]["k"] != "p" for v in wv)
                        if steps and not arr:
                            pend = pend | cur       # what the iteration wrote on every path (used only for loops known to run)
                        if steps and arr:
                            # an index steps on: what this iteration wrote on every path will hold for every element the
                            # loop visits - once the loop is left (elements ahead are not written yet)
                            pend = pend | cur
                            cur = frozenset()
                    same_on = None
                    if nd.kind == "br":
                        t = nd.info.get("term")
                        c = ir.peel(fn, t["c"]) if t and t.get("c") is not None else None
                        if isinstance(c, list) and c[0] == "b" and c[1] in ("==", "!="):
                            a, b = ir.strip_casts(fn.resolve(c[2])), ir.strip_casts(fn.resolve(c[3]))
                            if isinstance(a, list) and isinstance(b, list) and a[0] == "v" and b[0] == "v" and X in (a[1], b[1]) and (a[1] in ins or b[1] in ins):
                                same_on = "T" if c[1] == "==" else "F"      # the edge on which the output *is* the input
                    for s2, l in nd.succ:
                        if nd.kind == "br" and not feasible(nd, l, s2):
                            continue
                        c2 = cur | frozenset(fields) if (same_on is not None and l == same_on) else cur
                        a2, p2 = allf, pend
                        if nd.kind == "br" and l == "F" and (nd.info.get("term") or {}).get("k") in ("ForStmt", "WhileStmt", "DoStmt"):
                            if arr:
                                a2, p2 = allf | pend, frozenset()      # loop exit
                            elif at_least_once(nd):
                                c2 = c2 | pend                          # the body ran: what every iteration writes is written
                                p2 = frozenset()
                            else:
                                p2 = frozenset()
                        k2 = (nd.id, id(s2), l)
                        if OUT.get(k2) != (c2, a2, p2):
                            OUT[k2] = (c2, a2, p2)
                            changed = True
                if not changed:
                    break
            n += 1
            # OUT-DEF: fields still unwritten at a normal return (scalar outputs only)
            if out_def is not None and not arr:
                undef = {}
                for p0, l0 in g.exit.pred:
                    o = OUT.get((p0.id, id(g.exit), l0))
                    if o is None or p0.kind in ("throw", "raise", "noret"):
                        continue
                    # paths on which a throw has happened do not return a result
                    st0 = PF.IN.get(p0)
                    if st0 is None or st0 is engines.UNIVERSE or PF._transfer(p0, st0) is engines.UNIVERSE:
                        continue
                    for f in sorted(fields_live):
                        if f not in o[0]:
                            undef.setdefault(f, p0.line() or fn.line)
                out_def.append((fn, X, undef))
            bad = {}
            for nd in g.nodes:
                if nd.id in cache and nd.id in state:
                    r, w = cache[nd.id]
                    for f in r:
                        if f not in state[nd.id][0] and f not in state[nd.id][1]:
                            bad.setdefault(f, nd.line())
            nm = fn.vars[X]["n"]
            if bad and exceptions and (fn.name.split("__")[-1], nm) in exceptions:
                chk.ok("OUT-RBW", fn, nm, "reviewed: " + exceptions[(fn.name.split("__")[-1], nm)], line=fn.line)
                continue
            if bad:
                for f, line in sorted(bad.items()):
                    chk.fail("OUT-RBW", fn, "%s.%s" % (nm, f), "`%s->%s` is read at a point where it has not been written on every path: when `%s` is not the input object it holds unspecified data there (a slip for the input's field)" % (nm, f, nm), line=line)
            else:
                chk.ok("OUT-RBW", fn, nm, "no field of the output is read before it was written on every path", line=fn.line)
    return n
