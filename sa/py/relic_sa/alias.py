"""ALIAS-RW: read of an input object after a write to an output object that may be the same object.

For a function with an output parameter X and an input parameter Y of the same handle type (the library's contract
allows the output to be one of the inputs), a read of field F of Y *in a later statement than* a write of field F of X
sees the new value when X == Y.  Reads and writes inside one call are the callee's business (it is analysed under its
own parameters).  Writes that copy Y into X (X_copy(X, Y)) do not count for Y: under aliasing they change nothing.

Fields: for struct handles (bn_t) `used`, `sign`, `dp` (the digits); for digit-vector handles (fp_t, fb_t, dv_t) a
single pseudo-field `*`.  Only reads that are visible in the function itself are considered: Y->field, Y->dp[...] or
Y->dp handed to a callee, Y handed whole to a *public* bn_* operation at a const position (all fields, or the subset
tabulated for the simple readers), and - for digit vectors - Y handed to a callee's const parameter.  A struct handle
handed whole to a static helper is not counted as a read (the helper may read any subset, and its own first statement
is often the very copy that makes the alias harmless; it is analysed under its own parameters)."""
import re

from . import ir, engines
from .engines import key

STRUCT_FIELDS = ("used", "sign", "dp")
PT_FIELDS = ("x", "y", "z", "t", "coord")
# public operations that read (only) these fields of a struct handle given at a const position; any other public
# bn_* operation reads all fields of its const operands.  Static helpers are not counted (see the module comment).
READER_FIELDS = {"bn_sign": ("sign",), "bn_is_zero": ("used", "dp"), "bn_is_even": ("used", "dp"), "bn_bits": ("used", "dp"),
                 "bn_get_bit": ("used", "dp"), "bn_cmp_abs": ("used", "dp"), "bn_ham": ("used", "dp"), "bn_get_dig": ("dp",)}
COPY = re.compile(r"^(bn|fp\d*|fb\d*|dv|ep\d*|eb|ed)_copy(_sec|_cond)?$")
NO_WRITE = re.compile(r"^(bn_grow|bn_null|fp_null|fb_null|bn_new\w*|fp_new|fb_new|bn_make|bn_init|bn_free|fp_free|fb_free|bn_clean)$")


def handle_kind(fn, v):
    info = fn.vars[v]
    t = (info.get("ot") or info.get("t", "")).replace("const ", "")
    if re.match(r"^bn_t\b", t):
        return "struct", "bn_t"
    m = re.match(r"^(fp|fb|dv)_t\b", t)
    if m:
        return "vec", m.group(1) + "_t"
    m = re.match(r"^(fp\d+|fb\d+)_t\b", t)
    if m:
        return "tower", m.group(1) + "_t"
    # point structures (ep_t, eb_t, ed_t) are deliberately not handles of ALIAS-RW: a survey produced some 250 reports in
    # src/epx alone, almost all through precomputation tables (arrays of points) that no caller passes as the output;
    # the rule would not be exact there.  OUT-RBW below covers the output side of the point routines.
    return None, None


def access(fn, e):
    """(base variable, field) of an lvalue / pointer expression; field None = the handle itself"""
    e0 = ir.strip_casts(fn.resolve(e))
    fld = None
    guard = 0
    while isinstance(e0, list) and e0 and guard < 30:
        guard += 1
        t = e0[0]
        if t == "m":
            if e0[2] in STRUCT_FIELDS or e0[2] in PT_FIELDS:
                fld = e0[2]
            e0 = ir.strip_casts(fn.resolve(e0[1]))
        elif t == "x":
            e0 = ir.strip_casts(fn.resolve(e0[1]))
        elif t == "u" and e0[1] in ("*", "&"):
            e0 = ir.strip_casts(fn.resolve(e0[2]))
        elif t == "b" and e0[1] in ("+", "-"):
            e0 = ir.strip_casts(fn.resolve(e0[2]))
        elif t == "k":
            e0 = e0[2]
        elif t == "v":
            return e0[1], fld
        else:
            return None, None
    return None, None


def component(fn, e):
    """path of constant subscripts of a tower element expression, outermost object first: a[1][0] -> (1, 0);
    a non-constant subscript ends the path with "*" (any component from there on); () is the whole element"""
    e0 = ir.strip_casts(fn.resolve(e))
    chain = []
    guard = 0
    while isinstance(e0, list) and e0 and guard < 30:
        guard += 1
        if e0[0] == "x":
            chain.append(ir.peel(fn, e0[2]))
            e0 = ir.strip_casts(fn.resolve(e0[1]))
        elif e0[0] == "k":
            e0 = e0[2]
        elif e0[0] == "u" and e0[1] in ("*", "&"):
            e0 = ir.strip_casts(fn.resolve(e0[2]))
        elif e0[0] == "v":
            break
        else:
            return ("*",)
    path = []
    for idx in reversed(chain):
        if isinstance(idx, list) and idx[0] == "i":
            path.append(idx[1])
        else:
            k = key(fn, idx)
            path.append(("s", k) if k is not None else "*")
    return tuple(path)


def overlap(p, q):
    """do two component paths designate overlapping storage?"""
    if not isinstance(p, tuple) or not isinstance(q, tuple):
        return p == q
    for a, b in zip(p, q):
        if a == "*" or b == "*":
            return True
        sa, sb = isinstance(a, tuple), isinstance(b, tuple)
        if sa and sb:
            if a[0] == "old" or b[0] == "old":
                return False        # an earlier value of a loop index: another element (monotone loops assumed)
            if a != b:
                return True         # two different index expressions may coincide
            continue                # the same index expression: the same element, look deeper
        if sa or sb:
            return True             # symbolic (or old) against a constant: may coincide
        if a != b:
            return False
    return True


def node_effects(prog, fn, e, outs, ins):
    """(reads {(var, field)}, writes {(var, field)}, copies {(dst var, src var)}) of one CFG element"""
    reads, writes, copies = set(), set(), set()
    kinds = {v: handle_kind(fn, v)[0] for v in set(outs) | set(ins)}

    def rd(v, fld, expr=None):
        if v in ins:
            if kinds[v] == "vec":
                reads.add((v, "*"))
            elif kinds[v] == "tower":
                reads.add((v, component(fn, expr) if expr is not None else ("*",)))
            elif fld is not None:
                reads.add((v, fld))

    def wr(v, fld, allf=False, expr=None):
        if v in outs:
            if kinds[v] == "vec":
                writes.add((v, "*"))
            elif kinds[v] == "tower":
                writes.add((v, component(fn, expr) if expr is not None else ("*",)))
            elif allf:
                for f in (PT_FIELDS if kinds[v] == "point" else STRUCT_FIELDS):
                    writes.add((v, f))
            elif fld is not None:
                writes.add((v, fld))
    lhs_nodes = set()
    for sub in ir.walk(fn, e):
        if sub[0] in ("=", "o=") or (sub[0] == "u" and ("++" in sub[1] or "--" in sub[1])):
            lhs = sub[1] if sub[0] == "=" else sub[2]
            v, fld = access(fn, lhs)
            if v is not None:
                wr(v, fld, expr=lhs)
                lhs_nodes.add(id(ir.strip_casts(fn.resolve(lhs))))
                if sub[0] != "=":
                    rd(v, fld, expr=lhs)
                elif fld is not None:
                    # X->f = Y->f keeps the value when X is Y: recorded like a copy, for this field
                    r = ir.strip_casts(fn.resolve(sub[2]))
                    if isinstance(r, list) and r and r[0] == "m":
                        sv, sf = access(fn, r)
                        if sv is not None and sf == fld:
                            copies.add((v, sv, fld))
        elif sub[0] == "c" and sub[1]:
            name = sub[1]
            if NO_WRITE.match(name):
                # capacity changes and life-cycle calls give the object no new value; their other arguments are reads
                for a in sub[2][1:]:
                    for m in ir.walk(fn, a):
                        if m[0] == "m":
                            v, fld = access(fn, m)
                            if v is not None:
                                rd(v, fld)
                continue
            if COPY.match(name) and len(sub[2]) >= 2:
                d, _ = access(fn, sub[2][0])
                s, _ = access(fn, sub[2][1])
                if d is not None and s is not None:
                    copies.add((d, s))
            for i, a in enumerate(sub[2]):
                if not ir.arg_is_pointer(sub, i):
                    continue
                v, fld = access(fn, a)
                if v is None:
                    continue
                w = engines.callee_writes_arg(prog, fn, name, i)
                if w:
                    if fld is None:
                        wr(v, None, allf=True, expr=a)
                    else:
                        wr(v, fld, expr=a)
                # reads: digit vectors handed to anything; struct handles through ->dp, or whole to a public operation
                if kinds.get(v) == "tower":
                    if not w or True:
                        rd(v, None, expr=a)
                elif kinds.get(v) == "vec":
                    rd(v, "*")
                elif fld == "dp":
                    rd(v, "dp")
                elif kinds.get(v) == "point":
                    if fld is not None:
                        rd(v, fld)
                    elif not w and v in ins:
                        callee = prog.get(name, near=fn)
                        if callee is None or not callee.static:
                            for f in PT_FIELDS:
                                rd(v, f)
                elif fld is None and not w and v in ins and re.match(r"^bn_\w+$", name) and not name.endswith(("_imp", "_low")):
                    callee = prog.get(name, near=fn)
                    lib = getattr(prog, "library", None)
                    if callee is None and lib is not None:
                        callee = lib.get(name)
                    if callee is None or not callee.static:
                        for f in READER_FIELDS.get(name, STRUCT_FIELDS):
                            rd(v, f)
    # member reads anywhere in the element (conditions, right-hand sides, arguments)
    for sub in ir.walk(fn, e):
        if sub[0] == "m" and (sub[2] in STRUCT_FIELDS or sub[2] in PT_FIELDS) and id(sub) not in lhs_nodes:
            v, fld = access(fn, sub)
            if v is not None and fld != "dp":
                rd(v, fld)
        elif sub[0] == "x":
            v, fld = access(fn, sub)
            if v is not None and id(sub) not in lhs_nodes and kinds.get(v) != "tower":
                rd(v, fld if fld else None)
    return reads, writes, copies


def hazards(ctx, prog, fn):
    """[(out var, in var, field, line of the read, line of the earlier write, reading callee or 'expression')]"""
    outs, ins = [], []
    for v in fn.params:
        k, t = handle_kind(fn, v)
        if k is None:
            continue
        info = fn.vars[v]
        is_const = info.get("pc") == 1 or (info.get("ot") or "").startswith("const")
        (ins if is_const else outs).append(v)
    pairs = [(x, y) for x in outs for y in ins if handle_kind(fn, x)[1] == handle_kind(fn, y)[1]]
    # an output may also alias another *output*-typed input (in/out parameters are both)
    if not pairs:
        return [], 0
    g = ctx.xcfg(prog, fn)
    eff = {}
    for nd in g.nodes:
        if nd.kind == "el" and not nd.proto:
            eff[nd.id] = node_effects(prog, fn, nd.el.e, outs, ins)
    found = []
    for x, y in pairs:
        # forward may-analysis: fields of x written so far (with respect to y)
        state = {g.entry.id: frozenset()}
        work = [g.entry]
        first_write = {}
        while work:
            nd = work.pop()
            st = state[nd.id]
            out = st
            if nd.id in eff:
                reads, writes, copies = eff[nd.id]
                for (v, f) in reads:
                    if v == y and (f in st or (isinstance(f, tuple) and any(overlap(f, w) for w in st))):
                        calls = [c[1] for c in ir.calls_in(fn, nd.el.e) if c[1]]
                        found.append((x, y, f, nd.line(), first_write.get(f), calls[-1] if calls else "expression"))
                if (x, y) not in copies:
                    new = frozenset(f for (v, f) in writes if v == x and (x, y, f) not in copies)
                    for f in new:
                        first_write.setdefault(f, nd.line())
                    out = st | new
                # a loop index that changes: paths through it now name an element of an earlier iteration
                wv = engines.written_vars(prog, fn, nd.el.e)
                if wv and any(isinstance(f, tuple) for f in out):
                    ren = set()
                    for f in out:
                        if isinstance(f, tuple) and any(isinstance(c, tuple) and c[0] == "s" and (engines.key_vars(c[1]) & wv) for c in f):
                            f = tuple(("old",) if (isinstance(c, tuple) and c[0] == "s" and (engines.key_vars(c[1]) & wv)) else c for c in f)
                        ren.add(f)
                    out = frozenset(ren)
            if nd.kind in ("throw",):
                continue
            for s, l in nd.succ:
                old = state.get(s.id)
                new = out if old is None else (old | out)
                if new != old:
                    state[s.id] = new
                    work.append(s)
    # de-duplicate by (x, y, field, read line)
    seen = set()
    res = []
    for h in found:
        k = h[:4]
        if k not in seen:
            seen.add(k)
            res.append(h)
    return res, len(pairs)


def rule(ctx, prog, chk, in_scope, exceptions, prefix_ok=("selftest",)):
    """ALIAS-RW over the functions selected by in_scope(fn); exceptions: {(function, out, in, field, reader): reason}"""
    n = 0
    used = set()
    for fn in prog.all:
        if not (in_scope(fn) or "selftest" in fn.file):
            continue
        hs, npairs = hazards(ctx, prog, fn)
        n += npairs
        base = fn.name.split("__")[-1]
        flagged = set()
        for (x, y, f, rl, wl, reader) in hs:
            k = None
            for ek in exceptions:
                if ek[:4] == (base, fn.vars[x]["n"], fn.vars[y]["n"], f) and reader.startswith(ek[4]):
                    k = ek
            if k is not None:
                used.add(k)
                continue
            fs = "".join("[%s]" % ("i" if isinstance(c, tuple) else c) for c in f) if isinstance(f, tuple) else str(f)
            obj = "%s<-%s.%s@%s" % (fn.vars[x]["n"], fn.vars[y]["n"], fs or "whole", reader)
            if obj in flagged:
                continue
            flagged.add(obj)
            chk.fail("ALIAS-RW", fn, obj, "`%s` (%s) is read at line %s after `%s` was written at line %s: when the output object is that input, the read sees the new value" % (
                fn.vars[y]["n"], "digits" if f in ("dp", "*") else ("component " + (fs or "whole") if isinstance(f, tuple) else "->" + f), rl, fn.vars[x]["n"], wl), line=rl)
        if npairs and not flagged:
            chk.ok("ALIAS-RW", fn, "pairs", "%d output/input pair(s) of the same type: no input is read in a later statement than a write of the output" % npairs, line=fn.line)
    return n, used


# ---------------------------------------------------------------------- OUT-RBW
POINT_FIELDS = ("x", "y", "z", "t", "coord")


def rule_out_rbw(ctx, prog, chk, in_scope, type_re, fields=POINT_FIELDS):
    """OUT-RBW: in a function with an output structure X and an input structure of the same type, no field of X is read
    before that field of X was written on every path to the read (must-definition analysis): when output and input are
    different objects the output holds unspecified data, so such a read is a slip for the input's field"""
    import collections
    n = 0
    for fn in prog.all:
        if not (in_scope(fn) or "selftest" in fn.file):
            continue

        def tname(v):
            t = (fn.vars[v].get("ot") or fn.vars[v].get("t", ""))
            m = type_re.match(t.replace("const ", ""))
            return m.group(0) if m else None

        def is_const(v):
            return fn.vars[v].get("pc") == 1 or (fn.vars[v].get("ot") or "").startswith("const")
        outs = [v for v in fn.params if tname(v) and not is_const(v)]
        ins = [v for v in fn.params if tname(v) and is_const(v)]
        pairs = [(x, y) for x in outs for y in ins if tname(x) == tname(y)]
        if not pairs:
            continue
        g = ctx.xcfg(prog, fn)

        def field_of(e, X):
            """(field, m-node) if the expression designates (a component of) a field of X"""
            a = ir.strip_casts(fn.resolve(e))
            guard = 0
            while isinstance(a, list) and a and a[0] in ("x", "u") and guard < 10:
                guard += 1
                if a[0] == "u" and a[1] not in ("*", "&"):
                    break
                a = ir.strip_casts(fn.resolve(a[1] if a[0] == "x" else a[2]))
            if isinstance(a, list) and a and a[0] == "m" and a[2] in fields and ir.strip_casts(fn.resolve(a[1])) == ["v", X]:
                return a[2], a
            return None, None

        def eff(e, X):
            reads, writes, lhs = set(), set(), set()
            for sub in ir.walk(fn, e):
                if sub[0] in ("=", "o="):
                    f, m = field_of(sub[1] if sub[0] == "=" else sub[2], X)
                    if f is not None:
                        writes.add(f)
                        if sub[0] == "=":
                            lhs.add(id(m))
                elif sub[0] == "c" and sub[1]:
                    for i, a in enumerate(sub[2]):
                        f, m = field_of(a, X)
                        aa = ir.strip_casts(fn.resolve(a))
                        if f is not None:
                            if ir.arg_is_pointer(sub, i) and engines.callee_writes_arg(prog, fn, sub[1], i):
                                writes.add(f)
                                # the same field handed in at another position of the same call is a read
                                if not any(j != i and key(fn, b) == key(fn, a) for j, b in enumerate(sub[2])):
                                    lhs.add(id(m))
                        elif aa == ["v", X] and ir.arg_is_pointer(sub, i) and engines.callee_writes_arg(prog, fn, sub[1], i):
                            writes.update(fields)
            for sub in ir.walk(fn, e):
                if sub[0] == "m" and sub[2] in fields and ir.strip_casts(fn.resolve(sub[1])) == ["v", X] and id(sub) not in lhs:
                    reads.add(sub[2])
            return reads, writes
        for X in sorted(set(x for x, _ in pairs)):
            state = {g.entry.id: frozenset()}
            work = collections.deque([g.entry])
            cache = {}
            while work:
                nd = work.popleft()
                st = state[nd.id]
                out = st
                if nd.kind == "el" and not nd.proto:
                    cache[nd.id] = eff(nd.el.e, X)
                    out = st | frozenset(cache[nd.id][1])
                same_on = None
                if nd.kind == "br":
                    t = nd.info.get("term")
                    c = ir.peel(fn, t["c"]) if t and t.get("c") is not None else None
                    if isinstance(c, list) and c[0] == "b" and c[1] in ("==", "!="):
                        a, b = ir.strip_casts(fn.resolve(c[2])), ir.strip_casts(fn.resolve(c[3]))
                        if isinstance(a, list) and isinstance(b, list) and a[0] == "v" and b[0] == "v" and X in (a[1], b[1]) and (a[1] in ins or b[1] in ins):
                            same_on = "T" if c[1] == "==" else "F"      # the edge on which the output *is* the input
                for s, l in nd.succ:
                    o2 = out | frozenset(fields) if (same_on is not None and l == same_on) else out
                    old = state.get(s.id)
                    new = o2 if old is None else (old & o2)
                    if new != old:
                        state[s.id] = new
                        work.append(s)
            n += 1
            bad = {}
            for nd in g.nodes:
                if nd.id in cache and nd.id in state:
                    r, w = cache[nd.id]
                    for f in r:
                        if f not in state[nd.id]:
                            bad.setdefault(f, nd.line())
            nm = fn.vars[X]["n"]
            if bad:
                for f, line in sorted(bad.items()):
                    chk.fail("OUT-RBW", fn, "%s.%s" % (nm, f), "`%s->%s` is read at a point where it has not been written on every path: when `%s` is not the input object it holds unspecified data there (a slip for the input's field)" % (nm, f, nm), line=line)
            else:
                chk.ok("OUT-RBW", fn, nm, "no field of the output is read before it was written on every path", line=fn.line)
    return n
