"""Self-tests: every run first analyses the miniature programs of the rule
module (sa/selftest/<pid>*.c).  Functions named bad_<rule>__<what> must make
exactly that rule fail; functions named ok_<what> must make no rule fail.  A
rule that misses its positive example or fires on a negative one means the
analysis is broken (exit 2), never a pass."""
import glob
import os
import re

from . import facts, ir
from .facts import AnalysisBroken, VERIF
from .report import Check


def norm(rule):
    return re.sub(r"[^a-z0-9]+", "_", rule.lower()).strip("_")


def run(ctx, chk, mod):
    if not hasattr(mod, "selfcheck"):
        return
    pid = chk.pid
    files = sorted(glob.glob(os.path.join(VERIF, "sa", "selftest", pid.lower() + "*.c")))
    if not files:
        raise AnalysisBroken("no self-test source for " + pid)
    n_pos = n_neg = 0
    deferred = []
    cfgs = getattr(mod, "SELFTEST_CONFIGS", ["BASE"])
    for cfg in cfgs:
        base = ctx.program(cfg)
        data = facts.extract_files(pid + "-" + cfg, files, base.data)
        prog = ir.Program(data)
        # library functions the miniatures call are resolved in the real program
        prog.library = base
        dummy = Check(pid, "selftest", "")
        dummy.known = {}
        mod.selfcheck(ctx, prog, dummy)
        failed = {}
        for r in dummy.violations:
            failed.setdefault(r["function"], set()).add(norm(r["rule"]))
        class _N:
            pass
        names = [fn for fn in prog.all if "selftest" in fn.file]
        for gv in prog.globals:
            if "selftest" in gv["file"] and gv.get("def"):
                o = _N()
                o.name = gv["n"]
                names.append(o)
        for fn in names:
            m = re.match(r"bad_([a-z0-9_]+?)__", fn.name)
            if m:
                m2 = re.search(r"_only_([a-z0-9]+)$", fn.name)
                want_cfg = m2.group(1).upper() if m2 else cfgs[0]
                if want_cfg != cfg:
                    continue
                n_pos += 1
                want = m.group(1)
                got = failed.get(fn.name, set())
                if want not in got:
                    raise AnalysisBroken("self-test: rule %s did not fire on its positive example %s (config %s; fired: %s)"
                                         % (want, fn.name, cfg, sorted(got)))
            elif fn.name.startswith("ok_"):
                n_neg += 1
                if fn.name in failed:
                    msgs = [r["message"] for r in dummy.violations if r["function"] == fn.name]
                    macro_rules = set(norm(r) for r in getattr(mod, "MACRO_RULES", ()))
                    if failed[fn.name] <= macro_rules:
                        # the miniature uses /repo's own protocol macros: if they were edited the conforming
                        # example legitimately fails.  Decided after the real analysis: the same rule must
                        # then fail in the library too (a violation), otherwise the analysis is broken.
                        for r in failed[fn.name]:
                            deferred.append((r, fn.name, msgs[:1]))
                        continue
                    raise AnalysisBroken("self-test: rule(s) %s fired on the conforming example %s (config %s): %s"
                                         % (sorted(failed[fn.name]), fn.name, cfg, msgs[:2]))
            elif fn.name in failed:
                raise AnalysisBroken("self-test: unexpected failure in helper %s: %s" % (fn.name, sorted(failed[fn.name])))
    chk.note("self-tests: %d violating and %d conforming miniatures analysed first; every rule fired exactly where expected" % (n_pos, n_neg))
    chk.selftests = (n_pos, n_neg)
    return deferred


def settle(chk, deferred):
    """after the real analysis: a conforming miniature may only have failed a
    macro-level rule if the library fails the same rule"""
    real = set(norm(r["rule"]) for r in chk.violations) | set(norm(r["rule"]) for r in chk.known_hits)
    for rule, fname, msgs in deferred:
        if rule not in real:
            raise AnalysisBroken("self-test: rule %s fired on the conforming example %s (%s) but nowhere in the library" % (rule, fname, msgs))
    if deferred:
        chk.note("conforming miniatures %s failed macro-level rule(s) %s together with the library: the protocol macros themselves violate the rule" % (
            sorted(set(f for _, f, _ in deferred)), sorted(set(r for r, _, _ in deferred))))
