"""CONSTEVAL: an interpreter for the straight-line constant-building code of the
parameter tables (switch cases of fp_param_set, fp_prime_set_pairf, ep_param_set,
eb_param_set, ed_param_set, ep2_curve_set_twist, ...).  Values are Python integers
and strings; anything the interpreter does not model raises Unsupported — a
parameter set is never silently skipped."""
from . import ir


class Unsupported(Exception):
    pass


class Stop(Exception):
    pass


def case_blocks(fn, param_name=None):
    """[(label value, label name, block id)] of the switch over the first parameter (or `param_name`)"""
    out = []
    for b in fn.blocks.values():
        t = b.term
        if not t or t["k"] != "SwitchStmt" or t.get("c") is None:
            continue
        c = ir.peel(fn, t["c"])
        if not (isinstance(c, list) and c[0] == "v" and fn.vars[c[1]]["k"] == "p"):
            continue
        if param_name and fn.vars[c[1]]["n"] != param_name:
            continue
        for s in b.succ:
            if s is None:
                continue
            lab = fn.blocks[s].label
            if lab and lab[0] == "case":
                v = lab[1]
                out.append((v[1], v[2] if len(v) > 2 else str(v[1]), s))
    return out


class Interp:
    def __init__(self, fn, env=None, on_call=None):
        self.fn = fn
        self.env = dict(env or {})
        self.on_call = on_call      # callback(name, args(list of evaluated / path strings), interp) -> True if handled
        self.log = []

    # ------------------------------------------------------------ values
    def path(self, e):
        e = ir.peel(self.fn, e)
        return self.fn.fmt(e).replace(" ", "")

    def ev(self, e):
        fn = self.fn
        e = ir.peel(fn, e)
        if not isinstance(e, list) or not e:
            raise Unsupported("empty expression")
        t = e[0]
        if t == "i":
            return int(e[1])
        if t == "s":
            return e[1]
        if t == "v":
            n = fn.vars[e[1]]["n"]
            if n in self.env:
                return self.env[n]
            raise Unsupported("value of variable %s is not known" % n)
        if t == "u" and e[1] == "-":
            return -self.ev(e[2])
        if t == "u" and e[1] == "!":
            return 0 if self.ev(e[2]) else 1
        if t == "b" and e[1] in ("+", "-", "*", "<<", ">>", "==", "!=", "<", ">", "<=", ">=", "&", "|", "/", "%"):
            a, b = self.ev(e[2]), self.ev(e[3])
            return {"+": lambda: a + b, "-": lambda: a - b, "*": lambda: a * b, "<<": lambda: a << b, ">>": lambda: a >> b,
                    "==": lambda: int(a == b), "!=": lambda: int(a != b), "<": lambda: int(a < b), ">": lambda: int(a > b),
                    "<=": lambda: int(a <= b), ">=": lambda: int(a >= b), "&": lambda: a & b, "|": lambda: a | b,
                    "/": lambda: a // b, "%": lambda: a % b}[e[1]]()
        if t == "x":
            base = self.path(e[1])
            idx = self.ev(e[2])
            arr = self.env.get(base)
            if isinstance(arr, dict) and idx in arr:
                return arr[idx]
            if isinstance(arr, str):
                return ord(arr[idx]) if idx < len(arr) else 0
            raise Unsupported("value of %s[%s] is not known" % (base, idx))
        if t == "c":
            return self.call(e, want_value=True)
        if t == "?" and len(e) == 4:
            return self.ev(e[2]) if self.ev(e[1]) else self.ev(e[3])
        if t == "m":
            p = self.path(e)
            if p in self.env:
                return self.env[p]
            raise Unsupported("value of %s is not known" % p)
        raise Unsupported("expression %s" % fn.fmt(e)[:60])

    # ------------------------------------------------------------ statements
    def call(self, e, want_value=False):
        name = e[1]
        args = e[2]
        env = self.env
        P = self.path
        if name is None:
            raise Unsupported("indirect call")
        if self.on_call is not None:
            r = self.on_call(name, args, self)
            if r is not None:
                return r
        if name == "strlen":
            v = self.ev(args[0])
            return len(v)
        if name in ("memcpy", "strcpy", "strncpy"):
            env[P(args[0])] = self.ev(args[1])
            return 0
        if name == "bn_set_2b":
            env[P(args[0])] = 1 << self.ev(args[1])
            return 0
        if name == "bn_set_dig":
            env[P(args[0])] = self.ev(args[1])
            return 0
        if name == "bn_zero":
            env[P(args[0])] = 0
            return 0
        if name == "bn_set_bit":
            v = env.get(P(args[0]))
            if v is None:
                raise Unsupported("bn_set_bit on unknown value")
            s = -1 if v < 0 else 1
            a = abs(v)
            bit, val = self.ev(args[1]), self.ev(args[2])
            a = (a | (1 << bit)) if val else (a & ~(1 << bit))
            env[P(args[0])] = s * a
            return 0
        if name in ("bn_add", "bn_sub", "bn_mul", "bn_mul_comba", "bn_mul_basic", "bn_mul_karat"):
            a, b = self.bn(args[1]), self.bn(args[2])
            env[P(args[0])] = a + b if name == "bn_add" else a - b if name == "bn_sub" else a * b
            return 0
        if name in ("bn_add_dig", "bn_sub_dig", "bn_mul_dig"):
            a, d = self.bn(args[1]), self.ev(args[2])
            env[P(args[0])] = a + d if name == "bn_add_dig" else a - d if name == "bn_sub_dig" else a * d
            return 0
        if name == "bn_div_dig":
            a, d = self.bn(args[1]), self.ev(args[2])
            env[P(args[0])] = a // d
            return 0
        if name == "bn_div":
            a, b = self.bn(args[1]), self.bn(args[2])
            env[P(args[0])] = a // b
            return 0
        if name in ("bn_sqr", "bn_sqr_comba", "bn_sqr_basic", "bn_sqr_karat"):
            a = self.bn(args[1])
            env[P(args[0])] = a * a
            return 0
        if name == "bn_dbl":
            env[P(args[0])] = 2 * self.bn(args[1])
            return 0
        if name == "bn_hlv":
            env[P(args[0])] = self.bn(args[1]) >> 1
            return 0
        if name == "bn_neg":
            env[P(args[0])] = -self.bn(args[1])
            return 0
        if name == "bn_abs":
            env[P(args[0])] = abs(self.bn(args[1]))
            return 0
        if name == "bn_copy":
            env[P(args[0])] = self.bn(args[1])
            return 0
        if name == "bn_lsh":
            env[P(args[0])] = self.bn(args[1]) << self.ev(args[2])
            return 0
        if name == "bn_rsh":
            a = self.bn(args[1])
            env[P(args[0])] = (abs(a) >> self.ev(args[2])) * (-1 if a < 0 else 1)
            return 0
        if name in ("bn_read_str", "fp_read_str", "fb_read_str"):
            s = self.ev(args[1])
            radix = self.ev(args[3])
            if not isinstance(s, str):
                raise Unsupported("%s from a non-literal" % name)
            env[P(args[0])] = int(s, radix) if s else 0
            return 0
        if name in ("bn_sign",):
            return 1 if self.bn(args[0]) < 0 else 0
        if name == "bn_is_zero":
            return int(self.bn(args[0]) == 0)
        if name == "bn_bits":
            return abs(self.bn(args[0])).bit_length()
        if name == "bn_cmp_dig":
            a, d = self.bn(args[0]), self.ev(args[1])
            return -1 if a < d else (0 if a == d else 1)
        if name in ("bn_new", "bn_make", "bn_free", "bn_clean", "bn_null", "fp_new", "fp_free", "fp_null", "ep_new", "ep_free",
                    "core_get", "util_banner", "util_print", "util_printf"):
            return 0
        if name in ("fp_zero", "fb_zero"):
            env[P(args[0])] = 0
            return 0
        if name in ("fp_set_dig", "fb_set_dig"):
            env[P(args[0])] = self.ev(args[1])
            return 0
        raise Unsupported("call to %s" % name)

    def bn(self, e):
        p = self.path(e)
        if p in self.env and isinstance(self.env[p], int):
            return self.env[p]
        raise Unsupported("integer %s has no known value" % p)

    def stmt(self, e):
        fn = self.fn
        t = e[0]
        if t == "c":
            self.call(e)
        elif t == "=":
            lhs = ir.strip_casts(e[1])
            if lhs[0] == "x":
                base = self.path(lhs[1])
                idx = self.ev(lhs[2])
                arr = self.env.setdefault(base, {})
                if not isinstance(arr, dict):
                    arr = self.env[base] = {}
                arr[idx] = self.ev(e[2])
            else:
                self.env[self.path(lhs)] = self.ev(e[2])
        elif t == "d":
            if e[2] is not None:
                try:
                    self.env[fn.vars[e[1]]["n"]] = self.ev(e[2])
                except Unsupported:
                    pass
        elif t == "o=" and e[1] in ("+=", "-=", "|=", "*="):
            p = self.path(e[2])
            a, b = self.ev(e[2]), self.ev(e[3])
            self.env[p] = {"+=": a + b, "-=": a - b, "|=": a | b, "*=": a * b}[e[1]]
        elif t in ("i", "s", "v", "b", "u", "m", "x", "?", "k", "r"):
            pass        # value computed for an enclosing statement
        elif t == "ds":
            for a in e[1:]:
                self.stmt(a)
        elif t == "ret":
            raise Stop()
        else:
            raise Unsupported("statement %s" % fn.fmt(e)[:60])

    def run_case(self, block_id, max_blocks=200):
        """execute from the case label block until the `break` that leaves the switch (or a return)"""
        fn = self.fn
        b = fn.blocks[block_id]
        steps = 0
        while True:
            steps += 1
            if steps > max_blocks:
                raise Unsupported("case does not terminate in %d blocks" % max_blocks)
            for el in b.els:
                # elements belonging to THROW expansions or the TRY protocol are not data
                if el.tk is not None:
                    continue
                try:
                    self.stmt(el.e)
                except Stop:
                    return
            t = b.term
            if t is None:
                succ = [s for s in b.succ if s is not None]
                if len(succ) != 1:
                    return
                nb = fn.blocks[succ[0]]
                if nb.label and nb.label[0] in ("case", "default"):
                    b = nb          # fall-through into the next label
                    continue
                b = nb
                continue
            if t["k"] == "BreakStmt":
                return
            if t["k"] in ("IfStmt", "ConditionalOperator", "&&", "||", "ForStmt", "WhileStmt") and t.get("c") is not None and len(b.succ) == 2:
                v = self.ev(t["c"])
                nxt = b.succ[0] if v else b.succ[1]
                if nxt is None:
                    return
                b = fn.blocks[nxt]
                continue
            if t["k"] == "ForStmt" and t.get("c") is None:
                nxt = b.succ[0]
                b = fn.blocks[nxt]
                continue
            raise Unsupported("control flow %s" % t["k"])
