"""Shared context for property checks: programs per configuration, exploded
CFGs, call graph — all computed lazily and cached in-process."""
import importlib
import os
import sys
import time
import traceback

from . import facts, ir, xcfg
from .facts import AnalysisBroken
from .report import Check

PROPS = ["C01", "C02", "C03", "C04", "C05", "C06", "C07", "C08", "C09", "C12", "C13", "C15", "C18", "C19", "C20"]


class Ctx:
    def __init__(self, tier):
        self.tier = tier
        self._prog = {}
        self._mt = {}
        self._x = {}
        self._cg = {}

    def program(self, cfg="BASE", opts=None, only=None):
        k = cfg
        p = self._prog.get(k)
        if p is None:
            data = facts.extract(cfg, opts=opts, only=only)
            p = ir.Program(data)
            self._prog[k] = p
        return p

    def may_throw(self, prog):
        m = self._mt.get(prog.config)
        if m is None:
            base = None
            if prog.library is not None:
                base = self.may_throw(prog.library).set
            m = xcfg.make_may_throw(prog, base)
            self._mt[prog.config] = m
        return m

    def xcfg(self, prog, fn):
        k = (prog.config, id(fn))
        g = self._x.get(k)
        if g is None:
            g = xcfg.XCFG(fn, self.may_throw(prog))
            self._x[k] = g
        return g

    def callgraph(self, prog):
        c = self._cg.get(prog.config)
        if c is None:
            c = CallGraph(prog)
            self._cg[prog.config] = c
        return c


class CallGraph:
    def __init__(self, prog):
        self.prog = prog
        self.out = {}        # Function -> set(Function)
        self.ext = {}        # Function -> set(external callee names)
        self.indirect = {}   # Function -> [fn type strings of indirect calls]
        self.addr_taken = set()
        for fn in prog.all:
            o, x, ind = set(), set(), []
            for el in fn.all_elements():
                for n in ir.walk(fn, el.e):
                    if n[0] == "c":
                        if n[1] is None:
                            ind.append(n[4] if len(n) > 4 else "?")
                        else:
                            g = prog.get(n[1], near=fn)
                            if g is None:
                                x.add(n[1])
                            else:
                                o.add(g)
                    elif n[0] == "f":
                        g = prog.get(n[1], near=fn)
                        if g is not None:
                            self.addr_taken.add(g)
            self.out[fn] = o
            self.ext[fn] = x
            self.indirect[fn] = ind

    def reach(self, start):
        """functions reachable from Function `start` (inclusive)"""
        seen = {start}
        work = [start]
        while work:
            f = work.pop()
            for g in self.out.get(f, ()):
                if g not in seen:
                    seen.add(g)
                    work.append(g)
        return seen

    def closure(self, pred):
        """set of functions from which a function satisfying pred is reachable"""
        rev = {}
        for f, gs in self.out.items():
            for g in gs:
                rev.setdefault(g, set()).add(f)
        bad = set(f for f in self.prog.all if pred(f))
        work = list(bad)
        while work:
            g = work.pop()
            for f in rev.get(g, ()):
                if f not in bad:
                    bad.add(f)
                    work.append(f)
        return bad


def run_property(pid, tier, only_key=None):
    mod = importlib.import_module("relic_sa.rules." + pid.lower())
    chk = Check(pid, tier, mod.EXPLANATION)
    chk.only_key = only_key
    ctx = Ctx(tier)
    try:
        facts.build_extractor()
        from . import selftest
        deferred = selftest.run(ctx, chk, mod) or []
        mod.run(ctx, chk)
        selftest.settle(chk, deferred)
        return chk.finish()
    except AnalysisBroken as e:
        return chk.finish(broken=str(e))
    except Exception as e:
        traceback.print_exc()
        return chk.finish(broken="internal error: %r" % (e,))


def main(argv):
    import argparse
    import json
    ap = argparse.ArgumentParser()
    ap.add_argument("property", nargs="?")
    ap.add_argument("--tier", default=os.environ.get("VERIF_TIER", "quick"))
    ap.add_argument("--replay")
    a = ap.parse_args(argv)
    if a.replay:
        with open(a.replay) as fh:
            r = json.load(fh)
        pid = r["property"]
        print("replaying %s rule %s at %s:%s (%s)" % (pid, r["rule"], r["file"], r["function"], r["object"]))
        rc = run_property(pid, a.tier if a.tier in ("quick", "thorough") else "quick",
                          only_key=(r["rule"], r["file"], r["function"], r["object"]))
        return rc
    if not a.property:
        ap.error("property id required")
    if a.tier not in ("quick", "thorough"):
        a.tier = "quick"
    return run_property(a.property, a.tier)
