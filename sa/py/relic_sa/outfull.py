"""OUT-FULL: a function that writes an output element of an extension tower component by component writes, on every path
that returns normally and writes anything, *every* component it writes on some path.  A fast path that stores c[0] and
returns leaves c[1], c[2] with whatever the caller's object held: the result is right only in place or over a zeroed
object, which is how the suite happens to call these routines.

Components are the constant top-level indices of the output (c[0], c[1], c[2]); a store with a symbolic index, or the
whole object handed to a callee that writes it, counts as all components (no claim about loops).  Paths that write
nothing (an argument refused, the work delegated before any store) are not judged."""
import re

from . import ir, engines
from .engines import Facts, key

TOWER = re.compile(r"^(fp(2|3|4|6|8|9|12|16|18|24|48|54)|fb2|dv(2|3|4|6|8|9|12|16|18|24|48|54))_t$")


def top_index(fn, e, X):
    """(i,) constant top-level index if e designates (part of) X[i]; ("*",) for X itself or a symbolic index; None if e is
    not based on X"""
    a = ir.strip_casts(fn.resolve(e))
    chain = []
    guard = 0
    while isinstance(a, list) and a and guard < 12:
        guard += 1
        if a[0] == "x":
            chain.append(a[2])
            a = ir.strip_casts(fn.resolve(a[1]))
        elif a[0] == "u" and a[1] in ("*", "&"):
            if a[1] == "*":
                chain.append(["i", 0])
            a = ir.strip_casts(fn.resolve(a[2]))
        elif a[0] == "b" and a[1] == "+":
            chain.append(a[3])
            a = ir.strip_casts(fn.resolve(a[2]))
        else:
            break
    if a != ["v", X]:
        return None
    if not chain:
        return ("*",)
    top = ir.peel(fn, chain[-1])
    if isinstance(top, list) and top[0] == "i" and isinstance(top[1], int):
        return (top[1],)
    return ("*",)


def writes_of(prog, fn, e, X):
    out = set()
    for sub in ir.walk(fn, e):
        if sub[0] in ("=", "o="):
            t = top_index(fn, sub[1] if sub[0] == "=" else sub[2], X)
            if t is not None and t != ("*",):
                out.add(t[0])
            elif t == ("*",):
                l = ir.strip_casts(sub[1] if sub[0] == "=" else sub[2])
                if isinstance(l, list) and l[0] != "v":
                    out.add("*")
        elif sub[0] == "c":
            for i, a in enumerate(sub[2]):
                t = top_index(fn, a, X)
                if t is None:
                    continue
                aa = ir.strip_casts(fn.resolve(a))
                if isinstance(aa, list) and aa and aa[0] == "x" and not ir.arg_is_pointer(sub, i):
                    continue
                if sub[1] is not None and not engines.callee_writes_arg(prog, fn, sub[1], i):
                    continue
                out.add(t[0])
    return out


def rule(ctx, prog, chk, in_scope, exceptions=None, rule_name="OUT-FULL"):
    n = 0
    exceptions = exceptions or {}
    used = set()
    for fn in prog.all:
        if not (in_scope(fn) or "selftest" in fn.file):
            continue
        outs = []
        for pv in fn.params:
            v = fn.vars[pv]
            t = (v.get("ot") or v.get("t") or "")
            if TOWER.match(t) and "pc" in v and not v.get("pc"):
                outs.append(pv)
        for X in outs:
            per = {}
            U = set()
            for el in fn.all_elements():
                w = writes_of(prog, fn, el.e, X)
                if w:
                    per[el.id] = w
                    U |= set(i for i in w if i != "*")
            if len(U) < 2:
                continue
            g = ctx.xcfg(prog, fn)

            def gen(node, s, pre, per=per, U=U):
                w = per.get(node.el.id)
                if not w:
                    return []
                if "*" in w:
                    return [("ev", "w", i) for i in U] + [("ev", "touched")]
                return [("ev", "w", i) for i in w]
            def edge_gen(node, label, atoms, per=per, U=U):
                # leaving a counted loop of constant positive trip count: its body has run
                if label != "F" or node.kind != "br":
                    return []
                body = engines.counted_loop_nodes(fn, node, 1)
                if not body:
                    return []
                out = []
                for x in body:
                    if x.kind == "el":
                        w = per.get(x.el.id)
                        if w:
                            out += [("ev", "w", i) for i in (U if "*" in w else w)]
                return out
            F = Facts(prog, g, gen=gen, edge_gen=edge_gen, mark_thrown=True)
            # may-analysis of "something was written": a must-fact "untouched" that any write removes
            def kill(node, s, per=per):
                if per.get(node.el.id):
                    return frozenset(x for x in s if x != ("ev", "untouched"))
                return s
            F2 = Facts(prog, g, extra_kill=kill, mark_thrown=True, init=[("ev", "untouched")], assign_atoms=False)
            bad = None
            nex = 0
            ex2 = {id(p): st for p, st in engines.normal_exit_states(F2, g)}
            for p, st in engines.normal_exit_states(F, g):
                nex += 1
                st2 = ex2.get(id(p))
                if st2 is not None and ("ev", "untouched") in st2:
                    continue
                have = set(a[2] for a in st if a[0] == "ev" and a[1] == "w")
                if have and not (U <= have):
                    bad = (p, sorted(U - have), sorted(have))
                    break
            if nex == 0:
                continue
            n += 1
            nm = fn.vars[X]["n"]
            base = fn.name.split("__")[-1]
            if bad is None:
                chk.ok(rule_name, fn, nm, "every returning path that writes `%s` writes all of its %d components" % (nm, len(U)), line=fn.line)
            elif (base, nm) in exceptions:
                used.add((base, nm))
                chk.ok(rule_name, fn, nm, "reviewed exception: " + exceptions[(base, nm)], line=fn.line)
            else:
                p, miss, have = bad
                line = p.line() if hasattr(p, "line") else fn.line
                chk.fail(rule_name, fn, nm, "a path returns after writing component(s) %s of the output `%s` but not %s, which other paths do write: unless the caller's object "
                         "already held the right data (an in-place call, a zeroed variable) the result is wrong" % (have or "some", nm, miss), line=line)
    if prog.library is None:
        for k in exceptions:
            if k not in used and prog.get(k[0]) is not None:
                from .facts import AnalysisBroken
                raise AnalysisBroken("%s: the reviewed exception %s/%s no longer matches; remove it" % (rule_name, k[0], k[1]))
    return n
