"""TAINT: forward may-analysis of explicit flows of secret data over the exploded
CFG, with callee output summaries computed by running the same analysis on the
callee (bounded depth, cached)."""
from collections import deque

from . import ir, engines

# metadata fields of RELIC objects that describe the public shape, not the value
SHAPE_FIELDS = {"used", "sign", "alloc", "coord"}
# predicates on the *input scalar itself* that the property allows to be public
PC = -1     # pseudo variable: control already depends on secret data

DECLASS = {"bn_bits", "bn_sign", "bn_is_zero", "bn_size_bin", "bn_size_raw"}
# routines whose output sign is the (public) sign of their input or a constant: copies, |k|, -k, k mod n, constants
SIGN_PRESERVING = {"bn_copy", "bn_abs", "bn_neg", "bn_mod", "bn_mod_basic", "bn_mod_barrt", "bn_mod_monty", "bn_mod_pmers",
                   "bn_new", "bn_null", "bn_free", "bn_clean", "bn_zero", "bn_set_dig", "bn_grow", "bn_trim", "bn_make", "bn_init"}


class Taint:
    def __init__(self, eng, fn, tainted_positions, depth, data_params=None, consts=None):
        """tainted_positions: positions (0-based) of parameters whose *content* is secret.
        data_params: positions of pointer parameters whose pointee is secret data (primitives)"""
        self.eng = eng
        self.prog = eng.prog
        self.fn = fn
        self.g = eng.ctx.xcfg(eng.prog, fn)
        self.depth = depth
        self.src = set(fn.params[p] for p in tainted_positions if p < len(fn.params))
        self._sign_public = None
        # parameters known to be a literal constant at the call site: branches they decide are pruned
        self.follows = []
        for pos, val in (consts or {}).items():
            if pos < len(fn.params):
                self.follows.append(engines.world_follow(fn, ("v", fn.params[pos]), val))
        self.implicit = getattr(self, "implicit", True)
        self.violations = []      # (kind, node, text)
        self._vseen = set()
        self.IN = {}
        self.run()

    # -------------------------------------------------------------- expressions
    def tainted(self, e, st, depth=0):
        fn = self.fn
        if not isinstance(e, list) or not e or depth > 40:
            return False
        t = e[0]
        if t == "v":
            return e[1] in st
        if t in ("i", "f", "n", "s", "fl", "sizeof"):
            return False
        if t == "r":
            el = fn.elems.get(e[1])
            return False if el is None else self.tainted(el.e, st, depth + 1)
        if t == "k":
            return self.tainted(e[2], st, depth + 1)
        if t == "m":
            if e[2] in SHAPE_FIELDS:
                if e[2] == "sign":
                    # the sign of the input scalar is public; the sign of an integer *derived* from it (a sub-scalar of
                    # a decomposition, a difference) depends on the value
                    b = ir.base_var(fn, e[1])
                    if b is not None and b in st and not self.sign_public(b):
                        return True
                return False
            return self.tainted(e[1], st, depth + 1)
        if t == "x":
            return self.tainted(e[1], st, depth + 1) or self.tainted(e[2], st, depth + 1)
        if t == "u":
            if e[1] == "&":
                # the address of an object is public; the object may still be secret when passed on
                x = ir.strip_casts(e[2])
                if isinstance(x, list) and x[0] == "v":
                    return False
                return self.tainted(e[2], st, depth + 1)
            return self.tainted(e[2], st, depth + 1)
        if t == "b":
            return self.tainted(e[2], st, depth + 1) or self.tainted(e[3], st, depth + 1)
        if t == "?":
            if len(e) == 4:
                return any(self.tainted(x, st, depth + 1) for x in e[1:])
            return False
        if t in ("=",):
            return self.tainted(e[2], st, depth + 1)
        if t == "o=":
            return self.tainted(e[2], st, depth + 1) or self.tainted(e[3], st, depth + 1)
        if t == "c":
            name = e[1]
            tin = self.arg_taint(e, st)
            if not tin:
                return False
            if name in DECLASS and e[2]:
                a0 = ir.peel(fn, e[2][0])
                if isinstance(a0, list) and a0[0] == "v" and a0[1] in self.src:
                    return False        # public shape of the input scalar itself
                if name == "bn_sign":
                    b = ir.base_var(fn, e[2][0])
                    # sign of an integer derived from the secret (sub-scalar of a decomposition, difference): value-dependent
                    return not (b is not None and self.sign_public(b))
            outs = self.eng.summary(self.fn, name, tin, self.depth, self.const_args(e)) if name else None
            if outs is None:
                return True
            return "ret" in outs
        if t in ("l",):
            return any(self.tainted(x, st, depth + 1) for x in e[1])
        if t == "cl":
            return self.tainted(e[1], st, depth + 1)
        return False

    def sign_public(self, v):
        """is the sign of integer variable v public: the input scalar itself, or a variable only ever written by
        sign-preserving routines (copy, absolute value, negation, reduction) - flow-insensitive"""
        if v in self.src:
            return True
        if self._sign_public is None:
            writers = {}
            fn = self.fn
            for el in fn.all_elements():
                for c in ir.calls_in(fn, el.e):
                    if not c[2]:
                        continue
                    for pos, a in enumerate(c[2]):
                        b = ir.base_var(fn, a)
                        if b is None:
                            continue
                        if pos == 0 or (isinstance(c[1], str) and not c[1].startswith("bn_") and engines.callee_writes_arg(self.prog, fn, c[1], pos)) \
                                or (isinstance(c[1], str) and c[1].startswith("bn_rec_") and engines.callee_writes_arg(self.prog, fn, c[1], pos)):
                            if pos == 0 and isinstance(c[1], str) and engines.PURE_PREDICATE.match(c[1]):
                                continue
                            if pos == 0 and c[1] in DECLASS:
                                continue
                            writers.setdefault(b, set()).add(c[1])
                for sub in ir.walk(fn, el.e):
                    if sub[0] == "=":
                        v2, f = engines.lvalue_path(fn, sub[1])
                        if v2 is not None and f == "sign":
                            r = ir.peel(fn, sub[2])
                            if not (isinstance(r, list) and r and r[0] == "i"):
                                writers.setdefault(v2, set()).add("=sign")
            self._sign_public = set(b for b, ws in writers.items() if all(isinstance(w, str) and w in SIGN_PRESERVING for w in ws))
        return v in self._sign_public

    def const_args(self, call):
        out = {}
        for i, a in enumerate(call[2]):
            aa = ir.peel(self.fn, a)
            if isinstance(aa, list) and aa and aa[0] == "i" and isinstance(aa[1], int):
                out[i] = aa[1]
        return out

    def arg_taint(self, call, st):
        """positions of arguments that carry secret content"""
        out = set()
        for i, a in enumerate(call[2]):
            aa = ir.peel(self.fn, a)
            if isinstance(aa, list) and aa and aa[0] == "u" and aa[1] == "&":
                v = ir.base_var(self.fn, aa[2])
                if v is not None and v in st and self._content_secret(aa[2], st):
                    out.add(i)
                continue
            if self.tainted(a, st):
                out.add(i)
        return frozenset(out)

    def _content_secret(self, e, st):
        return self.tainted(e, st)

    # -------------------------------------------------------------- analysis
    def run(self):
        g = self.g
        IN = {g.entry: frozenset(self.src)}
        work = deque([g.entry])
        steps = 0
        while work:
            n = work.popleft()
            steps += 1
            if steps > 200000:
                break
            st = IN[n]
            out = self.transfer(n, st)
            for m, label in n.succ:
                if self.follows and not all(f(n, m, label) for f in self.follows):
                    continue
                cur = IN.get(m)
                new = out if cur is None else (cur | out)
                if cur is None or len(new) != len(cur):
                    IN[m] = new
                    work.append(m)
        self.IN = IN

    def transfer(self, n, st):
        fn = self.fn
        if n.kind == "br":
            # implicit flows: once a branch was decided by secret data, everything assigned or returned
            # afterwards in this function is treated as secret (PC marker, never reset: over-approximation)
            t = n.info.get("term")
            if self.implicit and PC not in st and t and t.get("c") is not None and not n.proto and self.tainted(t["c"], st):
                return st | frozenset([PC])
            return st
        if n.kind != "el":
            return st
        e = n.el.e
        add, drop = set(), set()
        pc = PC in st
        for sub in ir.walk(fn, e):
            t = sub[0]
            if t == "=":
                v, f = engines.lvalue_path(fn, sub[1])
                if v is None:
                    continue
                if f in SHAPE_FIELDS:
                    continue
                if pc or self.tainted(sub[2], st):
                    add.add(v)
                elif ir.strip_casts(sub[1]) == ["v", v]:
                    drop.add(v)
            elif t == "o=":
                v, f = engines.lvalue_path(fn, sub[2])
                if v is not None and f not in SHAPE_FIELDS and (pc or self.tainted(sub[3], st)):
                    add.add(v)
            elif t == "d":
                if sub[2] is not None and (pc or self.tainted(sub[2], st)):
                    add.add(sub[1])
                else:
                    drop.add(sub[1])
            elif t == "c":
                tin = self.arg_taint(sub, st)
                if not tin:
                    continue
                name = sub[1]
                outs = self.eng.summary(fn, name, tin, self.depth, self.const_args(sub)) if name else None
                for i, a in enumerate(sub[2]):
                    if not ir.arg_is_pointer(sub, i):
                        continue
                    if outs is None:
                        w = name is None or engines.callee_writes_arg(self.prog, fn, name, i)
                    else:
                        w = i in outs
                    if w:
                        v, f = engines.lvalue_path(fn, a)
                        if v is not None:
                            add.add(v)
        if add or drop:
            st = frozenset((set(st) - (drop - add)) | add)
        return st

    def exit_state(self):
        out = frozenset()
        for p, l in self.g.exit.pred:
            s = self.IN.get(p)
            if s is not None:
                out = out | self.transfer(p, s)
        return out

    def returns_tainted(self):
        for n in self.g.nodes:
            if n.kind == "el" and n.el.e[0] == "ret" and n.el.e[1] is not None:
                s = self.IN.get(n)
                if s is not None and (PC in s or self.tainted(n.el.e[1], s)):
                    return True
        return False


class TaintEngine:
    def __init__(self, ctx, prog, max_depth=2):
        self.ctx = ctx
        self.prog = prog
        self.max_depth = max_depth
        self.cache = {}

    def summary(self, caller, name, tin, depth, consts=None):
        """set of argument positions (and 'ret') that become secret when the arguments `tin` are secret;
        None = unknown callee (caller falls back to declared writability)"""
        g = self.prog.get(name, near=caller)
        if g is None:
            # external function: memcpy-like propagation is handled conservatively by the caller
            return None
        if depth <= 0:
            return None
        ckey = tuple(sorted((consts or {}).items()))
        key = (id(g), tin, ckey)
        if key in self.cache:
            return self.cache[key]
        self.cache[key] = None      # recursion guard: conservative
        t = Taint(self, g, [p for p in tin if p < len(g.params)], depth - 1, consts=consts)
        ex = t.exit_state()
        outs = set()
        for pos, pv in enumerate(g.params):
            if pv in ex and ("pc" in g.vars[pv]):
                if pos in tin:
                    # stays secret; only an *output* if the callee may store through it
                    if engines.callee_writes_arg(self.prog, caller, name, pos):
                        outs.add(pos)
                else:
                    outs.add(pos)
        if t.returns_tainted():
            outs.add("ret")
        res = frozenset(outs)
        self.cache[key] = res
        return res
