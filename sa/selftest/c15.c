/* Self-test miniatures for the C15 rules (parsed only). */
#include <string.h>
#include <stdlib.h>
#include "relic.h"

#define ST_LEN ((RLC_RAND_SIZE - 1) / 2)

/* exact: 32-bit accumulator */
static int ok_inc(uint8_t *data, size_t size, int digit) {
	uint32_t carry = digit;
	for (int i = size - 1; i >= 0; i--) {
		uint32_t s;
		s = (data[i] + carry);
		data[i] = s & 0xFF;
		carry = s >> 8;
	}
	return carry;
}

/* the counter does not fit a 16-bit accumulator */
static int bad_drbg_carry__narrow(uint8_t *data, size_t size, int digit) {
	int carry = digit;
	for (int i = size - 1; i >= 0; i--) {
		int16_t s;
		s = (data[i] + carry);
		data[i] = s & 0xFF;
		carry = s >> 8;
	}
	return carry;
}

static int ok_add(uint8_t *state, uint8_t *hash, size_t size) {
	int carry = 0;
	for (int i = size - 1; i >= 0; i--) {
		int16_t s;
		s = (state[i] + hash[i] + carry);
		state[i] = s & 0xFF;
		carry = s >> 8;
	}
	return carry;
}

/* 8-bit accumulator loses the carry */
static int bad_drbg_carry__byte(uint8_t *state, uint8_t *hash, size_t size) {
	int carry = 0;
	for (int i = size - 1; i >= 0; i--) {
		uint8_t s;
		s = (state[i] + hash[i] + carry);
		state[i] = s & 0xFF;
		carry = s >> 8;
	}
	return carry;
}

static void st_gen(uint8_t *out, size_t out_len) {
	memset(out, 0, out_len);
}

static int rand_add(uint8_t *state, uint8_t *hash, size_t size) {
	return ok_add(state, hash, size);
}

static int rand_inc(uint8_t *data, size_t size, int digit) {
	return ok_inc(data, size, digit) + bad_drbg_carry__narrow(data, size, digit);
}

void ok_a__rand_bytes(uint8_t *buf, size_t size) {
	uint8_t hash[RLC_MD_LEN];
	int carry, len = ST_LEN;
	ctx_t *ctx = core_get();

	if (size > (1 << 16)) {
		RLC_THROW(ERR_NO_VALID);
		return;
	}
	st_gen(buf, size);
	ctx->rand[0] = 0x3;
	md_map(hash, ctx->rand, 1 + len);
	rand_add(ctx->rand + 1, ctx->rand + 1 + len, len);
	carry = rand_add(ctx->rand + 1 + (len - RLC_MD_LEN), hash, RLC_MD_LEN);
	rand_inc(ctx->rand, len - RLC_MD_LEN + 1, carry);
	rand_inc(ctx->rand, len + 1, ctx->counter);
	ctx->counter = ctx->counter + 1;
}

/* the limit is tested after the output was produced */
void bad_drbg_limit__late__rand_bytes(uint8_t *buf, size_t size) {
	uint8_t hash[RLC_MD_LEN];
	int carry, len = ST_LEN;
	ctx_t *ctx = core_get();

	st_gen(buf, size);
	if (size > (1 << 16)) {
		RLC_THROW(ERR_NO_VALID);
		return;
	}
	ctx->rand[0] = 0x3;
	md_map(hash, ctx->rand, 1 + len);
	rand_add(ctx->rand + 1, ctx->rand + 1 + len, len);
	carry = rand_add(ctx->rand + 1 + (len - RLC_MD_LEN), hash, RLC_MD_LEN);
	rand_inc(ctx->rand, len - RLC_MD_LEN + 1, carry);
	rand_inc(ctx->rand, len + 1, ctx->counter);
	ctx->counter = ctx->counter + 1;
}

/* empty requests leave the state alone */
void bad_drbg_update__empty__rand_bytes(uint8_t *buf, size_t size) {
	uint8_t hash[RLC_MD_LEN];
	int carry, len = ST_LEN;
	ctx_t *ctx = core_get();

	if (size > (1 << 16)) {
		RLC_THROW(ERR_NO_VALID);
		return;
	}
	if (size == 0) {
		return;
	}
	st_gen(buf, size);
	ctx->rand[0] = 0x3;
	md_map(hash, ctx->rand, 1 + len);
	rand_add(ctx->rand + 1, ctx->rand + 1 + len, len);
	carry = rand_add(ctx->rand + 1 + (len - RLC_MD_LEN), hash, RLC_MD_LEN);
	rand_inc(ctx->rand, len - RLC_MD_LEN + 1, carry);
	rand_inc(ctx->rand, len + 1, ctx->counter);
	ctx->counter = ctx->counter + 1;
}

/* the counter is incremented before it is added; the carry of H is dropped */
void bad_drbg_update__order__rand_bytes(uint8_t *buf, size_t size) {
	uint8_t hash[RLC_MD_LEN];
	int len = ST_LEN;
	ctx_t *ctx = core_get();

	if (size > (1 << 16)) {
		RLC_THROW(ERR_NO_VALID);
		return;
	}
	st_gen(buf, size);
	ctx->rand[0] = 0x3;
	md_map(hash, ctx->rand, 1 + len);
	rand_add(ctx->rand + 1, ctx->rand + 1 + len, len);
	rand_add(ctx->rand + 1 + (len - RLC_MD_LEN), hash, RLC_MD_LEN);
	ctx->counter = ctx->counter + 1;
	rand_inc(ctx->rand, len + 1, ctx->counter);
}

static void rand_hash(uint8_t *out, size_t out_len, uint8_t *in, size_t in_len) {
	memset(out, in[0], out_len + in_len);
}

void ok_b__rand_seed(uint8_t *buf, size_t size) {
	ctx_t *ctx = core_get();
	size_t len = ST_LEN;

	if (size <= 0) {
		RLC_THROW(ERR_NO_VALID);
		return;
	}
	ctx->rand[0] = 0x0;
	if (ctx->seeded == 0) {
		rand_hash(ctx->rand + 1, len, buf, size);
		rand_hash(ctx->rand + 1 + len, len, ctx->rand, len + 1);
	} else {
		size_t tmp_size = 1 + len + size;
		uint8_t *tmp = RLC_ALLOCA(uint8_t, tmp_size);
		if (tmp == NULL) {
			RLC_THROW(ERR_NO_MEMORY);
			return;
		}
		tmp[0] = 1;
		memcpy(tmp + 1, ctx->rand + 1, len);
		memcpy(tmp + 1 + len, buf, size);
		rand_hash(ctx->rand + 1, len, tmp, tmp_size);
		rand_hash(ctx->rand + 1 + len, len, ctx->rand, len + 1);
		RLC_FREE(tmp);
	}
	ctx->counter = ctx->seeded = 1;
}

/* the reseed forgets the old V; the length is kept in an int */
void bad_drbg_seed__nov__rand_seed(uint8_t *buf, size_t size) {
	ctx_t *ctx = core_get();
	size_t len = ST_LEN;

	ctx->rand[0] = 0x0;
	if (ctx->seeded == 0) {
		rand_hash(ctx->rand + 1, len, buf, size);
		rand_hash(ctx->rand + 1 + len, len, ctx->rand, len + 1);
	} else {
		size_t tmp_size = 1 + len + size;
		uint8_t *tmp = RLC_ALLOCA(uint8_t, tmp_size);
		tmp[0] = 1;
		memcpy(tmp + 1 + len, buf, size);
		rand_hash(ctx->rand + 1, len, tmp, tmp_size);
		rand_hash(ctx->rand + 1 + len, len, ctx->rand, len + 1);
		RLC_FREE(tmp);
	}
	ctx->counter = ctx->seeded = 1;
}

void bad_drbg_len__int__rand_seed(uint8_t *buf, size_t size) {
	ctx_t *ctx = core_get();
	size_t len = ST_LEN;
	int tmp_size = 1 + len + size;
	uint8_t *tmp = RLC_ALLOCA(uint8_t, tmp_size);

	ctx->rand[0] = 0x0;
	tmp[0] = 1;
	memcpy(tmp + 1, ctx->rand + 1, len);
	memcpy(tmp + 1 + len, buf, size);
	rand_hash(ctx->rand + 1, len, tmp, tmp_size);
	rand_hash(ctx->rand + 1 + len, len, ctx->rand, len + 1);
	RLC_FREE(tmp);
	ctx->counter = ctx->seeded = 1;
}

/* C derived before V; the counter is not reset */
void bad_drbg_seed__order__rand_seed(uint8_t *buf, size_t size) {
	ctx_t *ctx = core_get();
	size_t len = ST_LEN;

	ctx->rand[0] = 0x0;
	rand_hash(ctx->rand + 1 + len, len, ctx->rand, len + 1);
	rand_hash(ctx->rand + 1, len, buf, size);
	ctx->seeded = 1;
}

void ok_c__bn_rand_mod(bn_t a, const bn_t b) {
	bn_t t;

	bn_null(t);
	RLC_TRY {
		bn_new(t);
		bn_copy(t, b);
		do {
			bn_rand(a, bn_sign(t), bn_bits(t) + 40);
			bn_mod(a, a, t);
		} while (bn_is_zero(a) || bn_cmp_abs(a, t) != RLC_LT);
	} RLC_CATCH_ANY {
		RLC_THROW(ERR_CAUGHT);
	} RLC_FINALLY {
		bn_free(t);
	}
}

/* zero is not rejected */
void bad_rand_range__zero__bn_rand_mod(bn_t a, const bn_t b) {
	bn_rand(a, bn_sign(b), bn_bits(b) + 40);
	bn_mod(a, a, b);
}

/* rejection sampling without reduction compares with the wrong operand */
void bad_rand_range__nored__bn_rand_mod(bn_t a, const bn_t b) {
	do {
		bn_rand(a, bn_sign(b), bn_bits(b));
	} while (bn_is_zero(a) || bn_cmp_abs(a, a) != RLC_LT);
}

void ok_d__bn_rand(bn_t a, int sign, size_t bits) {
	int digits;

	RLC_RIP(bits, digits, bits);
	digits += (bits > 0 ? 1 : 0);
	bn_grow(a, digits);
	rand_bytes((uint8_t *)a->dp, digits * sizeof(dig_t));
	a->used = digits;
	a->sign = sign;
	if (bits > 0) {
		dig_t mask = ((dig_t)1 << (dig_t)bits) - 1;
		a->dp[a->used - 1] &= mask;
	}
	bn_trim(a);
}

/* the top digit keeps all its bits */
void bad_rand_bits__nomask__bn_rand(bn_t a, int sign, size_t bits) {
	int digits;

	RLC_RIP(bits, digits, bits);
	digits += (bits > 0 ? 1 : 0);
	bn_grow(a, digits);
	rand_bytes((uint8_t *)a->dp, digits * sizeof(dig_t));
	a->used = digits;
	a->sign = sign;
	bn_trim(a);
}

/* "extra entropy" mixed into the output */
void bad_rand_source__time__rand_bytes(uint8_t *buf, size_t size) {
	uint8_t hash[RLC_MD_LEN];
	int carry, len = ST_LEN;
	ctx_t *ctx = core_get();

	if (size > (1 << 16)) {
		RLC_THROW(ERR_NO_VALID);
		return;
	}
	st_gen(buf, size);
	if (size > 0) {
		buf[0] ^= (uint8_t)rand();
	}
	ctx->rand[0] = 0x3;
	md_map(hash, ctx->rand, 1 + len);
	rand_add(ctx->rand + 1, ctx->rand + 1 + len, len);
	carry = rand_add(ctx->rand + 1 + (len - RLC_MD_LEN), hash, RLC_MD_LEN);
	rand_inc(ctx->rand, len - RLC_MD_LEN + 1, carry);
	rand_inc(ctx->rand, len + 1, ctx->counter);
	ctx->counter = ctx->counter + 1;
}

/* the block counter is assumed to fit two bytes */
static void bad_drbg_carry__ripple(uint8_t *out, size_t out_len) {
	uint8_t hash[RLC_MD_LEN], data[ST_LEN];
	memcpy(data, core_get()->rand + 1, ST_LEN);
	for (size_t i = 0; i < out_len; i += RLC_MD_LEN) {
		md_map(hash, data, sizeof(data));
		memcpy(out + i, hash, RLC_MD_LEN);
		if (++data[sizeof(data) - 1] == 0) {
			++data[sizeof(data) - 2];
		}
	}
}

/* the limit held in a local */
void ok_e__rand_bytes(uint8_t *buf, size_t size) {
	uint8_t hash[RLC_MD_LEN];
	int carry, len = ST_LEN;
	ctx_t *ctx = core_get();
	size_t limit = (size_t)1 << 16;

	if (size > limit) {
		RLC_THROW(ERR_NO_VALID);
		return;
	}
	st_gen(buf, size);
	ctx->rand[0] = 0x3;
	md_map(hash, ctx->rand, 1 + len);
	rand_add(ctx->rand + 1, ctx->rand + 1 + len, len);
	carry = rand_add(ctx->rand + 1 + (len - RLC_MD_LEN), hash, RLC_MD_LEN);
	rand_inc(ctx->rand, len - RLC_MD_LEN + 1, carry);
	rand_inc(ctx->rand, len + 1, ctx->counter);
	ctx->counter = ctx->counter + 1;
}

/* ------------------------------------------------------------------ DRBG-CLAMP / HASHGEN-INC / RAND-FILL */
/* seed material beyond the fixed buffer is dropped silently */
static void bad_drbg_clamp__truncates(uint8_t *out, size_t out_len, uint8_t *in, size_t in_len) {
	uint8_t buf[64];
	in_len = RLC_MIN(in_len, sizeof(buf) - 5);
	memcpy(buf + 5, in, in_len);
	md_map(out, buf, 5 + in_len);
}

static void ok_hashgen(uint8_t *out, size_t out_len) {
	uint8_t hash[RLC_MD_LEN], data[(RLC_RAND_SIZE - 1) / 2];
	ctx_t *ctx = core_get();
	memcpy(data, ctx->rand + 1, (RLC_RAND_SIZE - 1) / 2);
	for (int i = 0; i < 3; i++) {
		md_map(hash, data, sizeof(data));
		memcpy(out, hash, RLC_MD_LEN);
		out += RLC_MD_LEN;
		rand_inc(data, (RLC_RAND_SIZE - 1) / 2, 1);
	}
}

/* only the low word of the working copy is stepped: the carry into the rest is lost */
static void bad_hashgen_inc__word(uint8_t *out, size_t out_len) {
	uint8_t hash[RLC_MD_LEN], data[(RLC_RAND_SIZE - 1) / 2];
	uint32_t ctr = 0;
	ctx_t *ctx = core_get();
	memcpy(data, ctx->rand + 1, (RLC_RAND_SIZE - 1) / 2);
	for (int i = 0; i < 3; i++) {
		md_map(hash, data, sizeof(data));
		memcpy(out, hash, RLC_MD_LEN);
		out += RLC_MD_LEN;
		ctr++;
		memcpy(data + sizeof(data) - 4, &ctr, 4);
	}
}

/* fewer bytes than the digits in use hold */
void bad_rand_fill__short__bn_rand(bn_t a, int sign, size_t bits) {
	int digits;
	size_t bytes;
	RLC_RIP(bits, digits, bits);
	bytes = digits * sizeof(dig_t) + bits / 8;
	digits += (bits > 0 ? 1 : 0);
	bn_grow(a, digits);
	rand_bytes((uint8_t *)a->dp, bytes);
	a->used = digits;
	a->sign = sign;
	if (bits > 0) {
		dig_t mask = ((dig_t)1 << (dig_t)bits) - 1;
		a->dp[a->used - 1] &= mask;
	}
	bn_trim(a);
}
