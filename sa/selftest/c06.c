/* Self-test miniatures for the C06 rules (parsed only). */
#include "relic.h"

int ok_full__cp_st_dec(uint8_t *out, size_t *out_len, const uint8_t *in, size_t in_len, const uint8_t *key) {
	uint8_t h[RLC_MD_LEN], iv[RLC_BC_LEN] = { 0 };
	int result = RLC_OK;
	if (in_len < RLC_MD_LEN) {
		return RLC_ERR;
	}
	RLC_TRY {
		md_hmac(h, in, in_len - RLC_MD_LEN, key, 16);
		if (util_cmp_sec(h, in + in_len - RLC_MD_LEN, RLC_MD_LEN)) {
			result = RLC_ERR;
		} else {
			if (bc_aes_cbc_dec(out, out_len, in, in_len - RLC_MD_LEN, key, 16, iv) != RLC_OK) {
				result = RLC_ERR;
			}
		}
	} RLC_CATCH_ANY {
		result = RLC_ERR;
	}
	return result;
}

/* no lower bound on the ciphertext length */
int bad_len_sub__cp_st_dec(uint8_t *out, size_t *out_len, const uint8_t *in, size_t in_len, const uint8_t *key) {
	uint8_t h[RLC_MD_LEN], iv[RLC_BC_LEN] = { 0 };
	int result = RLC_OK;
	md_hmac(h, in, in_len - RLC_MD_LEN, key, 16);
	if (util_cmp_sec(h, in + in_len - RLC_MD_LEN, RLC_MD_LEN)) {
		result = RLC_ERR;
	} else {
		if (bc_aes_cbc_dec(out, out_len, in, in_len - RLC_MD_LEN, key, 16, iv) != RLC_OK) {
			result = RLC_ERR;
		}
	}
	return result;
}

/* decrypts first, compares the tag afterwards */
int bad_out_gate__decrypt_first__cp_st_dec(uint8_t *out, size_t *out_len, const uint8_t *in, size_t in_len, const uint8_t *key) {
	uint8_t h[RLC_MD_LEN], iv[RLC_BC_LEN] = { 0 };
	int result = RLC_OK;
	if (in_len < RLC_MD_LEN) {
		return RLC_ERR;
	}
	md_hmac(h, in, in_len - RLC_MD_LEN, key, 16);
	if (bc_aes_cbc_dec(out, out_len, in, in_len - RLC_MD_LEN, key, 16, iv) != RLC_OK) {
		result = RLC_ERR;
	}
	if (util_cmp_sec(h, in + in_len - RLC_MD_LEN, RLC_MD_LEN)) {
		result = RLC_ERR;
	}
	return result;
}

/* the failing comparison does not change the status */
int bad_fail_err__status_kept__cp_st_dec(uint8_t *out, size_t *out_len, const uint8_t *in, size_t in_len, const uint8_t *key) {
	uint8_t h[RLC_MD_LEN], iv[RLC_BC_LEN] = { 0 };
	int result = RLC_OK;
	if (in_len < RLC_MD_LEN) {
		return RLC_ERR;
	}
	md_hmac(h, in, in_len - RLC_MD_LEN, key, 16);
	if (util_cmp_sec(h, in + in_len - RLC_MD_LEN, RLC_MD_LEN) == RLC_EQ) {
		if (bc_aes_cbc_dec(out, out_len, in, in_len - RLC_MD_LEN, key, 16, iv) != RLC_OK) {
			result = RLC_ERR;
		}
	}
	return result;
}

/* the capacity of the caller's buffer is not compared with the plaintext size */
int bad_out_cap__unchecked(uint8_t *out, size_t *out_len, const bn_t m, size_t size) {
	memset(out, 0, size);
	bn_write_bin(out, size, m);
	*out_len = size;
	return RLC_OK;
}

int ok_out_cap__checked(uint8_t *out, size_t *out_len, const bn_t m, size_t size) {
	if (size <= *out_len) {
		memset(out, 0, size);
		bn_write_bin(out, size, m);
		*out_len = size;
		return RLC_OK;
	}
	return RLC_ERR;
}

/* the leading-byte check is remembered in a flag that is reset before it is consulted */
int bad_check_dead__reset(bn_t m, bn_t t, const uint8_t *h1, const uint8_t *h2) {
	int pad, result = RLC_ERR;
	pad = (bn_is_zero(t) ? 0 : 1);
	bn_rsh(t, m, 8);
	pad = 0;
	for (int i = 0; i < RLC_MD_LEN; i++) {
		pad |= h1[i] ^ h2[i];
	}
	if (pad == 0 && bn_cmp_dig(t, 1) == RLC_EQ) {
		result = RLC_OK;
	}
	return result;
}

int ok_check_live(bn_t m, bn_t t, const uint8_t *h1, const uint8_t *h2) {
	int pad, result = RLC_ERR;
	pad = (bn_is_zero(t) ? 0 : 1);
	bn_rsh(t, m, 8);
	for (int i = 0; i < RLC_MD_LEN; i++) {
		pad |= h1[i] ^ h2[i];
	}
	if (pad == 0 && bn_cmp_dig(t, 1) == RLC_EQ) {
		result = RLC_OK;
	}
	return result;
}

/* ------------------------------------------------------------------ OUT-CLEAN / DEC-RANGE / ENC-RANGE */
int ok_clean__cp_sr_dec(uint8_t *out, size_t *out_len, const uint8_t *in, size_t in_len, const bn_t n) {
	bn_t m;
	int result = RLC_OK;
	bn_null(m);
	RLC_TRY {
		bn_new(m);
		bn_read_bin(m, in, in_len);
		if (bn_cmp(m, n) != RLC_LT) {
			RLC_THROW(ERR_NO_VALID);
		}
		bn_mxp_dig(m, m, 3, n);
		if (bn_is_even(m)) {
			result = RLC_ERR;
		}
		if (result == RLC_OK && bn_size_bin(m) <= *out_len) {
			*out_len = bn_size_bin(m);
			bn_write_bin(out, *out_len, m);
		} else {
			result = RLC_ERR;
		}
	} RLC_CATCH_ANY {
		result = RLC_ERR;
	} RLC_FINALLY {
		bn_free(m);
	}
	return result;
}

/* the failed check sets the status but the plaintext is written all the same */
int bad_out_clean__written__cp_sr_dec(uint8_t *out, size_t *out_len, const uint8_t *in, size_t in_len, const bn_t n) {
	bn_t m;
	int result = RLC_OK;
	bn_null(m);
	RLC_TRY {
		bn_new(m);
		bn_read_bin(m, in, in_len);
		if (bn_cmp(m, n) != RLC_LT) {
			RLC_THROW(ERR_NO_VALID);
		}
		bn_mxp_dig(m, m, 3, n);
		if (bn_is_even(m)) {
			result = RLC_ERR;
		}
		if (bn_size_bin(m) <= *out_len) {
			*out_len = bn_size_bin(m);
			bn_write_bin(out, *out_len, m);
		} else {
			result = RLC_ERR;
		}
	} RLC_CATCH_ANY {
		result = RLC_ERR;
	} RLC_FINALLY {
		bn_free(m);
	}
	return result;
}

/* c + n decrypts like c */
int bad_dec_range__unchecked__cp_sr_dec(uint8_t *out, size_t *out_len, const uint8_t *in, size_t in_len, const bn_t n) {
	bn_t m;
	int result = RLC_OK;
	bn_null(m);
	RLC_TRY {
		bn_new(m);
		bn_read_bin(m, in, in_len);
		bn_mxp_dig(m, m, 3, n);
		if (bn_size_bin(m) <= *out_len) {
			*out_len = bn_size_bin(m);
			bn_write_bin(out, *out_len, m);
		} else {
			result = RLC_ERR;
		}
	} RLC_CATCH_ANY {
		result = RLC_ERR;
	} RLC_FINALLY {
		bn_free(m);
	}
	return result;
}

int ok_range__cp_phpe_enc(bn_t c, const bn_t m, const bn_t pub) {
	if (pub == NULL || bn_sign(m) == RLC_NEG || bn_cmp(m, pub) != RLC_LT) {
		return RLC_ERR;
	}
	bn_mxp(c, m, pub, pub);
	return RLC_OK;
}

/* bit lengths only: n + 5 is admitted */
int bad_enc_range__bits__cp_phpe_enc(bn_t c, const bn_t m, const bn_t pub) {
	if (pub == NULL || bn_bits(m) > bn_bits(pub)) {
		return RLC_ERR;
	}
	bn_mxp(c, m, pub, pub);
	return RLC_OK;
}
