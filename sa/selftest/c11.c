/* Self-test miniatures for the C11 rules (parsed only). */
#include "relic.h"

void ok_a__ep2_mul_x(ep2_t r, const ep2_t p, const bn_t k) {
	ep2_t t;
	if (bn_is_zero(k) || ep2_is_infty(p)) {
		ep2_set_infty(r);
		return;
	}
	ep2_null(t);
	ep2_new(t);
	ep2_copy(t, p);
	for (int i = bn_bits(k) - 2; i >= 0; i--) {
		ep2_dbl(t, t);
		if (bn_get_bit(k, i)) {
			ep2_add(t, t, p);
		}
	}
	ep2_norm(r, t);
	if (bn_sign(k) == RLC_NEG) {
		ep2_neg(r, r);
	}
	ep2_free(t);
}

/* negative scalars multiply by |k| */
void bad_sm_sign__abs__ep2_mul_y(ep2_t r, const ep2_t p, const bn_t k) {
	ep2_t t;
	if (bn_is_zero(k) || ep2_is_infty(p)) {
		ep2_set_infty(r);
		return;
	}
	ep2_null(t);
	ep2_new(t);
	ep2_copy(t, p);
	for (int i = bn_bits(k) - 2; i >= 0; i--) {
		ep2_dbl(t, t);
		if (bn_get_bit(k, i)) {
			ep2_add(t, t, p);
		}
	}
	ep2_norm(r, t);
	ep2_free(t);
}

/* the sign of the second scalar is taken from the first */
void bad_sm_sign__second__ep2_mul_sim_z(ep2_t r, const ep2_t p, const bn_t k, const ep2_t q, const bn_t m) {
	ep2_t t, u;
	ep2_null(t); ep2_null(u);
	ep2_new(t); ep2_new(u);
	ep2_copy(t, p);
	if (bn_sign(k) == RLC_NEG) {
		ep2_neg(t, t);
	}
	ep2_copy(u, q);
	if (bn_sign(k) == RLC_NEG) {
		ep2_neg(u, u);
	}
	ep2_add(r, t, u);
	ep2_norm(r, r);
	ep2_free(t); ep2_free(u);
}

void ok_b(ep2_t r, const ep2_t p) {
	if (r != p) {
		ep2_copy(r, p);
	}
	ep2_neg(r, r);
}

/* the output's own coordinate is used where the input's was meant */
void bad_out_rbw__own(ep2_t r, const ep2_t p) {
	fp2_neg(r->y, r->y);
	fp2_copy(r->x, p->x);
	fp2_copy(r->z, p->z);
	r->coord = p->coord;
}

/* the result is stored over the second operand before that operand's x is read */
void bad_alias_rw__second(ep2_t r, const ep2_t p, const ep2_t q) {
	fp2_add(r->x, p->x, p->z);
	fp2_add(r->y, q->x, q->z);
	fp2_mul(r->z, r->x, r->y);
	r->coord = p->coord;
}

void ok_alias_order(ep2_t r, const ep2_t p, const ep2_t q) {
	fp2_add(r->y, q->x, q->z);
	fp2_add(r->x, p->x, p->z);
	fp2_mul(r->z, r->x, r->y);
	r->coord = PROJC;
}

/* the parameter is assumed negative and to fit one digit */
void bad_par_sign__neg(ep2_t r, const ep2_t p) {
	bn_t x;
	bn_null(x);
	bn_new(x);
	fp_prime_get_par(x);
	ep2_mul_dig(r, p, x->dp[0]);
	ep2_neg(r, r);
	bn_free(x);
}

void ok_par_sign(ep2_t r, const ep2_t p) {
	bn_t x;
	bn_null(x);
	bn_new(x);
	fp_prime_get_par(x);
	ep2_mul_dig(r, p, x->dp[0]);
	if (bn_sign(x) == RLC_NEG) {
		ep2_neg(r, r);
	}
	bn_free(x);
}
